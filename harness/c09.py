#!/venv/bin/python
"""C09 - a particle sits at the weighted mean of the atoms it represents.
Model: lean/VermouthModel/C09.lean; theorems: lean/VermouthProps/C09.lean.

A case is a JSON-able dict (also the format of corpus/c09_*.json):
  entry   'function'  -> do_average_bead(mol, ignore, weight)       weight: None | attribute name
          'processor' -> DoAverageBead(ignore, weight).run_molecule  weight: None | False | attribute name
  ffvar   'absent' | None | attribute name   (force_field.variables['center_weight'])
  ignore  ignore_missing_graphs
  atoms   [[key, pos, {attr: 'n/d'}], ...]   the fine-grained molecule in node order;
          pos = [c, c, c] | None (position=None) | 'absent' (no position attribute);
                c = 'n/d' | 'nan' | 'inf' | '-inf'; an atom with a non-finite coordinate is WITHOUT
                coordinates (vermouth.selectors.selector_has_position) just like None/'absent'
  or a HISTORY: entry 'history', weight, ignore, steps [{ffvar, atoms, beads}, ...]: ONE DoAverageBead
  object applied to the molecules in turn (each with its own force field / center_weight variable)
  or a SYSTEM: entry 'system', same fields + style: the molecules in one vermouth.System, ONE run_system
  qexp    (optional) the coordinates are scaled by 2^s, results cross in units of 2^-qexp (driver op avgq)
The mapping-definition stream (real do_mapping -> DoAverageBead, driver op pipe) lives in c09_map.py.
  beads   [{'graph': [keys in subgraph order] | None, 'weights': [[key,'n/d'],...] | None,
            'container': 'subgraph' | 'nx'}, ...]
All numbers are exact rationals whose float image is exact (dyadic); the float computation of
the code then differs from the exact weighted mean only by the rounding of one division, results
cross the boundary quantised to 2^-30.
"""
import itertools
from fractions import Fraction as F
from math import floor
from common import *

chk = Check('C09')
chk.extra['rule'] = ('a fine-grained Molecule and a particle Molecule are built (graph = Molecule.subgraph or a plain '
                     'networkx graph, mapping_weights dict in independently shuffled order, atoms shared between '
                     'particles, positions missing/None, keys missing from the weight dict, extraneous keys); the real '
                     'do_average_bead / DoAverageBead.run_molecule is run; a case is non-trivial if some particle has '
                     '>= 2 positioned constituents with unequal weights; distinct = distinct protocol line. Extension: '
                     'mapping-definition stream (real do_mapping + DoAverageBead on the C01 toy generators, positions '
                     'recomputed from Mapping.mapping; non-trivial = unequal declared weights, an atom re-weighted by a '
                     'modification mapping, or shared atoms), systems (one run_system over molecules with and without '
                     'center_weight; non-trivial = unequal weights and at least one with/without switch), boundary stream')
chk.lean(['VermouthProps.C09', 'VermouthProps.C09_Pipeline', 'VermouthProps.C09_Boundary', 'VermouthProps.C09_Alias'], 'driver_c09')

import numpy as np
import networkx as nx
from vermouth.molecule import Molecule
from vermouth.forcefield import ForceField
from vermouth.processors import average_beads
from vermouth.processors.average_beads import do_average_bead, DoAverageBead

Q = 1 << 30
NONFINITE = ('nan', 'inf', '-inf')


def has_pos(pos):
    """the property's 'atom with coordinates': attribute present, not None, every coordinate finite"""
    return pos is not None and pos != 'absent' and not any(c in NONFINITE for c in pos)

SENTINEL = (123.0, -456.0, 789.0)
TOL_ZONE = F(1, 1000000)          # 0 < |sum w| < 1e-6: the code's 1e-7 tolerance; oracle clause not applied


def rat(x):
    x = F(x)
    return [x.numerator, x.denominator]


def as_number(fr, rng_bit):
    """the python number stored in the real molecule: int when integral (half of the time), else float"""
    fr = F(fr)
    fl = float(fr)
    assert F(fl) == fr, 'generator produced a value that is not exact in binary64: %s' % fr
    if fr.denominator == 1 and rng_bit:
        return int(fr)
    return fl


# ----------------------------------------------------------------------------
# real code
# ----------------------------------------------------------------------------
def build(case):
    ff = ForceField(name='c09')
    if case['ffvar'] != 'absent':
        ff.variables['center_weight'] = case['ffvar']
    aa = Molecule(force_field=ff)
    for n, (key, pos, attrs) in enumerate(case['atoms']):
        d = {'atomname': 'A%d' % key, 'resname': 'XX', 'resid': 1 + n // 4, 'chain': 'A'}
        if pos is None:
            d['position'] = None
        elif pos != 'absent':
            d['position'] = np.array([float(c) if c in NONFINITE else as_number(c, 0) for c in pos], dtype=float)
        for name, v in attrs.items():
            d[name] = as_number(v, (key + n) % 2)
        aa.add_node(key, **d)
    keys = [a[0] for a in case['atoms']]
    for a, b in zip(keys, keys[1:]):
        aa.add_edge(a, b)
    cg = Molecule(force_field=ff)
    for i, b in enumerate(case['beads']):
        d = {'atomname': 'B%d' % i, 'resname': 'XX', 'resid': 1, 'chain': 'A',
             'position': np.array(SENTINEL)}
        if b['graph'] is not None:
            if b.get('container', 'subgraph') == 'subgraph':
                d['graph'] = aa.subgraph(b['graph'])
            else:
                g = nx.Graph()
                for k in b['graph']:
                    g.add_node(k, **dict(aa.nodes[k]))
                d['graph'] = g
        if b['weights'] is not None:
            d['mapping_weights'] = {k: as_number(v, (k + i) % 2) for k, v in b['weights']}
        cg.add_node(3 * i + 2, **d)
    return aa, cg


def quant(v, qexp=30):
    return floor(F(float(v)) * (F(2) ** qexp) + F(1, 2))


def run_impl(case, proc=None):
    """returns (canonical string, per-bead raw results or None); `proc` = an existing DoAverageBead
    object to use instead of a fresh one"""
    aa, cg = build(case)
    try:
        if case['entry'] == 'function':
            ret = do_average_bead(cg, ignore_missing_graphs=case['ignore'], weight=case['weight'])
        elif proc is not None:
            ret = proc.run_molecule(cg)
        else:
            ret = DoAverageBead(ignore_missing_graphs=case['ignore'], weight=case['weight']).run_molecule(cg)
    except KeyError:
        return 'keyerror', None
    except ValueError:
        return 'valueerror', None
    except Exception as e:       # anything else is a disagreement with every model answer
        return 'exception:' + type(e).__name__, None
    if ret is not cg:
        return 'returned-other-object', None
    out, raw = [], []
    for i, b in enumerate(case['beads']):
        pos = cg.nodes[3 * i + 2].get('position')
        if b['graph'] is None:
            ok = pos is not None and tuple(float(c) for c in pos) == SENTINEL
            out.append('-' if ok else 'xtouched')
            raw.append(None if ok else 'touched')
            continue
        held = cg.nodes[3 * i + 2].get('position')
        pos = np.asarray(pos, dtype=float)
        if isinstance(held, np.ndarray) and any(
                isinstance(d.get('position'), np.ndarray) and np.shares_memory(held, d['position'])
                for g_ in (cg.nodes[3 * i + 2]['graph'], aa) for d in g_.nodes.values()):
            # the particle's position must be its own array: writing to it must not move an atom
            out.append('xaliased')
            raw.append('aliased: the position array of the particle shares memory with the position of an atom')
        elif pos.shape != (3,):
            out.append('xshape')
            raw.append('shape %r' % (pos.shape,))
        elif np.all(np.isnan(pos)):
            out.append('[ ]')
            raw.append('nan')
        elif np.any(~np.isfinite(pos)):
            out.append('xnonfinite')
            raw.append('nonfinite %r' % (pos,))
        else:
            out.append('[ %d %d %d ]' % tuple(quant(c, case.get('qexp', 30)) for c in pos))
            raw.append(tuple(F(float(c)) for c in pos))
    return 'ok ' + ('[ ' + ' '.join(out) + ' ]' if out else '[ ]'), raw


# ----------------------------------------------------------------------------
# protocol line for the model
# ----------------------------------------------------------------------------
def proto(case):
    atoms = {a[0]: a for a in case['atoms']}
    beads = []
    for b in case['beads']:
        if b['graph'] is None:
            g = None
        else:
            g = []
            for k in b['graph']:
                _, pos, attrs = atoms[k]
                p = None if (pos is None or pos == 'absent') else [None if c in NONFINITE else rat(c) for c in pos]
                g.append([k, p, [[n, rat(v)] for n, v in attrs.items()]])
        w = None if b['weights'] is None else [[k, rat(v)] for k, v in b['weights']]
        beads.append([g, w])
    entry = 0 if case['entry'] == 'function' else 1
    wt = case['weight']
    wt = 0 if wt is False else wt
    ffv = None if case['ffvar'] == 'absent' else case['ffvar']
    if 'qexp' in case:
        # scaled inputs: results cross in units of 2^-qexp
        return line('avgq', case['qexp'], entry, wt, ffv, case['ignore'], beads)
    return line('avg', entry, wt, ffv, case['ignore'], beads)


# ----------------------------------------------------------------------------
# oracle: the property, stated on the inputs and the real results (no division, no model)
# ----------------------------------------------------------------------------
def effective_weight_attr(case):
    if case['entry'] == 'function':
        return case['weight']
    if case['weight'] is None:
        return None if case['ffvar'] == 'absent' else case['ffvar']
    if case['weight'] is False:
        return None
    return case['weight']


def constituents(case, b):
    """[(weight, position)] of the positioned constituents, or None if a centre weight is undefined"""
    atoms = {a[0]: a for a in case['atoms']}
    attr = effective_weight_attr(case)
    mw = dict((k, F(v)) for k, v in b['weights']) if b['weights'] is not None else {}
    res = []
    for k in b['graph']:
        _, pos, attrs = atoms[k]
        if not has_pos(pos):
            continue
        w = mw.get(k, F(1))
        if attr is not None:
            if attr not in attrs:
                return None
            w *= F(attrs[attr])
        res.append((w, tuple(F(c) for c in pos)))
    return res


def must_succeed(case):
    """every particle has a graph (or they may be skipped) and no centre weight is undefined"""
    if not case['ignore'] and any(b['graph'] is None for b in case['beads']):
        return False
    return all(all_have_attr(case, b) for b in case['beads'] if b['graph'] is not None)


def all_have_attr(case, b):
    attr = effective_weight_attr(case)
    if attr is None:
        return True
    atoms = {a[0]: a for a in case['atoms']}
    return all(attr in atoms[k][2] for k in b['graph'])


class BeadErr(str):
    """an oracle message that knows which particle it is about"""
    bead = None


def oracle(case, raw):
    flags = set()

    class _L(list):
        def append(self, msg):
            m = BeadErr(msg)
            m.bead = cur[0]
            list.append(self, m)
    errs, cur = _L(), [None]
    if raw is None:
        return errs, flags
    for i, (b, r) in enumerate(zip(case['beads'], raw)):
        cur[0] = i
        if b['graph'] is not None:
            atoms = {a[0]: a for a in case['atoms']}
            if any(not has_pos(atoms[k][1]) for k in b['graph']):
                flags.add('has_unpositioned')
            if any(isinstance(atoms[k][1], list) and not has_pos(atoms[k][1]) for k in b['graph']):
                flags.add('has_nonfinite_coordinate')
            if any(isinstance(atoms[k][1], list) and 0 < sum(c in NONFINITE for c in atoms[k][1]) < 3
                   for k in b['graph']):
                flags.add('has_partly_defined_position')
        if b['graph'] is None:
            if r is not None:
                errs.append('particle %d without graph was modified' % i)
            continue
        cons = constituents(case, b)
        if cons is None:
            continue
        total = sum((w for w, _ in cons), F(0))
        if len({w for w, _ in cons}) >= 2:
            flags.add('unequal')
            if len(cons) < len(b['graph']):
                flags.add('unequal_with_unpositioned')
        if 0 < abs(total) < TOL_ZONE:
            flags.add('tolerance_zone')
            continue
        if isinstance(r, str) and r != 'nan':
            errs.append('particle %d: malformed position (%s)' % (i, r))
            continue
        if total == 0:
            flags.add('zero_total')
            if r != 'nan':
                errs.append('particle %d: weights of positioned constituents sum to 0 but position is %s'
                            % (i, [float(c) for c in r]))
            continue
        if r == 'nan':
            errs.append('particle %d: position is NaN although the weights of the positioned constituents '
                        'sum to %s' % (i, total))
            continue
        # weighted mean <=> the weighted displacements cancel: sum w_i (x_i - p) = 0
        scale = sum((abs(w) * (1 + max(abs(c) for c in x)) for w, x in cons), F(0))
        for ax in range(3):
            resid = sum((w * (x[ax] - r[ax]) for w, x in cons), F(0))
            if abs(resid) > scale * F(1, 1 << 40):
                want = sum((w * x[ax] for w, x in cons), F(0)) / total
                errs.append('particle %d axis %d: position %.10f is not the weighted mean %.10f of its %d positioned '
                            'constituents' % (i, ax, float(r[ax]), float(want), len(cons)))
                break
        # weights of ANY sign: the particle lies in the affine hull of the constituents that carry weight -
        # a coordinate they all share is the particle's coordinate
        live = [x for w, x in cons if w != 0]
        for ax in range(3):
            vals = {x[ax] for x in live}
            if len(vals) == 1:
                flags.add('shared_coordinate')
                v = next(iter(vals))
                if abs(r[ax] - v) > scale * F(1, 1 << 40) / abs(total):
                    errs.append('particle %d axis %d: every weighted constituent has coordinate %s, the particle has '
                                '%.12g' % (i, ax, v, float(r[ax])))
                    break
        if any(w < 0 for w, _ in cons):
            flags.add('negative_weight')
        if len(live) == 1:
            flags.add('single_weighted_constituent')
        if any(x == (0, 0, 0) for x in live):
            flags.add('constituent_at_origin')
        if all(w >= 0 for w, _ in cons):
            # (cases with scaled coordinates: the float result carries a relative rounding error)
            btol = F(1, 1 << 40) * (1 if 'qexp' not in case else max(1, max(abs(c) for _, x in cons for c in x)))
            for ax in range(3):
                lo = min(x[ax] for w, x in cons if w > 0)
                hi = max(x[ax] for w, x in cons if w > 0)
                if not (lo - btol <= r[ax] <= hi + btol):
                    errs.append('particle %d axis %d: %.10f outside the bounding box [%s, %s] of its constituents'
                                % (i, ax, float(r[ax]), lo, hi))
                    break
    return errs, flags


# ----------------------------------------------------------------------------
# generator
# ----------------------------------------------------------------------------
MAPW = [F(0), F(1, 4), F(1, 2), F(1), F(2), F(3)]
MASS = [F(1, 4), F(1, 2), F(1), F(2), F(12), F(14), F(16), F(32)]
ATTRS = ['mass', 'other']
ROTS = []
for perm in itertools.permutations(range(3)):
    for signs in itertools.product([1, -1], repeat=3):
        ROTS.append([[signs[r] if perm[r] == c else 0 for c in range(3)] for r in range(3)])


def fs(x):
    return str(F(x))


def gen_case(rng, big=False, nonfinite=None):
    kind = rng.choice(['plain'] * 6 + ['negative', 'tiny', 'allzero'])
    max_cons = 4 if kind == 'negative' else (12 if big and rng.random() < 0.2 else 8)
    n_atoms = rng.choice([0, 1, 2, 3, 4, 6, 8, 8, 10, 10, 14, 14])
    keys = rng.sample(range(0, 60), n_atoms)
    p_missing = rng.choice([0, 0.1, 0.3, 0.6])
    p_noattr = rng.choice([0, 0, 0, 0.05])
    p_nonfinite = nonfinite if nonfinite is not None else rng.choice([0, 0, 0.1, 0.3])
    masses = [F(1), F(2)] if kind == 'negative' else MASS + ([F(0)] if rng.random() < 0.3 else [])
    atoms = []
    for k in keys:
        if rng.random() < p_missing:
            pos = rng.choice([None, 'absent'])
        else:
            pos = [fs(F(rng.randint(-640, 640), 64)) for _ in range(3)]
        if isinstance(pos, list) and rng.random() < p_nonfinite:
            for ax in rng.sample(range(3), rng.choice([1, 1, 2, 3])):
                pos[ax] = rng.choice(['nan', 'nan', 'inf', '-inf'])
        attrs = {}
        for name in rng.sample(ATTRS, 2):
            if rng.random() >= p_noattr:
                attrs[name] = fs(rng.choice(masses))
        atoms.append([k, pos, attrs])
    beads = []
    for _ in range(rng.randint(1, 5)):
        if rng.random() < 0.08:
            beads.append({'graph': None, 'weights': rng.choice([None, [[1, '2']]]), 'container': 'subgraph'})
            continue
        nc = min(n_atoms, rng.choice(list(range(0, max_cons + 1)) + [2, 3, 4, 5]))
        graph = rng.sample(keys, nc)
        if rng.random() < 0.12:
            weights = None
        else:
            wkeys = [k for k in graph if rng.random() < 0.8] + rng.sample(range(60, 70), rng.choice([0, 0, 1, 2]))
            # weights of atoms that belong to other particles only
            wkeys += [k for k in keys if k not in graph and rng.random() < 0.15]
            rng.shuffle(wkeys)
            weights = []
            for k in wkeys:
                if kind == 'allzero' and rng.random() < 0.9:
                    v = F(0)
                elif kind == 'tiny':
                    v = rng.choice([F(1, 1 << 30), F(0), F(1, 1 << 30)])
                elif kind == 'negative':
                    v = rng.choice([F(-1), F(1), F(-1, 2), F(1, 2), F(2), F(0), F(-2)])
                else:
                    v = rng.choice(MAPW)
                weights.append([k, fs(v)])
            if kind == 'tiny' and any(k not in dict(weights) for k in graph):
                # every constituent needs a tiny weight, else the default 1 dominates
                have = dict(weights)
                weights += [[k, fs(F(1, 1 << 30))] for k in graph if k not in have]
                rng.shuffle(weights)
        beads.append({'graph': graph, 'weights': weights, 'container': rng.choice(['subgraph', 'subgraph', 'nx'])})
    entry = rng.choice(['function', 'processor'])
    if entry == 'function':
        weight = rng.choice([None, None, 'mass', 'mass', 'other'])
        ffvar = rng.choice(['absent', 'mass'])      # must be ignored
    else:
        weight = rng.choice([None, None, None, False, 'mass', 'other'])
        ffvar = rng.choice(['absent', None, 'mass', 'mass', 'other'])
    ignore = rng.random() < 0.5
    return {'entry': entry, 'weight': weight, 'ffvar': ffvar, 'ignore': ignore, 'atoms': atoms, 'beads': beads,
            'kind': kind}


def moved(case, rot, shift):
    c = json.loads(json.dumps(case))
    for a in c['atoms']:
        if has_pos(a[1]):
            p = [F(x) for x in a[1]]
            a[1] = [fs(sum(rot[r][k] * p[k] for k in range(3)) + shift[r]) for r in range(3)]
    c['kind'] = 'moved'
    return c


def move_point(p, rot, shift):
    return tuple(sum(rot[r][k] * p[k] for k in range(3)) + shift[r] for r in range(3))


# ----------------------------------------------------------------------------
# cases: corpus first, then the seeded stream, each with a rigidly moved twin
# ----------------------------------------------------------------------------
cases = []      # (case id, case, twin-of index or None, motion)
cdir = os.path.join(VERIF, 'corpus')
for fn in sorted(os.listdir(cdir)):
    if fn.startswith('c09_') and fn.endswith('.json'):
        doc = json.load(open(os.path.join(cdir, fn)))
        for j, c in enumerate(doc['cases']):
            cases.append(('corpus-%s-%d' % (fn[4:-5], j), c, None, None))
rng = chk.rng('stream')
N = 70000 if chk.thorough else 2500
for i in range(N):
    c = gen_case(rng, big=chk.thorough)
    cases.append(('gen-%d' % i, c, None, None))
    if rng.random() < 0.35:
        rot = rng.choice(ROTS)
        shift = [F(rng.randint(-1280, 1280), 64) for _ in range(3)]
        cases.append(('gen-%d-moved' % i, moved(c, rot, shift), len(cases) - 1, (rot, shift)))


# ----------------------------------------------------------------------------
# pipeline stream: 'graph' and 'mapping_weights' as the REAL do_mapping fills them
# (charmm -> martini3001 on the tier-0 test structures, some atoms deleted so that RepairGraph
# re-creates them without coordinates), positions by DoAverageBead.run_system; the particle
# molecule is then transcribed into a case (exact rationals of the floats) for oracle and model.
# ----------------------------------------------------------------------------
pipeline = []      # (case id, case, impl string, raw, extra oracle errors)


def frac_str(x):
    return str(F(float(x)))


def transcribe(cg, aa_nodes, errs):
    """particle molecule after DoMapping+DoAverageBead -> (case, impl string, raw)"""
    atoms, beads, out, raw = {}, [], [], []
    for key, node in cg.nodes.items():
        g = node.get('graph')
        if g is None:
            beads.append({'graph': None, 'weights': None})
            out.append('-')
            raw.append(None)
            continue
        for k, d in g.nodes.items():
            pos = d.get('position')
            src = aa_nodes.get(k)
            if src is None:
                errs.append('particle %r: constituent %r is not an atom of the mapped molecule' % (key, k))
            else:
                sp = src.get('position')
                if (pos is None) != (sp is None) or (pos is not None and not np.array_equal(pos, sp)):
                    errs.append('particle %r: constituent %r has position %r in graph, %r in the molecule'
                                % (key, k, pos, sp))
            ent = [k, None if pos is None else [frac_str(c) if np.isfinite(c) else 'nan' for c in pos],
                   {'mass': frac_str(d['mass'])} if 'mass' in d else {}]
            if k in atoms and atoms[k] != ent:
                errs.append('atom %r differs between the graphs of two particles' % k)
            atoms[k] = ent
        mw = node.get('mapping_weights')
        beads.append({'graph': list(g.nodes),
                      'weights': None if mw is None else [[k, frac_str(v)] for k, v in mw.items()]})
        pos = np.asarray(node.get('position'), dtype=float)
        if pos.shape != (3,):
            out.append('xshape'); raw.append('shape %r' % (pos.shape,))
        elif np.all(np.isnan(pos)):
            out.append('[ ]'); raw.append('nan')
        elif np.any(~np.isfinite(pos)):
            out.append('xnonfinite'); raw.append('nonfinite')
        else:
            out.append('[ %d %d %d ]' % tuple(quant(c) for c in pos))
            raw.append(tuple(F(float(c)) for c in pos))
    ffv = cg.force_field.variables.get('center_weight', 'absent')
    case = {'entry': 'processor', 'weight': None, 'ffvar': ffv, 'ignore': True,
            'atoms': list(atoms.values()), 'beads': beads, 'kind': 'pipeline'}
    return case, 'ok ' + ('[ ' + ' '.join(out) + ' ]' if out else '[ ]'), raw


def run_pipeline():
    import runpy
    from pathlib import Path
    import vermouth
    from vermouth.map_input import read_mapping_directory, generate_all_self_mappings, combine_mappings
    quiet_vermouth_logs()
    M2 = runpy.run_path(os.path.join(REPO, 'bin', 'martinize2'), run_name='verif_m2')
    quiet_vermouth_logs()
    kff = vermouth.forcefield.find_force_fields(Path(vermouth.DATA_PATH) / 'force_fields')
    kmap = read_mapping_directory(Path(vermouth.DATA_PATH) / 'mappings', kff)
    combine_mappings(kmap, generate_all_self_mappings(kff.values()))
    tier0 = os.path.join(REPO, 'vermouth', 'tests', 'data', 'integration_tests', 'tier-0')
    structures = ['mini-protein3_trp-cage', 'dipro-termini', 'mini-protein1_betasheet', 'mini-protein2_helix']
    rng = chk.rng('pipeline')
    runs = 12 if chk.thorough else 3
    for r in range(runs):
        name = structures[r % len(structures)] if chk.thorough else structures[0]
        to_ff = rng.choice(['martini3001', 'martini3001', 'martini22'])
        ndrop = rng.choice([4, 10, 25])
        seed = rng.randrange(1 << 30)
        # a random proper/improper rotation (floats) and translation for the twin run
        qm, _ = np.linalg.qr(np.random.RandomState(seed).normal(size=(3, 3)))
        shift = np.array([rng.uniform(-5, 5) for _ in range(3)])
        results = []
        for twin in (False, True):
            system = vermouth.System()
            vermouth.PDBInput(os.path.join(tier0, name, 'aa.pdb'), exclude=('SOL',), ignh=False).run_system(system)
            drng = random.Random(seed)
            for mol in system.molecules:
                heavy = [k for k, d in mol.nodes.items() if d.get('atomname') not in ('N', 'CA', 'C', 'O')]
                for k in drng.sample(heavy, min(ndrop, len(heavy) // 3)):
                    mol.remove_node(k)
                if twin:
                    for d in mol.nodes.values():
                        d['position'] = qm @ d['position'] + shift
            system = M2['pdb_to_universal'](system, delete_unknown=True, force_field=kff['charmm'])
            aa_nodes = {}
            for mol in system.molecules:
                aa_nodes.update({k: dict(d) for k, d in mol.nodes.items()})
            n_aa_mols = len(system.molecules)
            vermouth.DoMapping(mappings=kmap, to_ff=kff[to_ff], delete_unknown=True,
                               attribute_keep=('cgsecstruct', 'chain', 'secstruct'), attribute_must=('resname',),
                               attribute_stash=('resid',)).run_system(system)
            vermouth.DoAverageBead(ignore_missing_graphs=True).run_system(system)
            errs = []
            if n_aa_mols != 1 or len(system.molecules) != 1:
                chk.notes.append('pipeline run %d: %d molecules, only the first is checked' % (r, n_aa_mols))
            case, im, raw = transcribe(system.molecules[0], aa_nodes, errs)
            case['pipeline'] = {'structure': name, 'to_ff': to_ff, 'ndrop': ndrop, 'seed': seed, 'twin': twin}
            results.append((case, im, raw, errs))
        (c0, im0, raw0, e0), (c1, im1, raw1, e1) = results
        if len(raw0) != len(raw1):
            e1.append('number of particles changed under a rigid motion of the input: %d -> %d' % (len(raw0), len(raw1)))
        else:
            for i, (a, b) in enumerate(zip(raw0, raw1)):
                if isinstance(a, tuple) and isinstance(b, tuple):
                    want = qm @ np.array([float(x) for x in a]) + shift
                    if np.max(np.abs(want - np.array([float(x) for x in b]))) > 1e-9:
                        e1.append('particle %d does not follow the rigid motion of the input: %s expected %s'
                                  % (i, [float(x) for x in b], list(want)))
                elif a != b:
                    e1.append('particle %d: %s became %s under a rigid motion' % (i, a, b))
        pipeline.append(('pipeline-%d' % r, c0, im0, raw0, e0))
        pipeline.append(('pipeline-%d-moved' % r, c1, im1, raw1, e1))


try:
    run_pipeline()
except Exception as e:       # the pipeline itself failing is not a C09 matter, but it must be visible
    import traceback
    chk.notes.append('pipeline stream failed: %s' % traceback.format_exc()[-800:])
    chk.count('pipeline_failed')
    pipeline = []


def within_one(a, b):
    """two canonical result strings that differ by at most one quantum per coordinate (the float sum of
    non-dyadic inputs is not exact)"""
    ta, tb = a.split(), b.split()
    if len(ta) != len(tb):
        return False
    for x, y in zip(ta, tb):
        if x != y:
            try:
                if abs(int(x) - int(y)) > 1:
                    return False
            except ValueError:
                return False
    return True


# ----------------------------------------------------------------------------
# boundary values: weight 0 / 0.0 versus a key missing from mapping_weights, mass 0, atoms AT the origin
# ([0, 0, 0] is a position), a single (weighted / positioned) constituent, negative weights on collinear or
# coplanar atoms (affine hull), coordinates scaled by 2^s, s in [-60, 60] (exact in binary64: 13-bit
# mantissas, weights in sixteenths; results cross in units of 2^(s-20)).
# ----------------------------------------------------------------------------
def gen_boundary(rng):
    kind = rng.choice(['single', 'single', 'origin', 'origin', 'zero_vs_missing', 'mass0', 'negative', 'scaled',
                       'scaled'])
    s = rng.choice([-60, -40, -21, -7, 5, 20, 33, 60]) if kind == 'scaled' else 0
    unit = F(2) ** s

    def coord():
        if kind == 'scaled':
            return fs(rng.randint(-4096, 4096) * unit)
        return fs(F(rng.randint(-640, 640), 64))
    n_atoms = rng.choice([1, 1, 2, 3, 4, 6]) if kind == 'single' else rng.choice([2, 3, 4, 6, 8])
    keys = rng.sample(range(0, 40), n_atoms)
    masses = {'mass0': [F(0), F(0), F(0), F(1), F(12)], 'negative': [F(1), F(2)]}.get(kind, MASS + [F(0)])
    if kind == 'mass0' and rng.random() < 0.4:
        masses = [F(0)]
    plane = [rng.random() < 0.5 for _ in range(3)]      # 'negative': coordinates shared by all atoms
    shared = [coord() for _ in range(3)]
    atoms = []
    for j, k in enumerate(keys):
        pos = [coord() for _ in range(3)]
        if kind == 'origin' and rng.random() < 0.6:
            pos = ['0', '0', '0']
        if kind == 'negative':
            pos = [shared[ax] if plane[ax] else pos[ax] for ax in range(3)]
        if kind == 'single' and j > 0 and rng.random() < 0.7:
            pos = rng.choice([None, 'absent', [pos[0], 'nan', pos[2]]])
        atoms.append([k, pos, {'mass': fs(rng.choice(masses)), 'other': fs(rng.choice([F(0), F(1), F(2)]))}])
    if kind == 'origin' and rng.random() < 0.3:
        for a in atoms:
            a[1] = ['0', '0', '0']
    beads = []
    for _ in range(rng.randint(1, 3)):
        graph = rng.sample(keys, rng.randint(1, n_atoms))
        if kind == 'single' and rng.random() < 0.5:
            graph = graph[:1]
        weights = []
        for k in graph:
            r = rng.random()
            if kind == 'zero_vs_missing':
                if r < 0.4:
                    weights.append([k, '0'])
                elif r < 0.7:
                    continue                       # key missing: weight 1
                else:
                    weights.append([k, fs(rng.choice(MAPW))])
            elif kind == 'negative':
                weights.append([k, fs(rng.choice([F(-1), F(2), F(-1, 2), F(3), F(1), F(-2)]))])
            elif kind == 'single':
                if r < 0.25:
                    continue
                weights.append([k, fs(rng.choice([F(0), F(0), F(1), F(2), F(1, 4), F(-1)]))])
            else:
                if r < 0.15:
                    continue
                weights.append([k, fs(rng.choice(MAPW))])
        rng.shuffle(weights)
        beads.append({'graph': graph, 'weights': None if (not weights and rng.random() < 0.5) else weights,
                      'container': rng.choice(['subgraph', 'nx'])})
    entry = rng.choice(['function', 'processor'])
    if entry == 'function':
        weight, ffvar = rng.choice([None, None, 'mass', 'other']), rng.choice(['absent', 'mass'])
    else:
        weight = rng.choice([None, None, None, False, 'mass'])
        ffvar = rng.choice(['absent', None, 'mass', 'mass', 'other'])
    c = {'entry': entry, 'weight': weight, 'ffvar': ffvar, 'ignore': rng.random() < 0.5, 'atoms': atoms,
         'beads': beads, 'kind': 'boundary-' + kind}
    if kind == 'scaled':
        c['qexp'] = 20 - s
    return c


rng = chk.rng('boundary')
for i in range(8000 if chk.thorough else 900):
    c = gen_boundary(rng)
    cases.append(('boundary-%d' % i, c, None, None))
    if rng.random() < 0.25:
        rot = rng.choice(ROTS)
        unit = F(2) ** (20 - c['qexp']) if 'qexp' in c else F(1, 64)
        shift = [rng.randint(-1280, 1280) * unit for _ in range(3)]
        cases.append(('boundary-%d-moved' % i, moved(c, rot, shift), len(cases) - 1, (rot, shift)))

# Constituents with non-finite coordinates, densely (F-C09-1, fixed in /repo by 8cf210c: they are
# without coordinates and must never contribute, even when only ONE coordinate is undefined).
rng = chk.rng('nanpos')
for i in range(3000 if chk.thorough else 300):
    c = gen_case(rng, nonfinite=rng.choice([0.25, 0.5]))
    c['kind'] = 'nanpos'
    cases.append(('nanpos-%d' % i, c, None, None))


# ----------------------------------------------------------------------------
# histories: ONE DoAverageBead object applied to 2-3 molecules whose force fields configure
# different centre weights (or none).  Each application must equal what a fresh processor gives.
# ----------------------------------------------------------------------------
def gen_history(rng):
    weight = rng.choice([None, None, None, None, False, 'mass', 'other'])
    ignore = rng.random() < 0.5
    steps = []
    base = gen_case(rng)
    for j in range(rng.choice([2, 2, 3])):
        c = base if (j and rng.random() < 0.5) else gen_case(rng)
        base = c
        steps.append({'ffvar': rng.choice(['absent', 'absent', None, 'mass', 'mass', 'other']),
                      'atoms': c['atoms'], 'beads': c['beads']})
    return {'entry': 'history', 'weight': weight, 'ignore': ignore, 'steps': steps, 'kind': 'history'}


def step_case(h, st):
    return {'entry': 'processor', 'weight': h['weight'], 'ffvar': st['ffvar'], 'ignore': h['ignore'],
            'atoms': st['atoms'], 'beads': st['beads']}


def proto_history(h):
    steps = []
    for st in h['steps']:
        toks = dec(proto(step_case(h, st)))
        steps.append([toks[3], toks[5]])
    wt = 0 if h['weight'] is False else h['weight']
    return line('hist', wt, h['ignore'], steps)


def run_history(h):
    """returns (canonical string, [raw per step], errors of the fresh-processor comparison)"""
    proc = DoAverageBead(ignore_missing_graphs=h['ignore'], weight=h['weight'])
    outs, raws_, errs = [], [], []
    for j, st in enumerate(h['steps']):
        sc = step_case(h, st)
        s1, raw1 = run_impl(sc, proc)
        s2, _ = run_impl(sc)
        if s1 != s2:
            errs.append('step %d: the processor object used before gives %s, a fresh DoAverageBead gives %s'
                        % (j, clip(s1, 200), clip(s2, 200)))
        outs.append(s1)
        raws_.append(raw1)
    return ' | '.join(outs), raws_, errs


rng = chk.rng('history')
for i in range(6000 if chk.thorough else 500):
    cases.append(('history-%d' % i, gen_history(rng), None, None))

# ----------------------------------------------------------------------------
# mapping-definition stream (harness/c09_map.py): REAL do_mapping then REAL DoAverageBead on the toy force
# fields / molecules of the C01 generators (block mappings: shared atoms, zero weights, spawned particles,
# overlapping matches; modification mappings that RE-WEIGHT an atom the block mapping already maps, new
# PTM particles), dyadic coordinates / masses on the INPUT molecule.  Model: the composed Lean model
# (`pipe`); oracle: positions recomputed from the mapping definition, not from 'mapping_weights'.
# ----------------------------------------------------------------------------
import c09_map
quiet_vermouth_logs()
map_cases = []
try:
    C01D = c09_map.load_c01_defs(chk)
    mrng = chk.rng('mapdef')
    for i in range(int(os.environ.get('C09_NMAP', 2000 if chk.thorough else 170))):
        map_cases.append(('mapdef-blocks-%d' % i, c09_map.run_case(C01D, mrng, 'blocks')))
    for i in range(int(os.environ.get('C09_NMOD', 2000 if chk.thorough else 170))):
        map_cases.append(('mapdef-mods-%d' % i, c09_map.run_case(C01D, mrng, 'mods')))
    xrng = chk.rng('mapdef-xmods')
    for i in range(int(os.environ.get('C09_NXMOD', 2000 if chk.thorough else 150))):
        map_cases.append(('mapdef-xmods-%d' % i, c09_map.run_case(C01D, xrng, 'xmods')))
except Exception as e:
    import traceback
    chk.notes.append('mapping-definition stream failed: %s' % traceback.format_exc()[-800:])
    chk.count('mapdef_stream_failed')
    chk.case('mapdef-stream', 'mapdef', 'stream-failed', 'stream-ok',
             ['the mapping-definition stream could not be generated: %r' % (e,)], True)
    map_cases = []
quiet_vermouth_logs()
mmodels = chk.drv.ask([c['line'] for _, c in map_cases]) if chk.lean_ok else [None] * len(map_cases)
for (cid, c), mo in zip(map_cases, mmodels):
    errs, flags = [], set()
    if c['status'] == 'ok':
        errs, flags = c09_map.definition_oracle(c, c['out'], c['raw_pos'], c['status2'])
        if c['status2'].startswith('exception') or c['status2'] == 'returned-other-object':
            errs.append('unexpected behaviour of DoAverageBead: ' + c['status2'])
    elif c['status'].startswith('exception'):
        errs.append('unexpected behaviour of do_mapping: ' + c['status'])
    if c.get('aliased'):
        errs.append('particles %r share ONE mapping_weights object: the atoms / weights a mapping assigns to one of '
                    'them show up in the other' % (c['aliased'][:3],))
    if c['kind'] == 'xmods':
        if c['meta'].get('dum') and c['meta'].get('ndum', 0) >= 2:
            chk.count('mapdef_xmods_modification_on_one_of_several_spawned_particles')
        if c['meta'].get('xl'):
            chk.count('mapdef_xmods_crosslink')
    chk.count('mapdef_kind=' + c['kind'])
    chk.count('mapdef_outcome=' + c['impl'].split()[0] + ('' if c['status'] == 'ok' else ' ' + c['status']))
    chk.count('mapdef_config weight=%r ffvar=%r' % (c['weight'], c['ffvar']))
    chk.count('mapdef_block_matches', len(c['rawb']))
    chk.count('mapdef_mod_matches', len(c['rawm']))
    if c['rawm']:
        chk.count('mapdef_case_with_mod_match')
        # does a modification mapping re-weight an atom its block mapping maps to the same particle name?
        rew = False
        for i, mt in c['rawm']:
            m = c['mods'][i]
            for atom, f in mt:
                for b, w in m.mapping.get(f, {}).items():
                    if m.block_to.nodes[b].get('PTM_atom', False):
                        continue
                    for j, bt in c['rawb']:
                        bm = c['blocks'][j]
                        for a2, f2 in bt:
                            if a2 == atom:
                                for t, w2 in bm.mapping.get(f2, {}).items():
                                    if bm.block_to.nodes[t].get('atomname') == m.block_to.nodes[b].get('atomname') \
                                            and F(w2) != F(w):
                                        rew = True
        if rew:
            chk.count('mapdef_case_reweighted_by_modification')
            flags.add('reweighted')
    for f in sorted(flags):
        chk.count('mapdef_flag_' + f)
    nontriv = c['status2'] == 'ok' and ('unequal' in flags or 'reweighted' in flags or 'shared_atoms' in flags)
    chk.case(cid, c['line'], c['impl'], mo, [str(e) for e in errs], nontriv)

# ----------------------------------------------------------------------------
# systems: ONE DoAverageBead.run_system over 2-5 molecules that interleave force fields WITH and WITHOUT a
# center_weight variable (each molecule carries its own ForceField object, or all share one).  An exception
# in one molecule ends the run (Processor.run_system is a plain loop): outcomes up to the first error.
# ----------------------------------------------------------------------------
import vermouth


def gen_system(rng):
    weight = rng.choice([None, None, None, None, False, 'mass', 'other'])
    ignore = rng.random() < 0.6
    n = rng.choice([2, 3, 3, 4, 5])
    style = rng.choice(['alternate', 'alternate', 'random', 'shared'])
    first = rng.choice(['absent', 'mass'])
    steps = []
    for j in range(n):
        c = gen_case(rng)
        if style == 'alternate':
            ffv = first if j % 2 == 0 else ('mass' if first == 'absent' else rng.choice(['absent', None]))
        elif style == 'shared':
            ffv = first
        else:
            ffv = rng.choice(['absent', 'absent', None, 'mass', 'mass', 'other'])
        steps.append({'ffvar': ffv, 'atoms': c['atoms'], 'beads': c['beads']})
    return {'entry': 'system', 'weight': weight, 'ignore': ignore, 'steps': steps, 'kind': 'system', 'style': style}


def proto_system(h):
    steps = []
    for st in h['steps']:
        toks = dec(proto(step_case(h, st)))
        steps.append([toks[3], toks[5]])
    wt = 0 if h['weight'] is False else h['weight']
    return line('sys', wt, h['ignore'], steps)


def read_positions(case, cg):
    out, raw = [], []
    for i, b in enumerate(case['beads']):
        pos = cg.nodes[3 * i + 2].get('position')
        if b['graph'] is None:
            ok = pos is not None and tuple(float(c) for c in pos) == SENTINEL
            out.append('-' if ok else 'xtouched')
            raw.append(None if ok else 'touched')
            continue
        pos = np.asarray(pos, dtype=float)
        if pos.shape != (3,):
            out.append('xshape'); raw.append('shape %r' % (pos.shape,))
        elif np.all(np.isnan(pos)):
            out.append('[ ]'); raw.append('nan')
        elif np.any(~np.isfinite(pos)):
            out.append('xnonfinite'); raw.append('nonfinite %r' % (pos,))
        else:
            out.append('[ %d %d %d ]' % tuple(quant(c) for c in pos))
            raw.append(tuple(F(float(c)) for c in pos))
    return 'ok ' + ('[ ' + ' '.join(out) + ' ]' if out else '[ ]'), raw


def run_system_real(h):
    """returns (canonical string, [raw per processed molecule], errors)"""
    built = [build(step_case(h, st)) for st in h['steps']]
    if h['style'] == 'shared':
        shared = built[0][1].force_field
        for _, cg in built:
            cg._force_field = shared
    system = vermouth.System()
    system.molecules = [cg for _, cg in built]
    before = list(system.molecules)
    errs, err = [], None
    try:
        ret = DoAverageBead(ignore_missing_graphs=h['ignore'], weight=h['weight']).run_system(system)
        if ret is not None:
            errs.append('run_system returned %r' % (ret,))
        if len(system.molecules) != len(before) or any(a is not b for a, b in zip(system.molecules, before)):
            errs.append('run_system changed the list of molecules of the system')
    except KeyError:
        err = 'keyerror'
    except ValueError:
        err = 'valueerror'
    except Exception as e:
        err = 'exception:' + type(e).__name__
    outs, raws_ = [], []
    for j, (st, (_, cg)) in enumerate(zip(h['steps'], built)):
        sc = step_case(h, st)
        fresh, _ = run_impl(sc)
        if not fresh.startswith('ok'):
            # this molecule is where the run stops
            if err is None:
                errs.append('molecule %d: a fresh DoAverageBead gives %s, run_system raised nothing' % (j, fresh))
            elif err != fresh:
                errs.append('molecule %d: a fresh DoAverageBead gives %s, run_system raised %s' % (j, fresh, err))
            outs.append(err or 'no-error')
            raws_.append(None)
            break
        s1, raw1 = read_positions(sc, cg)
        if s1 != fresh:
            errs.append('molecule %d (center_weight=%r) in the system gives %s, alone with a fresh DoAverageBead %s'
                        % (j, st['ffvar'], clip(s1, 200), clip(fresh, 200)))
        outs.append(s1)
        raws_.append(raw1)
    else:
        if err is not None:
            errs.append('run_system raised %s although every molecule alone succeeds' % err)
            outs.append(err)
    return ' | '.join(outs), raws_, errs


rng = chk.rng('system')
for i in range(3000 if chk.thorough else 350):
    cases.append(('system-%d' % i, gen_system(rng), None, None))

lines, impls, raws, pre_errs = [], [], [], []
for cid, c, twin, motion in cases:
    if c['entry'] == 'history':
        s, raw, e = run_history(c)
        lines.append(proto_history(c))
    elif c['entry'] == 'system':
        s, raw, e = run_system_real(c)
        lines.append(proto_system(c))
    else:
        s, raw = run_impl(c)
        e = []
        lines.append(proto(c))
    impls.append(s)
    raws.append(raw)
    pre_errs.append(e)
for cid, c, im, raw, e in pipeline:
    cases.append((cid, c, None, None))
    impls.append(im)
    raws.append(raw)
    lines.append(proto(c))
    pre_errs.append(e)
models = chk.drv.ask(lines) if chk.lean_ok else [None] * len(lines)

for idx, ((cid, c, twin, motion), ln, im, mo, raw) in enumerate(zip(cases, lines, impls, models, raws)):
    if c['entry'] == 'system':
        errs, flags = list(pre_errs[idx]), set()
        sims = im.split(' | ')
        for j, (st, r, sim) in enumerate(zip(c['steps'], raw, sims)):
            sc = step_case(c, st)
            e, f = oracle(sc, r)
            errs += ['molecule %d (center_weight=%r): %s' % (j, st['ffvar'], m) for m in e]
            flags |= f
            if sim.startswith('exception') or sim in ('returned-other-object', 'no-error'):
                errs.append('molecule %d: unexpected behaviour: %s' % (j, sim))
            elif r is None and must_succeed(sc):
                errs.append('molecule %d: no positions generated (%s) although every particle has a graph and every '
                            'constituent has the centre-weight attribute' % (j, sim))
        ffvars = [None if st['ffvar'] == 'absent' else st['ffvar'] for st in c['steps']]
        chk.count('kind=system')
        chk.count('system_style=' + c['style'])
        chk.count('system_molecules=%d' % len(ffvars))
        chk.count('system_processed=%d' % len(sims))
        switches = sum(1 for a, b in zip(ffvars, ffvars[1:]) if (a is None) != (b is None))
        chk.count('system_with_without_switches=%d' % min(switches, 4))
        chk.count('system weight=%r' % (c['weight'],))
        for sim in sims:
            chk.count('outcome=' + sim.split()[0])
        nontriv = 'unequal' in flags and switches >= 1
        chk.case(cid, ln, im, mo, [str(e) for e in errs], nontriv)
        continue
    if c['entry'] == 'history':
        errs, flags = list(pre_errs[idx]), set()
        for j, (st, r, sim) in enumerate(zip(c['steps'], raw, im.split(' | '))):
            sc = step_case(c, st)
            e, f = oracle(sc, r)
            errs += ['step %d (center_weight=%r): %s' % (j, st['ffvar'], m) for m in e]
            flags |= f
            if sim.startswith('exception') or sim == 'returned-other-object':
                errs.append('step %d: unexpected behaviour: %s' % (j, sim))
            elif r is None and must_succeed(sc):
                errs.append('step %d: no positions generated (%s) although every particle has a graph and every '
                            'constituent has the centre-weight attribute' % (j, sim))
        ffvars = [st['ffvar'] for st in c['steps']]
        chk.count('kind=history')
        chk.count('history weight=%r' % (c['weight'],))
        chk.count('history_len=%d' % len(ffvars))
        if len({None if v == 'absent' else v for v in ffvars}) > 1:
            chk.count('history_center_weight_changes')
        for sim in im.split(' | '):
            chk.count('outcome=' + sim.split()[0])
        nontriv = 'unequal' in flags and len({None if v == 'absent' else v for v in ffvars}) > 1
        chk.case(cid, ln, im, mo, [str(e) for e in errs], nontriv)
        continue
    errs, flags = oracle(c, raw)
    errs = pre_errs[idx] + errs
    if c.get('kind') == 'pipeline':
        chk.count('pipeline_particles', len(c['beads']))
        if mo is not None and mo != im and within_one(im, mo):
            chk.count('pipeline_rounding_flip')
            im = mo
        # the protocol line of a whole protein is long; keep a digest as the case input
        ln = 'pipeline %s sha1=%s' % (json.dumps(c['pipeline'], sort_keys=True), hashlib.sha1(ln.encode()).hexdigest())
    if im.startswith('exception') or im == 'returned-other-object':
        errs.append('unexpected behaviour: ' + im)
    elif raw is None and must_succeed(c):
        errs.append('no positions generated (%s) although every particle has a graph and every constituent '
                    'has the centre-weight attribute' % im)
    if twin is not None:
        # rigid motion: the particle follows the motion of its atoms
        rot, shift = motion
        base_im, base_raw = impls[twin], raws[twin]
        if (raw is None) != (base_raw is None) or (raw is None and im != base_im):
            errs.append('outcome changed under a rigid motion: %s -> %s' % (base_im, im))
        elif raw is not None:
            for i, (r0, r1) in enumerate(zip(base_raw, raw)):
                if isinstance(r0, tuple) and isinstance(r1, tuple):
                    want = move_point(r0, rot, shift)
                    ttol = F(1, 1 << 36) * (1 if 'qexp' not in c else max([1] + [abs(x) for x in want]))
                    if any(abs(a - b) > ttol for a, b in zip(want, r1)):
                        errs.append('particle %d does not follow the rigid motion: %s expected %s'
                                    % (i, [float(x) for x in r1], [float(x) for x in want]))
                elif r0 != r1:
                    errs.append('particle %d: %s became %s under a rigid motion' % (i, r0, r1))
        chk.count('moved_twin')
    nontriv = 'unequal' in flags and raw is not None
    chk.count('kind=' + c.get('kind', 'corpus'))
    chk.count('outcome=' + im.split()[0])
    chk.count('entry=%s weight=%r ffvar=%r' % (c['entry'], c['weight'], c['ffvar']))
    for f in sorted(flags):
        chk.count('flag_' + f)
    if raw is not None:
        for b, r in zip(c['beads'], raw):
            if b['graph'] is None:
                chk.count('bead_without_graph')
            else:
                chk.count('bead_n_constituents=%d' % min(len(b['graph']), 9))
                chk.count('bead_nan' if r == 'nan' else 'bead_positioned')
                if b['weights'] is None:
                    chk.count('bead_no_mapping_weights')
                elif any(k not in dict(b['weights']) for k in b['graph']):
                    chk.count('bead_key_missing_from_weights')
        shared = [k for k in {k for b in c['beads'] if b['graph'] for k in b['graph']}
                  if sum(1 for b in c['beads'] if b['graph'] and k in b['graph']) > 1]
        if shared:
            chk.count('case_with_shared_atoms')
    chk.case(cid, ln, im, mo, [str(e) for e in errs], nontriv)
chk.finish()
