"""
C16 - the keyword arguments and record types the basic streams of c16.py leave out, against the full Lean
model (lean/VermouthModel/C16_Full.lean; ops pdbwritex / pdbreadx / growritex / groreadx of driver_c16):

  xsys     systems whose nodes may lack a position, carry velocities and charges, written with
           write_pdb_string(conect, omit_charges, nan_missing_pos) and write_gro(precision, title, box),
           read back with read_pdb / read_gro;
  pdbtext  hand-made PDB texts: CRYST1, MODEL/ENDMDL blocks, records bound to _skip, unknown records, comments,
           HETATM, charges, nan coordinates, duplicate serials, CONECT records inside one molecule and ACROSS
           molecules (the reader merges them), read with exclude / ignh / modelidx;
  grotext  hand-made GRO texts: any coordinate width, velocities, wrong atom counts, missing / extra / empty /
           unreadable box line.

Every function here is self-contained (c16.py passes the helpers it shares).  Records have the form of c16.py:
(case id, protocol line, impl canonical, oracle errors, nontrivial, finding, use_oracle).
"""
import os
from decimal import Decimal
import numpy as np
from common import enc, line

LETTERS = 'ABCDEFGHIJKLMNOPQRSTUVWXYZabcdefghijklmnopqrstuvwxyz'


def exc_name(exc):
    return 'err ' + type(exc).__name__.lower()


def isnan(v):
    return v != v


# ----------------------------------------------------------------------------
# canonical forms of what the real readers return
# ----------------------------------------------------------------------------
def canon_pdbx(mols):
    out = []
    for m in mols:
        atoms, rank = [], {}
        for i, idx in enumerate(m.nodes):
            n = m.nodes[idx]
            rank[idx] = i
            pos = [None if isnan(float(v)) else int(round(float(v) * 10000)) for v in n['position']]
            atoms.append([n['atomid'], n['atomname'], n['altloc'], n['resname'], n['chain'], n['resid'],
                          n['insertion_code'], pos[0], pos[1], pos[2], int(round(n['occupancy'] * 100)),
                          int(round(n['temp_factor'] * 100)), n['element'], int(round(n['charge'] * 100))])
        edges = sorted({(min(rank[u], rank[v]), max(rank[u], rank[v])) for u, v in m.edges})
        box = getattr(m, 'box', None)
        box = None if box is None else [int(round(float(b) * 10000)) for b in box]
        out.append([atoms, [list(e) for e in edges], box])
    return 'ok ' + enc(out)


def canon_grox(mol):
    """in 1e-6 nm (hand-made texts may carry more than three decimals)"""
    atoms = []
    for idx in mol.nodes:
        n = mol.nodes[idx]
        pos = [int(round(float(v) * 1000000)) for v in n['position']]
        vel = n.get('velocity')
        vel = None if vel is None else [int(round(float(v) * 1000000)) for v in vel]
        atoms.append([n['resid'], n['resname'], n['atomname'], n['atomid'], pos[0], pos[1], pos[2], n['element'], vel])
    box = [int(round(float(b) * 1000000)) for b in mol.box]
    return 'ok ' + enc(atoms) + ' ' + enc(box)


# ----------------------------------------------------------------------------
# xsys: systems with the extra node attributes
# ----------------------------------------------------------------------------
def extend_case(rng, case):
    """add position / velocity / charge information and the keyword arguments to a case of c16.rand_case"""
    velmode = rng.choice(['none', 'none', 'all', 'all', 'first_only', 'all_but_one', 'not_first'])
    posmode = rng.choice(['all', 'all', 'all', 'some_missing'])
    chmode = rng.choice(['none', 'some', 'some', 'big'])
    for mol in case['mols']:
        for i, a in enumerate(mol['atoms']):
            a['haspos'] = not (posmode == 'some_missing' and rng.random() < 0.3)
            if velmode == 'none':
                a['vel'] = None
            elif velmode == 'first_only':
                a['vel'] = rand_vel(rng) if i == 0 else None
            elif velmode == 'not_first':
                a['vel'] = None if i == 0 else rand_vel(rng)
            elif velmode == 'all_but_one':
                a['vel'] = rand_vel(rng) if rng.random() < 0.9 else None
            else:
                a['vel'] = rand_vel(rng)
            if chmode == 'none' or rng.random() < 0.4:
                a['charge'] = 0
            elif chmode == 'some':
                a['charge'] = rng.choice([1, -1, 2, -2, 3, 9, -9])
            else:
                a['charge'] = rng.choice([10, -10, 12, -35, 100, 1, -1])
    case['omit_charges'] = rng.random() < 0.35
    case['nan_missing_pos'] = rng.random() < 0.7
    case['precision'] = rng.choice([7, 7, 7, 4, 5, 6, 8, 9, 11])
    case['title'] = rng.choice(['Martinized!', '', 'a title with blanks ', 't.i.t.l.e', '42'])
    case['box'] = rand_box(rng)
    # how the files are produced: write_pdb_string / write_pdb(path), directly or through the DeferredFileWriter
    case['via'] = rng.choice(['string', 'string', 'file', 'deferred'])
    case['velmode'], case['posmode'], case['chmode'] = velmode, posmode, chmode
    case['kind'] = 'xsys'
    return case


def rand_vel(rng):
    def one():
        k = rng.random()
        if k < 0.6:
            return rng.randint(-30000, 30000)
        if k < 0.8:
            return rng.choice([0, 1, -1, 9999, -9999, 10000, 999999, -99999, 9999999, -999999])
        return rng.choice([1, -1]) * rng.randint(10 ** 5, 10 ** 9)
    return (one(), one(), one())


def rand_box(rng):
    def one():
        k = rng.random()
        if k < 0.3:
            return ('int', rng.choice([0, 0, 1, 5, 10, 12, 100, 12345]))
        p = rng.choice([1, 1, 2, 3, 3])
        if k < 0.8:
            return ('dec', rng.randint(0, 60000), p)
        return ('dec', rng.choice([0, 1, 10, 100, 1000, 1500, 123456789, 10 ** 10 + 1]), p)
    return [one() for _ in range(rng.choice([3, 3, 3, 9, 0, 1]))]


def box_value(b):
    return b[1] if b[0] == 'int' else b[1] / 10 ** b[2]


def enc_box(box):
    return [[0, b[1]] if b[0] == 'int' else [1, b[1], b[2]] for b in box]


def enc_systemx(case):
    return [[[[a['key'], a['atomid'], a['atomname'], a['altloc'], a['resname'], a['chain'], a['resid'],
               a['insertion_code'], a['x'], a['y'], a['z'], a['occupancy'], a['temp_factor'], a['element'],
               a['haspos'], None if a['vel'] is None else list(a['vel']), a['charge']]
              for a in mol['atoms']], [list(e) for e in mol['edges']]] for mol in case['mols']]


def build_systemx(case, scale, str_attrs):
    from vermouth.molecule import Molecule
    from vermouth.system import System
    system = System()
    for mol in case['mols']:
        m = Molecule()
        for a in mol['atoms']:
            attrs = {}
            for k in str_attrs + ('resid',):
                if a[k] is not None or a['explicit_none']:
                    attrs[k] = a[k]
            if a['atomid'] is not None:
                attrs['atomid'] = a['atomid']
            for k in ('occupancy', 'temp_factor'):
                if a[k] is not None:
                    attrs[k] = a[k] / 100.0
                elif a['explicit_none']:
                    attrs[k] = None
            if a['haspos']:
                attrs['position'] = np.array([a['x'], a['y'], a['z']], dtype=float) / scale
            if a['vel'] is not None:
                attrs['velocity'] = np.array(a['vel'], dtype=float) / 10000.0
            if a['charge']:
                attrs['charge'] = float(a['charge']) if a['key'] % 2 else a['charge']
            m.add_node(a['key'], **attrs)
        m.add_edges_from(mol['edges'])
        system.add_molecule(m)
    return system


def want_fixed(k, decimals, width):
    """what a right-aligned, truncating fixed-point column of `width` shows of k / 10^decimals"""
    unit = 10 ** decimals
    s = ('-' if k < 0 else '') + '%d.%0*d' % (abs(k) // unit, decimals, abs(k) % unit)
    return int(Decimal(s[-width:]) * unit)


def write_order(mol):
    return sorted(mol['atoms'], key=lambda a: float('inf') if a['atomid'] is None else a['atomid'])


def run_xsys(cid, case, tmp, h):
    """h: helpers of c16.py (gro_variant, STR_ATTRS, has_letter, want_str)"""
    from vermouth.pdb.pdb import write_pdb_string, write_pdb, read_pdb
    from vermouth.gmx.gro import write_gro, read_gro
    from vermouth.file_writer import DeferredFileWriter
    recs, cnt = [], {}
    via = case.get('via', 'string')

    def count(k):
        cnt[k] = cnt.get(k, 0) + 1
    count('x_vel_' + case['velmode'])
    count('x_pos_' + case['posmode'])
    count('x_charges_' + case['chmode'] + ('_omitted' if case['omit_charges'] else '_written'))
    # ---------------- PDB
    wline = line('pdbwritex', case['conect'], case['omit_charges'], case['nan_missing_pos'], enc_systemx(case))
    text = None
    try:
        if via == 'string':
            text = write_pdb_string(build_systemx(case, 10000, h['STR_ATTRS']), conect=case['conect'],
                                    omit_charges=case['omit_charges'], nan_missing_pos=case['nan_missing_pos'])
        else:
            wpath = os.path.join(tmp, 'w%d.pdb' % os.getpid())
            if os.path.exists(wpath):
                os.remove(wpath)
            write_pdb(build_systemx(case, 10000, h['STR_ATTRS']), wpath, conect=case['conect'],
                      omit_charges=case['omit_charges'], nan_missing_pos=case['nan_missing_pos'],
                      defer_writing=(via == 'deferred'))
            if via == 'deferred':
                DeferredFileWriter().write()
            text = open(wpath).read()
        impl_w = 'ok ' + enc(text.split('\n'))
    except Exception as exc:
        impl_w = exc_name(exc)
        if via == 'deferred':
            DeferredFileWriter().close()
    count('x_written_via_' + via)
    count('x_pdbwrite_' + impl_w.split()[0] + ('' if text is not None else '_' + impl_w.split()[1]))
    errs = []
    missing = any(not a['haspos'] for m in case['mols'] for a in m['atoms'])
    empty_first = not case['mols'][0]['atoms']
    if text is None and not (missing and not case['nan_missing_pos']) and not empty_first:
        errs.append('write_pdb_string raised %s although every atom has a position or nan_missing_pos is set' % impl_w)
    if text is not None:
        if missing and not case['nan_missing_pos']:
            errs.append('write_pdb_string wrote a system with an atom without position although nan_missing_pos=False')
        if any(len(l) != 80 for l in text.split('\n') if l.startswith('ATOM')):
            errs.append('an ATOM record is not 80 columns long (fields shifted)')
    recs.append((cid + '-pdbwritex', wline, impl_w, errs, True, None, True))
    if text is not None:
        path = os.path.join(tmp, 'x%d.pdb' % os.getpid())
        with open(path, 'w') as f:
            f.write(text)
        mols, exc = None, None
        try:
            mols = read_pdb(path, exclude=(), ignh=False)
            impl_r = canon_pdbx(mols)
        except Exception as e:
            exc = e
            impl_r = exc_name(e)
        errs = []
        letterless = any(not h['want_str'](a['element'], 2) and not h['has_letter'](h['want_str'](a['atomname'], 4))
                         for m in case['mols'] for a in m['atoms'])
        nser = sum(len(m['atoms']) + 1 for m in case['mols'])
        if exc is not None:
            if missing and 'CONECT' in text:
                # documented: nan coordinates make the file "invalid for most uses" - the reader computes the length
                # of every CONECT bond and scipy refuses not-a-number
                count('x_nan_atom_with_conect')
            elif not letterless:
                errs.append('read_pdb raised %s on the text written by write_pdb_string' % type(exc).__name__)
        elif nser <= 99999:
            kept = [[a for a in write_order(m) if h['want_str'](a['altloc'], 1) in ('', 'A')] for m in case['mols']]
            kept = [k for k in kept if k]
            if [len(k) for k in kept] != [len(m) for m in mols]:
                errs.append('division into molecules lost: wrote %s atoms per molecule, read %s'
                            % ([len(k) for k in kept][:8], [len(m) for m in mols][:8]))
            else:
                for k, got in zip(kept, mols):
                    for a, idx in zip(k, got.nodes):
                        node = got.nodes[idx]
                        pos = [float(v) for v in node['position']]
                        if not a['haspos']:
                            if not all(isnan(v) for v in pos):
                                errs.append('an atom written without position came back with coordinates %r' % (pos,))
                        else:
                            w = [want_fixed(a[c], 3, 8) for c in 'xyz']
                            g = [None if isnan(v) else int(round(v * 10000)) for v in pos]
                            if g != w:
                                errs.append('coordinates read back as %r, expected %r' % (g, w))
                        if not case['omit_charges'] and -9 <= a['charge'] <= 9:
                            if int(round(node['charge'] * 100)) != a['charge'] * 100:
                                errs.append('charge %d read back as %r' % (a['charge'], node['charge']))
                        if case['omit_charges'] and node['charge'] != 0:
                            errs.append('omit_charges=True but a charge %r was read back' % (node['charge'],))
                        if len(errs) > 4:
                            break
        finding = None
        if errs and letterless:
            errs = []
        rline = line('pdbreadx', [], False, 1, text.split('\n'))
        count('x_pdbread_' + impl_r.split()[0] + ('' if exc is None else '_' + impl_r.split()[1]))
        recs.append((cid + '-pdbreadx', rline, impl_r, errs, True, finding, True))
    # ---------------- GRO
    gcase = h['gro_variant'](case)
    for k in ('title', 'box', 'precision'):
        gcase[k] = case[k]
    prec, title, box = case['precision'], case['title'], case['box']
    wline = line('growritex', prec, title, enc_box(box), enc_systemx(gcase))
    path = os.path.join(tmp, 'x%d.gro' % os.getpid())
    flines = None
    try:
        if os.path.exists(path):
            os.remove(path)
        write_gro(build_systemx(gcase, 1000, h['STR_ATTRS']), path, precision=prec, title=title,
                  box=tuple(box_value(b) for b in box), defer_writing=(via == 'deferred'))
        if via == 'deferred':
            DeferredFileWriter().write()
        flines = open(path).read().split('\n')
        if flines and flines[-1] == '':
            flines.pop()
        impl_w = 'ok ' + enc(flines)
    except Exception as exc:
        impl_w = exc_name(exc)
        if via == 'deferred':
            DeferredFileWriter().close()
    count('x_growrite_' + impl_w.split()[0] + ('' if flines is not None else '_' + impl_w.split()[1]))
    atoms = [a for m in gcase['mols'] for a in write_order(m)]
    firsts = [m['atoms'][0] if m['atoms'] else None for m in gcase['mols']]
    # the property, independently: velocities are written iff the first node of every molecule has one
    has_vel = True
    for f in firsts:
        if f is None:
            has_vel = None
            break
        if f['vel'] is None:
            has_vel = False
            break
    errs = []
    ok_expected = has_vel is not None and all(a['haspos'] for a in atoms) and \
        (not has_vel or all(a['vel'] is not None for a in atoms))
    if flines is None and ok_expected:
        errs.append('write_gro raised %s on a system it should be able to write' % impl_w)
    if flines is not None:
        width = prec + 1
        want_len = 20 + 3 * width + (3 * width if has_vel else 0)
        if any(len(l) != want_len for l in flines[2:-1]):
            errs.append('a GRO atom line is not %d columns long (fields shifted)' % want_len)
        if len(flines) != len(atoms) + 3:
            errs.append('GRO file has %d lines for %d atoms' % (len(flines), len(atoms)))
        if flines[0] != title:
            errs.append('title line is %r' % flines[0])
    recs.append((cid + '-growritex', wline, impl_w, errs, True, None, True))
    if flines is not None:
        mol, exc = None, None
        try:
            mol = read_gro(path, exclude=())
            impl_r = canon_grox(mol)
        except Exception as e:
            exc = e
            impl_r = exc_name(e)
        errs = []
        letterless = any(not h['has_letter'](h['want_str'](a['atomname'], 5, 'right')) for a in atoms)
        if not atoms or letterless:
            pass    # outside the domain of the property (no atom line to detect the format on / F-C16-2)
        elif exc is not None:
            errs.append('read_gro raised %s on the file written by write_gro' % type(exc).__name__)
        elif len(mol) != len(atoms):
            errs.append('read %d atoms, wrote %d' % (len(mol), len(atoms)))
        else:
            width = prec + 1
            for a, idx in zip(atoms, mol.nodes):
                node = mol.nodes[idx]
                g = [int(round(float(v) * 1000)) for v in node['position']]
                w = [want_fixed(a[c], 3, width) for c in 'xyz']
                if g != w:
                    errs.append('coordinates read back as %r, expected %r' % (g, w))
                if has_vel:
                    if 'velocity' not in node:
                        errs.append('velocities written but not read back')
                    elif width >= 6:
                        gv = [int(round(float(v) * 10000)) for v in node['velocity']]
                        wv = [want_fixed(k, 4, width) for k in a['vel']]
                        if gv != wv:
                            errs.append('velocity read back as %r, expected %r' % (gv, wv))
                elif 'velocity' in node:
                    errs.append('no velocities written but some read back')
                if len(errs) > 4:
                    break
            gb = [int(round(float(b) * 1000)) for b in mol.box]
            wb = [int(round(box_value(b) * 1000)) for b in box]
            if gb != wb:
                errs.append('box read back as %r, written %r' % (gb, wb))
        count('x_groread_' + impl_r.split()[0] + ('' if exc is None else '_' + impl_r.split()[1]))
        recs.append((cid + '-groreadx', line('groreadx', [], False, flines), impl_r, errs, True, None, True))
    return recs, cnt


# ----------------------------------------------------------------------------
# pdbtext: hand-made PDB texts
# ----------------------------------------------------------------------------
SKIP_RECORDS = ['REMARK', 'HEADER', 'TITLE', 'HELIX', 'SHEET', 'SSBOND', 'LINK', 'ANISOU', 'MASTER', 'SEQRES', 'HET',
                'HETNAM', 'SCALE1', 'ORIGX3', 'remark', 'Helix', 'JRNL', 'DBREF1']
UNKNOWN_RECORDS = ['FOO', 'ATOMS', 'MODEL1', 'CRYST2', 'ENDMD', 'XYZ123', 'SIGATM']


def atom_line(rng, serial, name, resname, chain, resid, x, y, z, element='', charge='', altloc='', record='ATOM',
              nanpos=False):
    def c(v):
        return '     nan' if nanpos else '%8.3f' % (v / 1000.0)
    return '%-6s%5d %-4s%1s%-4s%1s%4d%1s   %s%s%s%6.2f%6.2f          %2s%2s' % (
        record, serial, name, altloc, resname, chain, resid, '', c(x), c(y), c(z), 1.0, 0.0, element, charge)


def rand_pdbtext(rng):
    """-> dict(lines, exclude, ignh, modelidx, atoms=[...per atom line: serial, model, ...], conects=[...])"""
    lines = []
    desc = {'atoms': [], 'conects': [], 'cryst': None}
    modelidx = rng.choice([1, 1, 1, 2, 3, 0])
    exclude = rng.choice([(), (), ('SOL',), ('SOL', 'W')])
    ignh = rng.random() < 0.2
    style = rng.choice(['plain', 'plain', 'models', 'models', 'cross', 'cross', 'messy'])
    # header
    for _ in range(rng.choice([0, 0, 1, 2])):
        lines.append(rng.choice(SKIP_RECORDS).ljust(6) + ' some text 1.0 2.0')
    if rng.random() < 0.5:
        k = rng.random()
        a, b, c = rng.randint(1, 999999), rng.randint(1, 999999), rng.randint(1, 99999)
        if k < 0.7:
            lines.append('CRYST1%9.3f%9.3f%9.3f%7.2f%7.2f%7.2f %-11s%4d' % (a / 1000., b / 1000., c / 1000., 90, 90, 90,
                                                                            'P 1', 1))
            desc['cryst'] = (a, b, c)
        elif k < 0.8:
            lines.append('CRYST1%9.3f%9.3f' % (a / 1000., b / 1000.))
        elif k < 0.9:
            lines.append('CRYST1%9.3f%9.3f%9.3f' % (a / 1000., b / 1000., c / 1000.))
            desc['cryst'] = (a, b, c)
        else:
            lines.append('CRYST1   abc     %9.3f%9.3f' % (b / 1000., c / 1000.))
            desc['bad'] = True
    serial = rng.choice([1, 1, 1, 99990, 5])
    dup_serials = rng.random() < 0.1
    model = None            # number of the governing MODEL record (None: none yet)
    skipping = False
    nmol = rng.choice([1, 2, 2, 3, 4])
    nblocks = rng.choice([2, 3]) if style in ('models', 'messy') else 1
    molid = 0
    for blk in range(nblocks):
        if style in ('models', 'messy'):
            k = rng.random()
            if k < 0.7:
                num = rng.choice([1, 2, 3, blk + 1, blk + 1])
                lines.append('MODEL     %4d' % num)
                model = num
            elif k < 0.8:
                lines.append('MODEL')                         # no number: ignored
            elif k < 0.9:
                lines.append('MODEL        x')                # unreadable number: ignored
            else:
                lines.append('MODEL %8d' % rng.choice([1, 2]))  # number in the standard place (columns 11-14)
                model = int(lines[-1][10:14])
        for mi in range(nmol):
            natoms = rng.choice([1, 2, 3, 5])
            for ai in range(natoms):
                name = rng.choice(['CA', 'N', 'C', 'O', 'CB', 'H', 'HA', '1HB', 'BB', 'SC1'])
                resname = rng.choice(['ALA', 'GLY', 'SOL', 'W', 'LYS', 'POPC'])
                alt = rng.choice(['', '', '', '', 'A', 'B'])
                el = rng.choice(['', '', 'C', 'H', 'N'])
                ch = rng.choice(['', '', '', '1+', '2-', '-1', '+2', '1', 'x', '+-'])
                if ch in ('x', '+-') and rng.random() < 0.97:
                    ch = ''
                nanpos = rng.random() < 0.01
                x, y, z = (rng.randint(-99999, 99999) for _ in range(3))
                rec = rng.choice(['ATOM', 'ATOM', 'ATOM', 'HETATM', 'atom'])
                lines.append(atom_line(rng, serial % 100000, name, resname, rng.choice('AB '), rng.randint(1, 99), x, y, z,
                                       el, ch, alt, rec, nanpos))
                desc['atoms'].append({'serial': serial % 100000, 'model': model, 'mol': molid, 'resname': resname,
                                      'alt': alt, 'element': el or next((c for c in name if c in LETTERS), ''),
                                      'line': len(lines) - 1})
                serial += 1
                if dup_serials and rng.random() < 0.2:
                    serial -= 1
            k = rng.random()
            if k < 0.75 or style == 'plain':
                lines.append('TER   %5d' % (serial % 100000))
                serial += 1
                molid += 1
            elif k < 0.9:
                lines.append('TER')
                molid += 1
            # else: no TER (the next molecule continues this one)
        molid += 1
        if style in ('models', 'messy') and rng.random() < 0.85:
            lines.append('ENDMDL')
    # CONECT
    serials = [a['serial'] for a in desc['atoms']]
    if serials and rng.random() < 0.85:
        for _ in range(rng.choice([1, 2, 3, 5])):
            k = rng.random()
            if style in ('cross', 'messy') or k < 0.25:
                ids = [rng.choice(serials) for _ in range(rng.choice([2, 2, 3, 4]))]
            else:
                mol = rng.choice(desc['atoms'])['mol']
                pool = [a['serial'] for a in desc['atoms'] if a['mol'] == mol]
                ids = [rng.choice(pool) for _ in range(rng.choice([2, 2, 3, 5]))]
            if rng.random() < 0.1:
                ids.append(rng.choice([0, 77777, serial + 5]))      # a serial no atom has
            lines.append('CONECT' + ''.join('%5d' % i for i in ids))
            desc['conects'].append(ids)
        if rng.random() < 0.05:
            lines.append(rng.choice(['CONECT', 'CONECT    1  x', 'CONECT 1 2 3']))
            desc['bad'] = True
    if style == 'messy':
        for _ in range(rng.choice([1, 2, 3])):
            pos = rng.randrange(len(lines) + 1)
            k = rng.random()
            if k < 0.3:
                lines.insert(pos, '')
            elif k < 0.5:
                lines.insert(pos, '# a comment line')
            elif k < 0.7:
                lines.insert(pos, rng.choice(SKIP_RECORDS).ljust(6) + ' inserted')
            elif k < 0.8:
                lines.insert(pos, rng.choice(UNKNOWN_RECORDS).ljust(6) + ' 1 2 3')
                desc['bad'] = True
            elif k < 0.9 and lines:
                i = rng.randrange(len(lines))
                lines[i] = lines[i][:rng.choice([20, 30, 40, 54, 60])]   # a cut-off line
                desc['bad'] = True
            else:
                i = rng.randrange(len(lines))
                lines[i] = lines[i] + ' # trailing comment'
        desc['messy'] = True
    if rng.random() < 0.85:
        lines.append('END')
    return {'kind': 'pdbtext', 'lines': lines, 'exclude': list(exclude), 'ignh': ignh, 'modelidx': modelidx,
            'desc': desc, 'style': style, 'mols': []}


def run_pdbtext(cid, case, tmp, known):
    from vermouth.pdb.pdb import read_pdb
    recs, cnt = [], {}

    def count(k):
        cnt[k] = cnt.get(k, 0) + 1
    path = os.path.join(tmp, 't%d.pdb' % os.getpid())
    with open(path, 'w') as f:
        f.write('\n'.join(case['lines']) + '\n')
    mols, exc = None, None
    try:
        mols = read_pdb(path, exclude=tuple(case['exclude']), ignh=case['ignh'], modelidx=case['modelidx'])
        impl = canon_pdbx(mols)
    except Exception as e:
        exc = e
        impl = exc_name(e)
    desc = case['desc']
    errs, finding = [], None
    count('text_style_' + case['style'])
    count('text_read_' + impl.split()[0] + ('' if exc is None else '_' + impl.split()[1]))
    clean = not desc.get('bad') and not desc.get('messy')
    if exc is None and clean:
        # which atoms must come back: those not governed by a MODEL record with another number
        want = [a for a in desc['atoms'] if (a['model'] is None or a['model'] == case['modelidx'])
                and a['alt'] in ('', 'A') and a['resname'] not in case['exclude'] and not (case['ignh'] and a['element'] == 'H')]
        got = [mols_i.nodes[n]['atomid'] for mols_i in mols for n in mols_i.nodes]
        if sorted(got) != sorted(a['serial'] for a in want):
            errs.append('modelidx=%d: atoms with serials %s expected, %s read' % (case['modelidx'],
                                                                                sorted(a['serial'] for a in want)[:12], sorted(got)[:12]))
        if any(a['model'] is not None for a in desc['atoms']):
            count('text_with_model_records')
        serial_count = {}
        for s in got:
            serial_count[s] = serial_count.get(s, 0) + 1
        where = {}
        for mi, m in enumerate(mols):
            for n in m.nodes:
                where[m.nodes[n]['atomid']] = (mi, n)
        cross = False
        want_mol = {a['serial']: a['mol'] for a in want}
        for ids in desc['conects']:
            for other in ids[1:]:
                a0, a1 = ids[0], other
                if a0 in want_mol and a1 in want_mol and want_mol[a0] != want_mol[a1]:
                    cross = True
        if cross:
            count('text_conect_across_molecules')
        if all(v == 1 for v in serial_count.values()):
            bad = []
            for ids in desc['conects']:
                for other in ids[1:]:
                    a0, a1 = ids[0], other
                    if a0 in where and a1 in where and a0 != a1:
                        (m0, n0), (m1, n1) = where[a0], where[a1]
                        if m0 != m1:
                            bad.append('CONECT %d %d: the two atoms are not in one molecule after reading' % (a0, a1))
                        elif not mols[m0].has_edge(n0, n1):
                            bad.append('CONECT %d %d: no bond between the atoms with these serials after reading' % (a0, a1))
            if bad:
                if cross and 'F-C16-3' in known:
                    finding = 'F-C16-3'
                    errs.extend(bad[:2])
                elif cross:
                    count('text_cross_conect_bond_on_wrong_atom')   # candidate finding F-C16-3, reported in the notes
                else:
                    errs.extend(bad[:2])
        if desc['cryst'] and not cross:
            wb = [v for v in desc['cryst']]
            for m in mols:
                gb = None if getattr(m, 'box', None) is None else [int(round(float(b) * 10000)) for b in m.box]
                if gb != wb:
                    errs.append('CRYST1 %r: molecule box read as %r' % (wb, gb))
                    break
            count('text_with_cryst1')
    rline = line('pdbreadx', case['exclude'], case['ignh'], case['modelidx'], case['lines'])
    recs.append((cid + '-pdbreadx', rline, impl, errs, True, finding, True))
    return recs, cnt


# ----------------------------------------------------------------------------
# grotext: hand-made GRO texts
# ----------------------------------------------------------------------------
def rand_grotext(rng):
    width = rng.choice([8, 8, 8, 5, 6, 7, 9, 10, 12])
    dec = rng.choice([3, 3, 3, 2, 4]) if width >= 7 else 3
    hasvel = rng.random() < 0.4
    n = rng.choice([0, 1, 1, 2, 3, 5, 8])
    lines = [rng.choice(['title', '', 'Generated by hand; 1.0 2.0'])]
    k = rng.random()
    if k < 0.85:
        count = n
    elif k < 0.9:
        count = max(0, n - 1)
    elif k < 0.95:
        count = n + rng.choice([1, 2])
    else:
        count = None
    lines.append(' %d' % count if count is not None else rng.choice(['', 'x', '1.5', '-3']))

    def num(v, w, d):
        s = '%*.*f' % (w, d, v)
        return s[-w:]
    for i in range(n):
        resname = rng.choice(['ALA', 'GLY', 'SOL', 'W', 'POPC', 'LONGR'])
        name = rng.choice(['CA', 'N', 'BB', 'SC1', 'H', 'HW1', '1HB', 'OW', '12'])
        ln = '%5d%-5s%5s%5d' % (rng.choice([1, 2, 99999, 100000 % 100000]), resname, name, (i + 1) % 100000)
        for _ in range(3):
            ln += num(rng.randint(-99999, 99999) / 1000.0, width, dec)
        if hasvel:
            for _ in range(3):
                ln += num(rng.randint(-9999, 9999) / 10000.0, width, min(dec + 1, width - 2))
        if rng.random() < 0.03:
            ln = ln[:rng.choice([18, 25, 30])]
        lines.append(ln)
    k = rng.random()
    if k < 0.6:
        lines.append(' '.join('%.*f' % (rng.choice([1, 3, 5]), rng.randint(0, 99999) / 1000.0) for _ in range(rng.choice([3, 3, 9]))))
    elif k < 0.8:
        lines.append('   10   10   10')
    elif k < 0.85:
        lines.append('')
    elif k < 0.89:
        lines.append('1.0 2.0 x')
    elif k < 0.94:
        lines.append('10000 20000 30000')
    # else: no box line at all
    if rng.random() < 0.1:
        lines.append(rng.choice(['trailing garbage', '', '1 2 3']))
    return {'kind': 'grotext', 'lines': lines, 'exclude': list(rng.choice([(), (), ('SOL',)])),
            'ignh': rng.random() < 0.2, 'mols': [], 'hasvel': hasvel, 'width': width}


def run_grotext(cid, case, tmp):
    from vermouth.gmx.gro import read_gro
    cnt = {}
    path = os.path.join(tmp, 't%d.gro' % os.getpid())
    with open(path, 'w') as f:
        f.write('\n'.join(case['lines']) + '\n')
    try:
        mol = read_gro(path, exclude=tuple(case['exclude']), ignh=case['ignh'])
        impl = canon_grox(mol)
        if case['hasvel'] and len(mol):
            cnt['grotext_velocities_read'] = 1
    except Exception as e:
        impl = exc_name(e)
    key = 'grotext_' + impl.split()[0] + ('' if impl.startswith('ok') else '_' + impl.split()[1])
    cnt[key] = cnt.get(key, 0) + 1
    rline = line('groreadx', case['exclude'], case['ignh'], case['lines'])
    return [(cid + '-groreadx', rline, impl, [], True, None, True)], cnt
