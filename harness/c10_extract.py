"""C10 - what is read off the SOURCE of the repository on every run (AST, nothing is executed here):

* `extract_search`  : the global cut-off handed to the KD-tree and the per-pair threshold of
  `vermouth/processors/make_bonds.py::_bonds_from_distance`, as terms of `C10.Expr`
  (lean/VermouthModel/C10_Search.lean) -> lean/Generated/C10Search.lean
* `extract_cli`     : how `bin/martinize2` turns `-bonds-from` / `-bonds-fudge` into the arguments of
  `MakeBonds` (choices, default, the two membership tests, the keyword plumbing through
  `pdb_to_universal`) -> lean/Generated/C10Cli.lean

The extractor does a small symbolic execution: straight-line assignments are substituted, `a *= b`
is `a = a * b`, `if idx_to_nodenum: A else: B` becomes `ifAny A B`, and the data flow from the loop
variables of `for (idx1, idx2), dist in pairs.items()` to `VDW_RADII[element1]` is followed through
tags.  Whatever it does not recognise becomes `Expr.unknown "<source text>"`, for which the Lean
theorems do not hold: an unrecognised source makes the check fail, never pass."""
import ast
import os
from fractions import Fraction


def _lean_str(s):
    return '"' + ''.join(c if (32 <= ord(c) < 127 and c not in '"\\') else '?' for c in s)[:80] + '"'


def _same(node, text):
    try:
        return ast.dump(node) == ast.dump(ast.parse(text, mode='eval').body)
    except SyntaxError:
        return False


MAXR_SRC = "max(VDW_RADII[graph.nodes[idx]['element']] for idx in idx_to_nodenum.values())"


class _Sym:
    """Symbolic values: ('lit', n, d) ('maxR',) ('fudge',) ('r1',) ('r2',) ('add', a, b) ('mul', a, b)
    ('ifAny', a, b) ('unknown', text) and tags ('tag', name) for the data flow of non-numeric values."""

    def __init__(self, fudge_name='fudge'):
        self.env = {}
        self.fudge_name = fudge_name
        self.cut = None
        self.pair = None
        self.strict = None
        self.notes = []

    def unknown(self, node):
        """something that is not arithmetic the extractor understands (becomes Expr.unknown if it ends up in an expression)"""
        try:
            txt = ast.unparse(node)
        except Exception:  # noqa
            txt = type(node).__name__
        return ('other', txt)

    def sym(self, node):
        if isinstance(node, ast.Constant):
            v = node.value
            if isinstance(v, bool) or not isinstance(v, (int, float)):
                return ('const', v)
            try:
                fr = Fraction(repr(v))
            except (ValueError, ZeroDivisionError):
                return self.unknown(node)
            if fr < 0:
                return self.unknown(node)
            return ('lit', fr.numerator, fr.denominator)
        if isinstance(node, ast.Name):
            if node.id in self.env:
                return self.env[node.id]
            if node.id == self.fudge_name:
                return ('fudge',)
            return ('name', node.id)
        if isinstance(node, ast.BinOp) and isinstance(node.op, (ast.Mult, ast.Add)):
            a, b = self.sym(node.left), self.sym(node.right)
            return ('mul' if isinstance(node.op, ast.Mult) else 'add', a, b)
        if isinstance(node, ast.Call):
            if _same(node, MAXR_SRC):
                return ('maxR',)
            if isinstance(node.func, ast.Attribute) and node.func.attr == 'sparse_distance_matrix':
                return ('tag', 'PAIRS')
            if isinstance(node.func, ast.Attribute) and node.func.attr == 'items' and not node.args:
                base = self.sym(node.func.value)
                if base == ('tag', 'PAIRS'):
                    return ('tag', 'PAIRITEMS')
            return self.unknown(node)
        if isinstance(node, ast.Attribute):
            if _same(node, 'graph.nodes'):
                return ('tag', 'GNODES')
            return self.unknown(node)
        if isinstance(node, ast.Subscript):
            base, idx = self.sym(node.value), self.sym(node.slice)
            if isinstance(node.value, ast.Name) and node.value.id in ('idx_to_nodenum', 'VDW_RADII'):
                base = ('name', node.value.id)
            if base == ('name', 'idx_to_nodenum') and idx[0] == 'tag' and idx[1] in ('IDX1', 'IDX2'):
                return ('tag', 'NODE' + idx[1][-1])
            if base == ('tag', 'GNODES') and idx[0] == 'tag' and idx[1].startswith('NODE'):
                return ('tag', 'ATOM' + idx[1][-1])
            if base[0] == 'tag' and base[1].startswith('ATOM') and idx == ('const', 'element'):
                return ('tag', 'ELEM' + base[1][-1])
            if base == ('name', 'VDW_RADII') and idx[0] == 'tag' and idx[1].startswith('ELEM'):
                return ('r' + idx[1][-1],)
            return self.unknown(node)
        return self.unknown(node)

    # -- statements -----------------------------------------------------------
    def scan(self, node):
        """look for the KD-tree query and the comparison inside one expression (before it takes effect)"""
        for sub in ast.walk(node):
            if isinstance(sub, ast.Call) and isinstance(sub.func, ast.Attribute) \
                    and sub.func.attr == 'sparse_distance_matrix':
                if self.cut is not None:
                    self.notes.append('more than one KD-tree query')
                    self.cut = ('unknown', 'several sparse_distance_matrix calls')
                elif len(sub.args) >= 2:
                    self.cut = self.sym(sub.args[1])
                else:
                    kw = {k.arg: k.value for k in sub.keywords}
                    self.cut = self.sym(kw['max_distance']) if 'max_distance' in kw else ('unknown', 'no cut-off argument')
            if isinstance(sub, ast.Compare) and len(sub.ops) == 1 and self.sym(sub.left) == ('tag', 'DIST'):
                if self.pair is not None:
                    self.notes.append('more than one comparison of the pair distance')
                    self.pair = ('unknown', 'several comparisons of dist')
                else:
                    self.pair = self.sym(sub.comparators[0])
                    op = sub.ops[0]
                    self.strict = True if isinstance(op, ast.Lt) else False if isinstance(op, ast.LtE) else None

    def assign_target(self, target, value):
        if isinstance(target, ast.Name):
            self.env[target.id] = value
        elif isinstance(target, (ast.Tuple, ast.List)):
            for t in target.elts:
                self.assign_target(t, ('unknown', 'unpacked'))

    def run(self, stmts):
        for st in stmts:
            if isinstance(st, ast.Assign):
                self.scan(st.value)
                v = self.sym(st.value)
                for t in st.targets:
                    self.assign_target(t, v)
            elif isinstance(st, ast.AugAssign) and isinstance(st.target, ast.Name):
                self.scan(st.value)
                cur = self.sym(ast.Name(id=st.target.id, ctx=ast.Load()))
                if isinstance(st.op, (ast.Mult, ast.Add)):
                    self.env[st.target.id] = ('mul' if isinstance(st.op, ast.Mult) else 'add', cur, self.sym(st.value))
                else:
                    self.env[st.target.id] = ('unknown', ast.unparse(st))
            elif isinstance(st, ast.If):
                self.scan(st.test)
                before = dict(self.env)
                self.run(st.body)
                env_a = self.env
                self.env = dict(before)
                self.run(st.orelse)
                env_b = self.env
                any_test = _same(st.test, 'idx_to_nodenum')
                merged = {}
                for k in set(env_a) | set(env_b):
                    a, b = env_a.get(k, ('name', k)), env_b.get(k, ('name', k))
                    if a == b:
                        merged[k] = a
                    elif any_test:
                        merged[k] = ('ifAny', a, b)
                    elif a[0] == 'tag' or b[0] == 'tag':
                        merged[k] = a if a[0] == 'tag' else b
                    elif _is_num(a) or _is_num(b):
                        merged[k] = ('unknown', 'value of %s depends on `%s`' % (k, ast.unparse(st.test)))
                    else:
                        merged[k] = a
                self.env = merged
            elif isinstance(st, ast.For):
                self.scan(st.iter)
                it = self.sym(st.iter)
                if it == ('tag', 'PAIRITEMS') and isinstance(st.target, ast.Tuple) and len(st.target.elts) == 2 \
                        and isinstance(st.target.elts[0], ast.Tuple) and len(st.target.elts[0].elts) == 2 \
                        and all(isinstance(x, ast.Name) for x in list(st.target.elts[0].elts) + [st.target.elts[1]]):
                    self.env[st.target.elts[0].elts[0].id] = ('tag', 'IDX1')
                    self.env[st.target.elts[0].elts[1].id] = ('tag', 'IDX2')
                    self.env[st.target.elts[1].id] = ('tag', 'DIST')
                else:
                    self.assign_target(st.target, ('unknown', 'loop variable'))
                self.run(st.body)
                self.run(st.orelse)
            elif isinstance(st, (ast.Expr, ast.Return)):
                if st.value is not None:
                    self.scan(st.value)
            elif isinstance(st, (ast.With, ast.Try)):
                self.run(st.body)
            # continue / pass / others: nothing to follow


def _is_num(v):
    return v[0] in ('lit', 'maxR', 'fudge', 'r1', 'r2', 'add', 'mul', 'ifAny', 'unknown')


def _to_lean(v):
    k = v[0]
    if k == 'lit':
        return '(Expr.lit %d %d)' % (v[1], v[2])
    if k in ('maxR', 'fudge', 'r1', 'r2'):
        return 'Expr.' + k
    if k in ('add', 'mul', 'ifAny'):
        return '(Expr.%s %s %s)' % (k, _to_lean(v[1]), _to_lean(v[2]))
    if k in ('unknown', 'other', 'name'):
        return '(Expr.unknown %s)' % _lean_str(str(v[1]))
    return '(Expr.unknown %s)' % _lean_str(repr(v))


def _to_text(v):
    k = v[0]
    if k == 'lit':
        return str(Fraction(v[1], v[2]))
    if k in ('maxR', 'fudge', 'r1', 'r2'):
        return k
    if k in ('add', 'mul'):
        return '(%s %s %s)' % (_to_text(v[1]), '+' if k == 'add' else '*', _to_text(v[2]))
    if k == 'ifAny':
        return 'ifAny(%s, %s)' % (_to_text(v[1]), _to_text(v[2]))
    return '?%s?' % (v[1] if len(v) > 1 else v,)


def extract_search(repo):
    """-> (text of Generated/C10Search.lean, dict for the evidence)"""
    path = os.path.join(repo, 'vermouth', 'processors', 'make_bonds.py')
    cut = pair = ('unknown', 'function _bonds_from_distance not found')
    strict, notes = None, []
    try:
        tree = ast.parse(open(path).read())
        fn = next((n for n in tree.body if isinstance(n, ast.FunctionDef) and n.name == '_bonds_from_distance'), None)
        if fn is not None:
            names = [a.arg for a in fn.args.args]
            sy = _Sym('fudge' if 'fudge' in names else '?')
            sy.run(fn.body)
            cut = sy.cut if sy.cut is not None else ('unknown', 'no KD-tree query found')
            pair = sy.pair if sy.pair is not None else ('unknown', 'no comparison of the pair distance found')
            strict, notes = sy.strict, sy.notes
    except (OSError, SyntaxError) as e:
        cut = pair = ('unknown', 'cannot read source: %s' % type(e).__name__)
    if strict is None:
        pair = ('unknown', 'comparison operator is not < or <=: ' + _to_text(pair))
        strict = False
    text = ('import VermouthModel.C10_Search\n'
            '/- GENERATED by harness/c10_extract.py from vermouth/processors/make_bonds.py (_bonds_from_distance). Do not edit. -/\n'
            'namespace C10\n'
            '/-- cut: second argument of `tree.sparse_distance_matrix(tree, .)` with the assignments substituted;\n'
            'pair: right-hand side of the comparison of `dist` in the loop over the pairs; strict: `<` instead of `<=` -/\n'
            'def searchSpec : SearchSpec :=\n'
            '  { cut := %s,\n    pair := %s,\n    strict := %s }\n'
            'end C10\n' % (_to_lean(cut), _to_lean(pair), 'true' if strict else 'false'))
    return text, {'cut': _to_text(cut), 'pair': _to_text(pair), 'strict': strict, 'notes': notes}


# ----------------------------------------------------------------------------
# bin/martinize2: -bonds-from / -bonds-fudge -> MakeBonds(allow_name, allow_dist, fudge)
# ----------------------------------------------------------------------------
def _const(node):
    return node.value if isinstance(node, ast.Constant) else None


def _lean_opt_str(v):
    return '(some %s)' % _lean_str(v) if isinstance(v, str) else 'none'


def _lean_list(items):
    return '[' + ', '.join(items) + ']'


def _fraction_of(node):
    v = _const(node)
    if isinstance(v, bool) or not isinstance(v, (int, float)):
        return None
    try:
        fr = Fraction(repr(v))
    except (ValueError, ZeroDivisionError):
        return None
    return fr if fr >= 0 else None


def _add_argument_calls(tree, flag):
    out = []
    for n in ast.walk(tree):
        if isinstance(n, ast.Call) and isinstance(n.func, ast.Attribute) and n.func.attr == 'add_argument' \
                and n.args and _const(n.args[0]) == flag:
            out.append(n)
    return out


def _calls_to(fn, name):
    out = []
    for n in ast.walk(fn):
        if isinstance(n, ast.Call):
            f = n.func
            fname = f.attr if isinstance(f, ast.Attribute) else f.id if isinstance(f, ast.Name) else None
            if fname == name:
                out.append(n)
    return out


def extract_cli(repo):
    """-> (text of Generated/C10Cli.lean, dict for the evidence)"""
    path = os.path.join(repo, 'bin', 'martinize2')
    info = {'notes': []}
    flag = {'dest': None, 'choices': [], 'default': None}
    fudge = {'dest': None, 'type': None, 'default': None}
    assigns, entry_kw, proc_kw = [], [], []
    try:
        tree = ast.parse(open(path).read())
    except (OSError, SyntaxError) as e:
        tree = ast.parse('')
        info['notes'].append('cannot read bin/martinize2: %s' % type(e).__name__)
    calls = _add_argument_calls(tree, '-bonds-from')
    if len(calls) == 1:
        kw = {k.arg: k.value for k in calls[0].keywords}
        flag['dest'] = _const(kw.get('dest')) if 'dest' in kw else 'bonds_from'
        ch = kw.get('choices')
        if isinstance(ch, (ast.List, ast.Tuple)) and all(isinstance(_const(e), str) for e in ch.elts):
            flag['choices'] = [_const(e) for e in ch.elts]
        else:
            info['notes'].append('choices of -bonds-from not a literal list of strings')
        flag['default'] = _const(kw.get('default')) if 'default' in kw else None
        if any(k in kw for k in ('type', 'action', 'nargs', 'const')):
            info['notes'].append('-bonds-from has type/action/nargs/const')
            flag['dest'] = None
    else:
        info['notes'].append('%d add_argument("-bonds-from") calls' % len(calls))
    calls = _add_argument_calls(tree, '-bonds-fudge')
    if len(calls) == 1:
        kw = {k.arg: k.value for k in calls[0].keywords}
        fudge['dest'] = _const(kw.get('dest')) if 'dest' in kw else 'bonds_fudge'
        fudge['type'] = kw['type'].id if isinstance(kw.get('type'), ast.Name) else None
        fudge['default'] = _fraction_of(kw['default']) if 'default' in kw else None
        if any(k in kw for k in ('action', 'nargs', 'const', 'choices')):
            info['notes'].append('-bonds-fudge has action/nargs/const/choices')
            fudge['dest'] = None
    else:
        info['notes'].append('%d add_argument("-bonds-fudge") calls' % len(calls))
    fns = {n.name: n for n in tree.body if isinstance(n, ast.FunctionDef)}
    # MakeBonds(...) inside pdb_to_universal
    p2u = fns.get('pdb_to_universal')
    if p2u is not None:
        mb = _calls_to(p2u, 'MakeBonds')
        if len(mb) == 1 and not mb[0].args:
            proc_kw = [(k.arg, ast.unparse(k.value)) for k in mb[0].keywords if k.arg]
        else:
            info['notes'].append('%d MakeBonds(...) calls in pdb_to_universal (or positional arguments)' % len(mb))
        params = {a.arg for a in p2u.args.args + p2u.args.kwonlyargs}
        rebound = {t.id for n in ast.walk(p2u) for t in (n.targets if isinstance(n, ast.Assign) else
                                                        [n.target] if isinstance(n, (ast.AugAssign, ast.AnnAssign)) else [])
                   if isinstance(t, ast.Name)}
        for k, v in proc_kw:
            if v not in params or v in rebound:
                info['notes'].append('MakeBonds keyword %s=%s is not an untouched parameter of pdb_to_universal' % (k, v))
                proc_kw = [(a, '?' + b if a == k else b) for a, b in proc_kw]
    else:
        info['notes'].append('no function pdb_to_universal')
    # the caller of pdb_to_universal and the membership tests
    for fn in fns.values():
        calls = _calls_to(fn, 'pdb_to_universal')
        if not calls or fn.name == 'pdb_to_universal':
            continue
        if len(calls) != 1 or entry_kw:
            info['notes'].append('more than one call of pdb_to_universal')
            entry_kw = []
            break
        entry_kw = [(k.arg, ast.unparse(k.value)) for k in calls[0].keywords if k.arg]
        count = {}
        for n in ast.walk(fn):
            if isinstance(n, ast.Assign) and len(n.targets) == 1 and isinstance(n.targets[0], ast.Name):
                count[n.targets[0].id] = count.get(n.targets[0].id, 0) + 1
                v = n.value
                if isinstance(v, ast.Compare) and len(v.ops) == 1 and isinstance(v.ops[0], ast.In) \
                        and isinstance(v.comparators[0], (ast.Tuple, ast.List, ast.Set)) \
                        and all(isinstance(_const(e), str) for e in v.comparators[0].elts):
                    assigns.append((n.targets[0].id, ast.unparse(v.left), [_const(e) for e in v.comparators[0].elts]))
        assigns = [a for a in assigns if count.get(a[0]) == 1]     # assigned exactly once
    fd = fudge['default']
    text = ('import VermouthModel.C10_Cli\n'
            '/- GENERATED by harness/c10_extract.py from bin/martinize2 (add_argument("-bonds-from"/"-bonds-fudge"), the\n'
            'membership tests, the call of pdb_to_universal and the call of MakeBonds inside it). Do not edit. -/\n'
            'namespace C10\n'
            'def cliTable : CliTable :=\n'
            '  { dest := %s,\n    choices := %s,\n    default := %s,\n    assigns := %s,\n    entryKw := %s,\n    procKw := %s,\n'
            '    fudgeDest := %s,\n    fudgeType := %s,\n    fudgeDefault := %s }\n'
            'end C10\n'
            % (_lean_opt_str(flag['dest']), _lean_list(_lean_str(c) for c in flag['choices']), _lean_opt_str(flag['default']),
               _lean_list('(%s, %s, %s)' % (_lean_str(a), _lean_str(b), _lean_list(_lean_str(x) for x in c)) for a, b, c in assigns),
               _lean_list('(%s, %s)' % (_lean_str(a), _lean_str(b)) for a, b in entry_kw),
               _lean_list('(%s, %s)' % (_lean_str(a), _lean_str(b)) for a, b in proc_kw),
               _lean_opt_str(fudge['dest']), _lean_opt_str(fudge['type']),
               '(some (%d, %d))' % (fd.numerator, fd.denominator) if fd is not None else 'none'))
    info.update({'bonds_from': flag, 'bonds_fudge': {k: str(v) for k, v in fudge.items()},
                 'membership_tests': assigns, 'makebonds_keywords': proc_kw,
                 'pdb_to_universal_keywords': [kv for kv in entry_kw if 'bond' in kv[0]]})
    return text, info
