"""C13: differential check of the new-style .mapping reader (placeholder)."""


def run_mapping(chk, ask):
    return
