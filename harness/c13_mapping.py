"""C13: differential check of the new-style .mapping reader (`vermouth.map_parser.MappingDirector` +
`MappingBuilder` + `Mapping.__init__`, `vermouth.map_input.read_mapping_file`) against the Lean model
`C13.Mapping.readMapping` (lean/VermouthModel/C13_Mapping.lean).

Protocol
    mapping table                       -> the dispatch table of the model (compared with METH_DICT)
    mapping read <library> <lines>      -> "error" | [ [ mapping ... ] [ key ... ] ]
    library := [ [ ffname [ block ... ] [ modification ... ] ] ... ]
    block   := [ name ffname|- nrexcl|- [ [ nodekey [ [ attr value ] ... ] ] ... ] [ [ a b attrs ] ... ]
                 [ [ section [ atom ... ] payload ] ... ] [ citation ... ] ]
    value   := [ 0 int ] | [ 1 str ] | [ 2 bool ] | [ 3 ] | [ 4 canonical-json-text ] | [ 5 [ choice ... ] ]
    payload := parameters and meta of an interaction as canonical text (opaque to the reader)
    mapping := [ ff_from ff_to type [ names ] [ [ i [ [ j w ] ... ] ] ... ] [ [ to from ] ... ]
                 nodes(block_from) edges(block_from) nodes(block_to) edges(block_to)
                 interactions(block_from) interactions(block_to) citations(block_from) citations(block_to) ]
    edges   := [ [ a b attrs ] ... ]   interactions := [ [ section [ [ [ atom ... ] payload ] ... ] ] ... ]
    key     := [ ff_from ff_to [ names ] index ]     (the nested dict of read_mapping_file, iteration order)
"""
import glob
import json
import os
import time

from common import *

SCALAR = (bool, int, str, type(None))


# ----------------------------------------------------------------------------------------------
# canonical forms of the real objects
# ----------------------------------------------------------------------------------------------
def _repr_j(v):
    from vermouth.molecule import Choice
    if isinstance(v, bool):
        return 'b1' if v else 'b0'
    if isinstance(v, int):
        return 'i%d' % v
    if isinstance(v, str):
        return 's' + v
    if v is None:
        return 'n'
    if isinstance(v, Choice):
        return 'c' + '|'.join(v.value)
    return 'o' + _jtext(v)


def _jtext(v):
    return json.dumps(v, separators=(',', ':'), sort_keys=True, default=repr)


def _payload(it):
    """parameters and meta of an interaction: passed through by the reader, compared as text"""
    from vermouth.molecule import LinkParameterEffector
    ps = []
    for q in it.parameters:
        if isinstance(q, LinkParameterEffector):
            ps.append('%s(%s|%s)' % (type(q).__name__, ','.join(q.keys), q.format))
        else:
            ps.append(q if isinstance(q, str) else repr(q))
    return _jtext([ps, sorted([k, _repr_j(v)] for k, v in it.meta.items())])


def _canon_attrs(chk, d):
    out = []
    for k in sorted(d):
        v = d[k]
        if k == 'modifications' and isinstance(v, list):
            out.append([k, 'o[' + ','.join(str(getattr(x, 'name', x)) for x in v) + ']'])
            continue
        r = _repr_j(v)
        if r.startswith('o'):       # floats, dicts, lists: compared as canonical text
            chk.count('mapfile_attr_nonscalar_compared')
        out.append([k, r])
    return out


def _dump_graph(chk, g):
    nodes = [[k, _canon_attrs(chk, g.nodes[k])] for k in g.nodes]
    edges = sorted([min(a, b), max(a, b), _canon_attrs(chk, g.edges[a, b])] for a, b in g.edges)
    for e in edges:
        if e[2]:
            chk.count('mapfile_edge_attrs_compared')
    return nodes, edges


def _dump_inters(chk, g):
    out = [[t, [[list(it.atoms), _payload(it)] for it in its]] for t, its in g.interactions.items()]
    chk.count('mapfile_interactions_compared', sum(len(x[1]) for x in out))
    return out


def dump_mapping(chk, m):
    nf, ef = _dump_graph(chk, m.block_from)
    nt, et = _dump_graph(chk, m.block_to)
    return [m.ff_from, m.ff_to, m.type, list(m.names),
            [[i, [[j, w] for j, w in d.items()]] for i, d in m.mapping.items()],
            [[t, f] for t, f in m.references.items()], nf, ef, nt, et,
            _dump_inters(chk, m.block_from), _dump_inters(chk, m.block_to),
            sorted(m.block_from.citations), sorted(m.block_to.citations)]


def _enc_val(v):
    if isinstance(v, bool):
        return [2, 1 if v else 0]
    if isinstance(v, int):
        return [0, v]
    if isinstance(v, str):
        return [1, v]
    if v is None:
        return [3]
    from vermouth.molecule import Choice
    if isinstance(v, Choice):
        return [5, list(v.value)]
    return [4, _jtext(v)]


def _enc_attrs(d):
    # `modifications` = [the modification itself] is what `_blocks` writes into the nodes of a fetched
    # modification (a side effect on the force field); the model sets it itself
    return [[a, _enc_val(v)] for a, v in d.items() if isinstance(a, str) and not (a == 'modifications' and isinstance(v, list))]


def _lib_block(key, b):
    nodes = [[str(k), _enc_attrs(b.nodes[k])] for k in b.nodes]
    edges = [[str(a), str(c), _enc_attrs(b.edges[a, c])] for a, c in b.edges]
    inters = [[t, [str(a) for a in it.atoms], _payload(it)] for t, its in b.interactions.items() for it in its]
    ff = b.force_field
    return [key, None if ff is None else ff.name, b.nrexcl, nodes, edges, inters, sorted(b.citations)]


def library(ffs, keep=None):
    """the library argument built from real ForceField objects; `keep(name)` restricts the blocks"""
    lib = []
    for name, ff in ffs.items():
        blocks = [_lib_block(k, b) for k, b in ff.blocks.items() if keep is None or keep(k)]
        mods = [_lib_block(k, b) for k, b in ff.modifications.items() if keep is None or keep(k)]
        lib.append([name, blocks, mods])
    return lib


def run_real(chk, lines, ffs):
    """read_mapping_file on the real code; the emitted mappings are recorded by a subclass of the real
    director that only observes the return value of finalize_section"""
    from vermouth import map_input, map_parser
    emitted = []

    class Rec(map_parser.MappingDirector):
        def finalize_section(self, previous_section, ended_section):
            r = super().finalize_section(previous_section, ended_section)
            if r is not None:
                emitted.append(r)
            return r

    orig = map_input.MappingDirector
    map_input.MappingDirector = Rec
    try:
        try:
            out = map_input.read_mapping_file(list(lines), ffs)
        finally:
            map_input.MappingDirector = orig
    except Exception as e:   # every exception is a rejection
        return 'error', None, None, type(e).__name__
    keys = []
    for f, d1 in out.items():
        for t, d2 in d1.items():
            for n, m in d2.items():
                idx = [i for i, x in enumerate(emitted) if x is m]
                keys.append([f, t, list(n), idx[0] if idx else -1])
    try:
        im = enc([[dump_mapping(chk, m) for m in emitted], keys])
    except Exception as e:      # not representable: never equal to a model answer
        im = 'undumpable %r' % (e,)
    return im, emitted, keys, None


# ----------------------------------------------------------------------------------------------
# toy force fields (built with the real read_ff from a specification the generator also uses)
# ----------------------------------------------------------------------------------------------
# name -> list of (atomname, local resid, extra attributes)
SPEC = {
    'aa': {
        'nrexcl': 3,
        'blocks': {
            'ALA': [('N', 1, {}), ('CA', 1, {'element': 'C'}), ('CB', 1, {}), ('C', 1, {}), ('O', 1, {'flag': True})],
            'GLY': [('N', 1, {}), ('CA', 1, {}), ('C', 1, {}), ('O', 1, {})],
            'SER': [('N', 1, {}), ('CA', 1, {}), ('CB', 1, {}), ('OG', 1, {'element': 'O'}), ('C', 1, {}), ('O', 1, {})],
            'DIP': [('A1', 1, {}), ('B1', 1, {}), ('A2', 2, {}), ('B2', 2, {})],
        },
        'odd': {'ODD': [('X', 1, {}), ('Y', 1, {})]},
        'mods': {
            'C-ter': [('CA', 1, {'element': 'C'}), ('C', 1, {}), ('O', 1, {}), ('OXT', 1, {'PTM_atom': True})],
            'N-ter': [('CA', 1, {}), ('N', 1, {}), ('HN2', 1, {'PTM_atom': True, 'replace': {'atomname': 'HN2'}})],
        },
    },
    'cg': {
        'nrexcl': 1,
        'blocks': {
            'ALA': [('BB', 1, {}), ('SC1', 1, {})],
            'GLY': [('BB', 1, {})],
            'SER': [('BB', 1, {}), ('SC1', 1, {'element': 'X'})],
            'DIP': [('BB1', 1, {}), ('BB2', 2, {})],
        },
        'odd': {'ODD': [('Q', 1, {})]},
        'mods': {
            'C-ter': [('BB', 1, {'replace': {'atype': 'Qa', 'charge': -1}})],
            'N-ter': [('BB', 1, {}), ('TP', 1, {'PTM_atom': True})],
        },
    },
}


def toy_ff_text(name):
    sp = SPEC[name]
    out = []
    for coll, nrexcl in (('blocks', sp['nrexcl']), ('odd', sp['nrexcl'] + 1)):
        for bname, atoms in sp[coll].items():
            out += ['[ moleculetype ]', '%s %d' % (bname, nrexcl), '[ atoms ]']
            for i, (an, rid, extra) in enumerate(atoms, 1):
                out.append('%d T%s %d %s %s %d 0.25%s' % (i, an[0], rid, bname, an, 1 + (i - 1) // 2,
                                                          (' ' + json.dumps(extra)) if extra else ''))
            out.append('[ edges ]')
            for (a, _, _), (b, _, _) in zip(atoms, atoms[1:]):
                out.append('%s %s' % (a, b))
            if len(atoms) >= 2:
                out.append('[ bonds ]')
                for j, ((a, _, _), (b, _, _)) in enumerate(zip(atoms, atoms[1:])):
                    out.append('%s %s 1 0.%d 1000%s' % (a, b, j + 1, ' {"group": "g%d"}' % j if j % 2 else ''))
            if len(atoms) >= 3:
                out += ['[ angles ]', '#meta {"comment": "toy"}',
                        '%s %s %s 2 120 25' % (atoms[0][0], atoms[1][0], atoms[2][0])]
                out += ['[ constraints ]', '%s %s 1 0.3 {"edge": false}' % (atoms[0][0], atoms[2][0])]
            if len(bname) % 2:
                out += ['[ citation ]', 'cite_%s %s_paper' % (bname, name)]
    for mname, atoms in sp['mods'].items():
        out += ['[ modification ]', mname, '[ atoms ]']
        for an, _, extra in atoms:
            out.append('%s %s' % (an, json.dumps(extra)))
        out.append('[ edges ]')
        for (a, _, _), (b, _, _) in zip(atoms, atoms[1:]):
            out.append('%s %s' % (a, b))
        if len(atoms) >= 2:
            out += ['[ bonds ]', '%s %s 1 dist(%s,%s|.3f) 5000' % (atoms[0][0], atoms[1][0], atoms[0][0], atoms[1][0])]
        out += ['[ citation ]', 'mod_%s' % mname]
    return ['[ citations ]', 'ff_%s_paper' % name] + out


def toy_ffs():
    from vermouth.ffinput import read_ff
    from vermouth.forcefield import ForceField
    ffs = {}
    for name in SPEC:
        ff = ForceField(name=name)
        read_ff(toy_ff_text(name), ff)
        # edge attributes cannot be written in a .ff file; a library built by other means can have them
        for b in list(ff.blocks.values()) + list(ff.modifications.values()):
            for k, (u, v) in enumerate(b.edges):
                if k % 2 == 0:
                    b.edges[u, v]['kind'] = 'bb' if k % 4 == 0 else 7
        ffs[name] = ff
    return ffs


# ----------------------------------------------------------------------------------------------
# generator: the AST of a .mapping file and its rendering
# ----------------------------------------------------------------------------------------------
class Use:
    """one block of a direction: what is declared about it"""
    def __init__(self, resname, ident, attrs, text, alone):
        self.resname, self.ident, self.attrs, self.text, self.alone = resname, ident, attrs, text, alone


def gen_direction(rng, ff, kind, nblocks):
    """blocks of one direction; returns (uses, expected nodes, lines of the blocks section)"""
    coll = SPEC[ff]['blocks' if kind == 'block' else 'mods']
    names = sorted(coll)
    uses, nodes, lines = [], [], []
    offset, line_resid, cur_line = 0, 0, []
    used_ids = set()
    for k in range(nblocks):
        rn = rng.choice(names)
        atoms = coll[rn]
        first = offset + 1
        for an, rid, _ in atoms:
            nodes.append({'resname': rn if kind == 'block' else None, 'resid': rid + offset, 'atomname': an})
        offset = nodes[-1]['resid']
        style = rng.choice(['short', 'short', 'short', 'long', 'long_nores'])
        if style == 'long_nores' and sum(1 for u in uses if u.resname == rn) > 0:
            style = 'long'
        if style == 'short':
            implicit = line_resid + 1
            tok = rn
            if first != implicit or rng.random() < 0.3 or rn in used_ids:
                tok = '%s#%d' % (rn, first)
            if tok in used_ids:
                style = 'long'
            else:
                used_ids.add(tok)
                uses.append(Use(rn, tok, {'resname': rn, 'resid': first}, tok, False))
                cur_line.append(tok)
                line_resid = first
                if rng.random() < 0.4:
                    lines.append(rng.choice([' ', '  ', '\t']).join(cur_line))
                    cur_line, line_resid = [], 0
                continue
        if cur_line:
            lines.append(' '.join(cur_line))
            cur_line, line_resid = [], 0
        ident = 'R%d' % k
        used_ids.add(ident)
        attrs = {'resname': rn, 'resid': first} if style == 'long' else {'resname': rn}
        uses.append(Use(rn, ident, attrs, None, True))
        lines.append('%s %s' % (ident, json.dumps(attrs)))
    if cur_line:
        lines.append(' '.join(cur_line))
    if kind == 'modification':
        for u in uses:
            u.attrs = {a: v for a, v in u.attrs.items() if a != 'resname'}
    return uses, nodes, lines


def matches(nodes, attrs, atomname):
    """the nodes a specification selects (plain equality: the generator only uses scalars)"""
    tmpl = dict(attrs, atomname=atomname)
    return [i for i, n in enumerate(nodes) if all(n.get(a) == v for a, v in tmpl.items())]


class Section:
    pass


def gen_section(rng, macros):
    s = Section()
    s.kind = rng.choice(['block', 'block', 'modification'])
    s.ff = {'from': 'aa', 'to': 'cg'} if rng.random() < 0.7 else {'from': 'cg', 'to': 'aa'}
    s.empty = rng.random() < 0.05
    s.subs = []          # (header name, [content lines])
    s.triples, s.refs, s.names = [], {}, []
    s.edges = {'from': [], 'to': []}
    s.uses, s.nodes = {'from': [], 'to': []}, {'from': [], 'to': []}
    if s.empty:
        s.ff = {'from': None, 'to': None}
        return s
    order = ['from', 'to']
    rng.shuffle(order)
    for d in order:
        name = s.ff[d]
        if macros and rng.random() < 0.5:
            name = '$' + macros + name
        s.subs.append((d, [name]))
    blocks = {}
    for d in ('from', 'to'):
        s.uses[d], s.nodes[d], blocks[d] = gen_direction(rng, s.ff[d], s.kind, rng.randint(1, 3 if d == 'from' else 2))
    s.names = [u.resname for u in s.uses['from']]
    rng.shuffle(order)
    for d in order:
        s.subs.append((d + ' blocks', blocks[d]))
    cur = {'from': None, 'to': None}

    def ref(d, ui, an):
        if (len(s.uses[d]) == 1 or cur[d] == ui) and rng.random() < 0.5:
            if len(s.uses[d]) == 1:
                cur[d] = 0
            return an
        cur[d] = ui
        return '%s:%s' % (s.uses[d][ui].ident, an)

    def addressable(d):
        out = []
        for ui, u in enumerate(s.uses[d]):
            for an in sorted({n['atomname'] for n in s.nodes[d]}):
                m = matches(s.nodes[d], u.attrs, an)
                if len(m) == 1:
                    out.append((ui, an, m[0]))
        return out

    # extra nodes
    for d in ('from', 'to'):
        if rng.random() < 0.3:
            ls = []
            for x in range(rng.randint(1, 2)):
                ui = rng.randrange(len(s.uses[d]))
                an = 'H%s%d' % (d[0].upper(), x)
                extra = rng.choice([None, {'element': 'H'}, {'tag': 7}, {'flag': False}, {'replace': {'atomname': 'X', 'q': [1, 2]}},
                                    {'w': 0.5}])
                node = dict(s.uses[d][ui].attrs, atomname=an)
                node.setdefault('resname', None)
                node.setdefault('resid', None)
                s.nodes[d].append(node)
                ls.append(ref(d, ui, an) + ((' ' + json.dumps(extra)) if extra else ''))
            s.subs.append((d + ' nodes', ls))
    addr = {d: addressable(d) for d in ('from', 'to')}
    # edges
    for d in ('from', 'to'):
        if rng.random() < 0.3 and len({a[2] for a in addr[d]}) >= 2:
            ls = []
            for _ in range(rng.randint(1, 2)):
                a, b = rng.sample(addr[d], 2)
                if a[2] == b[2]:
                    continue
                eattr = rng.choice([None, None, {'order': 2}, {'kind': 'x', 'w': [1, 2]}, {'kind': None}])
                s.edges[d].append((a[2], b[2], eattr or {}))
                ls.append('%s %s%s' % (ref(d, a[0], a[1]), ref(d, b[0], b[1]), (' ' + json.dumps(eattr)) if eattr else ''))
            if ls:
                s.subs.append((d + ' edges', ls))
    # mapping lines
    ls = []
    if addr['from'] and addr['to']:
        for _ in range(rng.randint(1, 8)):
            if s.triples and rng.random() < 0.15:
                f, t = rng.choice(s.triples)[:2]       # the same pair again: the last line wins
                f = rng.choice([a for a in addr['from'] if a[2] == f])
                t = rng.choice([a for a in addr['to'] if a[2] == t])
            else:
                f, t = rng.choice(addr['from']), rng.choice(addr['to'])
            w = rng.choice([None, None, 0, 1, 2, 3, -1, 5])
            s.triples.append((f[2], t[2], 1 if w is None else w))
            sep = rng.choice([' ', '   ', '\t'])
            ls.append(sep.join([ref('from', f[0], f[1]), ref('to', t[0], t[1])] + ([] if w is None else [str(w)])))
    if len(ls) >= 2 and rng.random() < 0.2:
        k = rng.randrange(1, len(ls))
        s.subs.append(('mapping', ls[:k]))
        s.subs.append(('mapping', ls[k:]))
    else:
        s.subs.append(('mapping', ls))
    # reference atoms
    if s.triples and rng.random() < 0.3:
        ls = []
        for _ in range(rng.randint(1, 2)):
            f, t, _w = rng.choice(s.triples)
            fa = rng.choice([a for a in addr['from'] if a[2] == f])
            ta = rng.choice([a for a in addr['to'] if a[2] == t])
            # the specification of the from atom selects exactly this node, which maps to t
            s.refs[t] = f
            ls.append('%s %s' % (ref('to', ta[0], ta[1]), ref('from', fa[0], fa[1])))
        s.subs.append(('reference atoms', ls))
    s.addr = addr
    return s


def fmt_header(rng, name):
    k = rng.random()
    if k < 0.6:
        return '[ %s ]' % name
    if k < 0.75:
        return '[%s]' % name
    if k < 0.9:
        return '[  %s ] ; header' % name.upper()
    return '  [ %s ]  ' % name


def render(rng, secs, macros):
    out = []
    if macros:
        out.append(fmt_header(rng, 'macros'))
        # a macro name ends at one of ' ${}\n\t"' only (`F-aa`, `F.cg`, `9aa`); its prefix is often a macro too
        defs = [macros + 'aa aa', macros + 'cg  cg ; force field']
        if macros[:-1] and rng.random() < 0.6:
            defs.insert(rng.randrange(3), macros[:-1] + ' zz')
        out += defs
    for s in secs:
        out.append(fmt_header(rng, s.kind))
        for name, ls in s.subs:
            out.append(fmt_header(rng, name))
            for l in ls:
                if rng.random() < 0.1:
                    out.append(rng.choice(['', '; comment', '   ']))
                out.append(l + (' ; c' if rng.random() < 0.1 else ''))
        if rng.random() < 0.3:
            out.append('')
        if macros and rng.random() < 0.15:     # a macros section between two mappings ends the first one
            out += [fmt_header(rng, 'macros'), 'Gx y']
    return out


FAULTS = ['unknown_atom', 'ambiguous_atom', 'unknown_identifier', 'unknown_block', 'molecule', 'unbalanced_header',
          'unknown_ff', 'bad_weight', 'colons', 'bare_no_current', 'nodes_before_blocks', 'nrexcl', 'unknown_section',
          'undefined_macro', 'resid_mismatch', 'self_edge', 'bad_reference', 'missing_ff', 'content_after_kind']


def inject(rng, secs, fault):
    """damage one section so that the real reader must raise; returns the fault that was applied"""
    cands = [s for s in secs if not s.empty and s.addr['from'] and s.addr['to']]
    if not cands:
        return None
    s = rng.choice(cands)
    fu, tu = s.uses['from'], s.uses['to']
    fa, ta = rng.choice(s.addr['from']), rng.choice(s.addr['to'])
    fref = '%s:%s' % (fu[fa[0]].ident, fa[1])
    tref = '%s:%s' % (tu[ta[0]].ident, ta[1])
    subs = s.subs

    def idx(name):
        return [i for i, (n, _) in enumerate(subs) if n == name]

    mi = idx('mapping')[-1]
    if fault == 'unknown_atom':
        d = rng.choice(['from', 'to'])
        subs[mi][1].append('%s:ZZ9 %s' % (fu[fa[0]].ident, tref) if d == 'from' else '%s %s:ZZ9' % (fref, tu[ta[0]].ident))
    elif fault == 'ambiguous_atom':
        rn = fu[fa[0]].resname
        if fa[1] not in [a for a, _, _ in SPEC[s.ff['from']]['blocks' if s.kind == 'block' else 'mods'][rn]]:
            return None
        subs[idx('from blocks')[0]][1].append('DUP {"resname": "%s"}' % rn)
        subs[mi][1].append('DUP:%s %s' % (fa[1], tref))
    elif fault == 'unknown_identifier':
        subs[mi][1].insert(rng.randrange(len(subs[mi][1]) + 1), 'NOPE:%s %s' % (fa[1], tref))
    elif fault == 'unknown_block':
        subs[idx(rng.choice(['from blocks', 'to blocks']))[0]][1].append(rng.choice(['QQQ', 'QQQ#7', 'Z {"resname": "QQQ"}', 'Z {"resname": 5}']))
    elif fault == 'molecule':
        subs.append(('molecule', ['ALA']))
    elif fault == 'unbalanced_header':
        subs.insert(rng.randrange(len(subs) + 1), ('\x00[ mapping', []))
    elif fault == 'unknown_ff':
        d = rng.choice(['from', 'to'])
        subs[idx(d)[0]][1][:] = ['nosuchff']
    elif fault == 'missing_ff':
        del subs[idx(rng.choice(['from', 'to']))[0]]
    elif fault == 'bad_weight':
        subs[mi][1].append('%s %s %s' % (fref, tref, rng.choice(['0.5', 'x', '1e3', '--1'])))
    elif fault == 'colons':
        subs[mi][1].append('%s:X %s' % (fref, tref))
    elif fault == 'bare_no_current':
        if len(fu) < 2 or any(n in ('from nodes', 'from edges') for n, _ in subs):
            return None
        subs[idx('mapping')[0]][1].insert(0, '%s %s' % (fa[1], tref))
    elif fault == 'nodes_before_blocks':
        d = rng.choice(['from', 'to'])
        i = idx(d + ' blocks')[0]
        subs[i:i] = [(d + ' blocks', ['!TMP']), (d + ' nodes', ['TMP:H1'])]
    elif fault == 'nrexcl':
        if s.kind != 'block':
            return None
        d = rng.choice(['from', 'to'])
        subs[idx(d + ' blocks')[0]][1].append('ODD#9')
    elif fault == 'unknown_section':
        subs.insert(rng.randrange(len(subs) + 1), (rng.choice(['foo', 'atoms', 'from  blocks']), ['bar']))
    elif fault == 'content_after_kind':
        subs.insert(0, ('\x00', ['stray content']))
    elif fault == 'undefined_macro':
        subs[mi][1].append('$nope %s' % tref)
    elif fault == 'resid_mismatch':
        coll = SPEC[s.ff['from']]['blocks' if s.kind == 'block' else 'mods']
        free = [n for n in sorted(coll) if all(u.resname != n for u in fu)]
        if not free:
            return None
        rn = free[0]
        # an atom name that no node declared so far has (a modification identifier carries no resname)
        fresh = [a for a, _, _ in coll[rn] if all(n['atomname'] != a for n in s.nodes['from'])]
        if not fresh:
            return None
        subs[idx('from blocks')[0]][1].append(rn)      # implicit resid 1, merged resid > 1
        subs[mi][1].append('%s:%s %s' % (rn, fresh[0], tref))
    elif fault == 'self_edge':
        subs.insert(mi, ('from edges', ['%s %s' % (fref, fref)]))
    elif fault == 'bad_reference':
        mapped = {(f, t) for f, t, _ in s.triples}
        free = [(a, b) for a in s.addr['from'] for b in s.addr['to'] if (a[2], b[2]) not in mapped]
        if not free:
            return None
        a, b = rng.choice(free)
        subs.append(('reference atoms', ['%s:%s %s:%s' % (tu[b[0]].ident, b[1], fu[a[0]].ident, a[1])]))
    else:
        return None
    return fault


def exotic(rng, secs):
    """insert constructs whose outcome the generator does not predict (Choice values, null, bool/int
    equality, overriding attributes, odd integers, empty names, several force-field lines ...): the model
    must still agree with the code"""
    cands = [s for s in secs if not s.empty]
    if not cands:
        return False
    s = rng.choice(cands)
    subs = s.subs

    def idx(name):
        return [i for i, (n, _) in enumerate(subs) if n == name]
    d = rng.choice(['from', 'to'])
    o = 'to' if d == 'from' else 'from'
    uses, other = s.uses[d], s.uses[o]
    atoms = sorted({n['atomname'] for n in s.nodes[d]})
    oatoms = sorted({n['atomname'] for n in s.nodes[o]})
    at, oat = rng.choice(atoms), rng.choice(oatoms)
    oid = rng.choice(other).ident

    def mline(spec):
        a, b = (spec, '%s:%s' % (oid, oat)) if d == 'from' else ('%s:%s' % (oid, oat), spec)
        return '%s %s%s' % (a, b, rng.choice(['', ' +3', ' -0', ' 007', ' 2 extra columns', ' 1 {"a": 1}']))
    rn = rng.choice(uses).resname
    for _ in range(1 if rng.random() < 0.8 else 2):
        k = rng.randrange(12)
        s.exotic = getattr(s, 'exotic', []) + [k]
        bi, mi = idx(d + ' blocks')[0], idx('mapping')[-1]
        if k == 0:     # Choice as a template
            subs[bi][1].append('!ANY {"resname": "%s|XYZ"}' % rn)
            subs[mi][1].append(mline('ANY:' + at))
        elif k == 1:   # null resname: nothing is fetched, the template asks for "no resname"
            subs[bi][1].append('NUL {"resname": null, "resid": %d}' % rng.randint(1, 2))
            subs[mi][1].append(mline('NUL:' + at))
        elif k == 2:   # bool == int
            subs[bi][1].append('!FLG {"flag": %s}' % rng.choice(['1', 'true', '0', 'false']))
            subs[mi][1].append(mline('FLG:' + rng.choice(['O', at])))
        elif k == 3:   # attributes given on a node line override those of the identifier
            u = rng.choice(uses)
            extra = rng.choice(['{"atomname": "OTHER"}', '{"resid": 7}', '{"resname": "%s|Q"}' % rn,
                                '{"resid": true}', '{}'])
            subs.insert(mi, (d + ' nodes', ['%s:NEW %s' % (u.ident, extra)]))
            subs[mi + 1][1].append(mline('%s:%s' % (u.ident, rng.choice(['NEW', 'OTHER']))))
        elif k == 4:   # empty names
            subs[mi][1].append(mline(rng.choice(['%s:' % rng.choice(uses).ident, ':' + at, ':'])))
        elif k == 5:   # several force-field lines: the last one counts
            subs[idx(d)[0]][1].insert(0, rng.choice(['nosuchff', s.ff[o]]))
        elif k == 6:   # odd shorthand integers
            subs[bi][1].append(rng.choice(['%s#+9', '%s#09', '%s#x', '%s#1#2', '%s#', '!%s#9', '!!%s']) % rn)
        elif k == 7:   # three tokens: not the longhand form
            subs[bi][1].append('ID {"resname": "%s"} x' % rn)
        elif k == 8:   # identifier defined twice
            u = rng.choice(uses)
            subs[bi][1].append('!%s {"resname": "%s", "resid": %d}' % (u.ident.lstrip('!'), rn, rng.randint(1, 3)))
            subs[mi][1].append(mline('%s:%s' % (u.ident, at)))
        elif k == 9:   # nodes added to a direction whose blocks come later / a second blocks section
            subs.insert(mi, (d + ' blocks', [rng.choice(sorted(SPEC[s.ff[d]]['blocks' if s.kind == 'block' else 'mods']))]))
        elif k == 10:  # an edge given twice / reversed, an edge with attributes that are not a dictionary
            if len(s.addr[d]) >= 2:
                a, b = rng.sample(s.addr[d], 2)
                ra, rb = '%s:%s' % (uses[a[0]].ident, a[1]), '%s:%s' % (uses[b[0]].ident, b[1])
                subs.insert(mi, (d + ' edges', ['%s %s' % (ra, rb), '%s %s%s' % (rb, ra, rng.choice(['', ' {"x": 1}', ' x', ' {"x": 1} {"y": 2}']))]))
        else:          # reference atoms in odd shapes
            subs.append(('reference atoms', [rng.choice(['%s:%s' % (oid, oat), '%s %s:%s extra' % (at, oid, oat),
                                                         '%s:%s %s' % (oid, oat, at) if d == 'from' else '%s %s:%s' % (at, oid, oat)])]))
    return True


def render_faulty(rng, secs, macros):
    """render() that understands the two special sub-section names used by inject()"""
    out = render(rng, secs, macros)
    res = []
    for l in out:
        st = l.split(';')[0].strip()
        if st.startswith('[') and '\x00' in st:
            inner = st.strip('[ ]').replace('\x00', '')
            if inner:
                res.append(inner)        # "[ mapping" : unbalanced header
            continue                      # "\x00": no header at all, the content follows the kind header
        res.append(l)
    return res


# ----------------------------------------------------------------------------------------------
# oracle: what the file declares (from the AST) against what the real reader loaded
# ----------------------------------------------------------------------------------------------
def node_id(g, k):
    if k not in g.nodes:
        return ('no such node', k)
    a = g.nodes[k]
    return (a.get('resname'), a.get('resid'), a.get('atomname'))


def declared_interactions(kind, atoms):
    """what toy_ff_text writes for a block / modification with these atoms: (section, atom positions)"""
    n = len(atoms)
    if kind != 'block':
        return [('bonds', (0, 1))] if n >= 2 else []
    out = [('bonds', (j, j + 1)) for j in range(n - 1)]
    if n >= 3:
        out += [('angles', (0, 1, 2)), ('constraints', (0, 2))]
    return out


def oracle(secs, emitted, ffs=None):
    errs = []
    if len(emitted) != len(secs):
        return ['%d sections declared, %d mappings loaded' % (len(secs), len(emitted))]
    for si, (s, m) in enumerate(zip(secs, emitted)):
        tag = 'section %d: ' % si
        if m.type != s.kind:
            errs.append(tag + 'type %r, declared %r' % (m.type, s.kind))
        if (m.ff_from, m.ff_to) != (s.ff['from'], s.ff['to']):
            errs.append(tag + 'force fields %r, declared %r' % ((m.ff_from, m.ff_to), s.ff))
        if list(m.names) != s.names:
            errs.append(tag + 'names %r, declared %r' % (m.names, s.names))

        def nid(d, i):
            n = s.nodes[d][i]
            return (n['resname'], n['resid'], n['atomname'])
        want = {}
        for f, t, w in s.triples:
            want.setdefault(nid('from', f), {})[nid('to', t)] = w
        got = {}
        for i, d in m.mapping.items():
            for j, w in d.items():
                got.setdefault(node_id(m.block_from, i) if i in m.block_from else ('?', i), {})[node_id(m.block_to, j)] = w
        if got != want:
            errs.append(tag + 'mapping entries %r, declared %r' % (got, want))
        if sorted(map(repr, (node_id(m.block_from, k) for k in m.block_from.nodes))) != sorted(map(repr, want)):
            errs.append(tag + 'block_from does not consist of the mapped atoms')
        wrefs = {nid('to', t): nid('from', f) for t, f in s.refs.items()}
        grefs = {node_id(m.block_to, t): node_id(m.block_from, f) for t, f in m.references.items()}
        if wrefs != grefs:
            errs.append(tag + 'references %r, declared %r' % (grefs, wrefs))
        for d, g in (('to', m.block_to), ('from', m.block_from)):
            declared = {}        # unordered pair -> attributes written for it, later lines update earlier ones
            for a, b, eattr in s.edges[d]:
                declared.setdefault(frozenset((nid(d, a), nid(d, b))), {}).update(eattr)
            for pair, eattr in declared.items():
                if d == 'from' and not pair <= set(want):
                    continue
                found = [g.edges[x, y] for x, y in g.edges if frozenset((node_id(g, x), node_id(g, y))) == pair]
                if not found:
                    errs.append(tag + 'declared edge %r missing in block_%s' % (set(pair), d))
                elif any(found[0].get(k, '<absent>') != v for k, v in eattr.items()):
                    errs.append(tag + 'edge %r of block_%s has attributes %r, declared %r' % (set(pair), d, found[0], eattr))
        if ffs is None or s.empty:
            continue
        # the interactions and citations of the blocks the section names travel with them: block_to holds
        # exactly the interactions of its blocks (on the renumbered atoms), block_from those among mapped atoms
        for d, g in (('from', m.block_from), ('to', m.block_to)):
            coll = SPEC[s.ff[d]]['blocks' if s.kind == 'block' else 'mods']
            lib = ffs[s.ff[d]].blocks if s.kind == 'block' else ffs[s.ff[d]].modifications
            exp, start, cites = [], 0, set()
            for u in s.uses[d]:
                atoms = coll[u.resname]
                for sect, pos in declared_interactions(s.kind, atoms):
                    ids = tuple(nid(d, start + q) for q in pos)
                    if d == 'to' or all(x in want for x in ids):
                        exp.append((sect, ids))
                start += len(atoms)
                cites |= set(lib[u.resname].citations)
            have = [(t, tuple(node_id(g, a) for a in it.atoms)) for t, its in g.interactions.items() for it in its]
            if sorted(map(repr, have)) != sorted(map(repr, exp)):
                errs.append(tag + 'interactions of block_%s %r, declared by its blocks %r' % (d, sorted(have), sorted(exp)))
            if set(g.citations) != cites:
                errs.append(tag + 'citations of block_%s %r, those of its blocks %r' % (d, sorted(g.citations), sorted(cites)))
    return errs


# ----------------------------------------------------------------------------------------------
# the check
# ----------------------------------------------------------------------------------------------
def check_table(chk, ask):
    from vermouth.map_parser import MappingDirector
    rows = []
    for path, (meth, kw) in sorted(MappingDirector.METH_DICT.items()):
        other = sorted(k for k in kw if k not in ('direction', 'map_type'))
        rows.append([list(path), meth.__name__, kw.get('direction'), kw.get('map_type')] + other)
    ln = line('mapping', 'table')
    mo = ask([ln])[0]
    if mo is not None:      # compare as sets of rows: the order of a dict's keys is not behaviour
        mo = enc(sorted(dec(mo)[0], key=repr))
    chk.count('mapfile_table')
    chk.case('mapping-table', ln, enc(sorted(rows, key=repr)), mo, [], True)


# directed cases: (name, lines, expected number of mappings | 'error')
_B = ['[ block ]', '[ from ]', 'aa', '[ to ]', 'cg']
_FT = ['[ from blocks ]', 'ALA', '[ to blocks ]', 'ALA']
CORPUS = [
    ('empty-file', [], 0),
    ('comments-only', ['; nothing', '', '   ; x'], 0),
    ('header-only', ['[ block ]'], 1),
    ('two-headers', ['[ block ]', '[ modification ]'], 2),
    ('kind-then-unknown-header', ['[ block ]', '[ foo ]'], 1),
    ('kind-then-unknown-content', ['[ block ]', '[ foo ]', 'bar'], 'error'),
    ('unknown-then-kind', ['[ foo ]', '[ block ]', '[ from ]', 'aa'], 1),
    ('macros-in-the-middle', _B + _FT + ['[ macros ]', 'X CA', '[ mapping ]', '$X BB'], 'error'),
    ('macros-between', ['[ macros ]', 'X CA'] + _B + _FT + ['[ mapping ]', '$X BB', '[ macros ]', 'Y N', '[ block ]'] + _B[1:] + _FT +
     ['[ mapping ]', '$Y BB', '$X SC1 3'], 2),
    ('macro-redefined', ['[ macros ]', 'X CA', 'X N'] + _B + _FT + ['[ mapping ]', '$X BB'], 1),
    ('macro-bad-definition', ['[ macros ]', 'X'] + _B, 'error'),
    ('molecule-header-only', ['[ molecule ]'] + _B + _FT + ['[ mapping ]', 'CA BB'], 1),
    ('molecule-content', ['[ molecule ]', 'ALA'], 'error'),
    ('ff-with-spaces', ['[ block ]', '[ from ]', 'a a', '[ to ]', 'cg'], 1),
    ('ff-with-spaces-fetch', ['[ block ]', '[ from ]', 'a a', '[ from blocks ]', 'ALA'], 'error'),
    ('no-from-ff', ['[ block ]', '[ from blocks ]', 'ALA'], 'error'),
    ('no-fetch-needs-no-ff', ['[ block ]', '[ from blocks ]', '!ALA', '[ from nodes ]', 'CA', '[ to blocks ]', '!X', '[ to nodes ]',
                              'B', '[ mapping ]', 'CA B 4'], 1),
    ('separate-lines-restart-resid', _B + ['[ from blocks ]', 'ALA#1 ALA#2', 'GLY', '[ to blocks ]', 'ALA', '[ mapping ]', 'GLY:CA BB'], 'error'),
    ('one-line-counts-on', _B + ['[ from blocks ]', 'ALA#1 ALA#2 GLY', '[ to blocks ]', 'ALA', '[ mapping ]', 'GLY:CA BB'], 1),
    ('float-weight', _B + _FT + ['[ mapping ]', 'CA BB 0.5'], 'error'),
    ('weight-extra-columns', _B + _FT + ['[ mapping ]', 'CA BB 2 what ever'], 1),
    ('two-residue-block', _B + ['[ from blocks ]', 'D {"resname": "DIP"}', 'ALA#3', '[ to blocks ]', 'DIP ALA#3', '[ mapping ]',
                                'D:A2 DIP:BB1', 'ALA#3:CA ALA#3:BB', 'D:A1 DIP:BB1 0'], 1),
    ('empty-block-first', _B + ['[ from blocks ]', 'EMP', 'ALA', '[ to blocks ]', 'ALA', '[ mapping ]', 'ALA:CA BB'], 1),
    ('empty-block-later', _B + ['[ from blocks ]', 'ALA EMP GLY#2', '[ to blocks ]', 'ALA', '[ mapping ]', 'GLY#2:CA BB'], 1),
    ('nodes-then-empty-block', _B + ['[ from blocks ]', '!T', '[ from nodes ]', 'H', '[ from blocks ]', 'EMP'], 'error'),
    ('modification-type', ['[ modification ]', '[ from ]', 'aa', '[ to ]', 'cg', '[ from blocks ]', 'C-ter', '[ to blocks ]', 'C-ter',
                           '[ mapping ]', 'OXT BB', '[ block ]'] + _B[1:] + _FT + ['[ mapping ]', 'N BB'], 2),
    ('reference', _B + _FT + ['[ mapping ]', 'CA BB', 'N BB', '[ reference atoms ]', 'BB CA'], 1),
    ('reference-ambiguous-by-name-only', _B + ['[ from blocks ]', 'ALA GLY', '[ to blocks ]', 'ALA', '[ mapping ]', 'ALA:CA BB',
                                              'GLY:CA BB', '[ from blocks ]', '!Z {"atomname": "CA"}', '[ reference atoms ]', 'BB Z:CA'], 'error'),
    ('reference-not-mapped', _B + _FT + ['[ mapping ]', 'CA BB', '[ reference atoms ]', 'BB N'], 'error'),
    ('unbalanced', ['[ block'], 'error'),
    ('case-and-spaces', ['[BLOCK]', '[  From ]', 'aa', '[TO]', 'cg'] + _FT + ['[ MAPPING ]', 'CA BB'], 1),
    ('inner-spaces', ['[ block ]', '[ from  blocks ]', 'ALA'], 'error'),
    ('comment-in-line', _B + _FT + ['[ mapping ] ; sec', 'CA BB ; 7', 'N BB 2; 3'], 1),
]


def _nofetch_check(emitted):
    m = emitted[0]
    errs = []
    if list(m.names) != ['ALA']:
        errs.append('names %r, declared ALA' % (m.names,))
    got = [(a.get('resname'), a.get('atomname')) for _, a in m.block_from.nodes(data=True)]
    if got != [('ALA', 'CA')]:
        errs.append('block_from %r: "!X" must fetch no block, the two declared nodes are N and CA, only CA is mapped' % got)
    if {(i, j): w for i, d in m.mapping.items() for j, w in d.items()} != {(1, 0): 1}:
        errs.append('mapping %r, declared X:CA -> BB' % (m.mapping,))
    return errs


def _edge_attr_check(emitted):
    m = emitted[0]
    e = [(sorted((m.block_to.nodes[x]['atomname'], m.block_to.nodes[y]['atomname'])), dict(d))
         for x, y, d in m.block_to.edges(data=True) if {m.block_to.nodes[x]['atomname'], m.block_to.nodes[y]['atomname']} == {'BB', 'SC1'}]
    want = {'order': 2, 'kind': 'y', 'extra': [1]}
    if len(e) != 1 or any(e[0][1].get(k) != v for k, v in want.items()):
        return ['edge BB-SC1 of block_to %r, declared with attributes %r (second line updates the first)' % (e, want)]
    return []


def _macro_redefined_check(emitted):
    found = [sorted(m.block_to.nodes[j]['atomname'] for d in m.mapping.values() for j in d) for m in emitted]
    if found != [['A'], ['B']]:
        return ['targets of the two mappings %r; declared [[A], [B]]: `a $target` is written after `target A` in the '
                'first section and after the redefinition `target B` in the second' % found]
    return []


_MACRO_BODY = ['[ block ]', '[ from blocks ]', '!X', '[ to blocks ]', '!Y', '[ from nodes ]', 'a', '[ to nodes ]', 'A', 'B',
               '[ mapping ]', 'a $target']

# directed cases with a check of the content: (name, lines, check(emitted) -> errors)
DIRECTED = [
    ('macro-redefined-identical-lines', ['[ macros ]', 'target A'] + _MACRO_BODY + ['[ macros ]', 'target B'] + _MACRO_BODY,
     _macro_redefined_check),
    ('nofetch-marker', _B + ['[ from blocks ]', '!X {"resname": "ALA"}', '[ from nodes ]', 'X:N', 'X:CA', '[ to blocks ]', 'ALA',
                             '[ mapping ]', 'X:CA BB'], _nofetch_check),
    ('edge-attributes', _B + _FT + ['[ to edges ]', 'BB SC1 {"order": 2, "kind": "x"}', 'SC1 BB {"kind": "y", "extra": [1]}',
                                    '[ mapping ]', 'CA BB'], _edge_attr_check),
]


def run_corpus(chk, ask):
    from vermouth.ffinput import read_ff
    ffs = toy_ffs()
    read_ff(['[ moleculetype ]', 'EMP 3'], ffs['aa'])        # a block without atoms
    lib = library(ffs)
    reqs = [line('mapping', 'read', lib, ls) for _, ls, _ in CORPUS]
    for (name, ls, want), ln, mo in zip(CORPUS, reqs, ask(reqs)):
        im, emitted, _keys, exc = run_real(chk, ls, ffs)
        got = 'error' if emitted is None else len(emitted)
        errs = [] if got == want else ['corpus case %s: expected %r, the reader gives %r (%s)' % (name, want, got, exc)]
        chk.count('mapfile_corpus')
        chk.case('mapping-corpus-' + name, {'lines': ls, 'req': 'mapping read <toy library + EMP> <lines>'}, im, mo, errs, True)
    reqs = [line('mapping', 'read', lib, ls) for _, ls, _ in DIRECTED]
    for (name, ls, check), ln, mo in zip(DIRECTED, reqs, ask(reqs)):
        im, emitted, _keys, exc = run_real(chk, ls, ffs)
        nwant = count_kind_headers(ls)
        if emitted is None or len(emitted) != nwant:
            errs = ['directed case %s: %d mappings declared, the reader gives %r (%s)' % (name, nwant, emitted and len(emitted), exc)]
        else:
            errs = check(emitted)
        chk.count('mapfile_directed')
        chk.case('mapping-directed-' + name, {'lines': ls, 'req': 'mapping read <toy library + EMP> <lines>'}, im, mo, errs, True)


def count_kind_headers(lines):
    n = 0
    for t in lines:
        t = t.split(';')[0].strip()
        if t.startswith('[') and t.strip('[ ]').casefold() in ('block', 'modification'):
            n += 1
    return n


def run_generated(chk, ask, ffs):
    rng = chk.rng('mapping')
    n = 3000 if chk.thorough else 300
    lib = library(ffs)
    cases = []
    for i in range(n):
        macros = rng.choice(['F', 'F-', 'F.', 'F:', 'F/', 'F+', 'F@', '9', 'F=', 'F,', 'F|', 'F-2.']) if rng.random() < 0.3 else ''
        secs = [gen_section(rng, macros) for _ in range(rng.randint(1, 4))]
        k = rng.random()
        mode, fault = 'valid', None
        if k < 0.30:
            mode = 'fault'
            fault = inject(rng, secs, rng.choice(FAULTS))
            if fault is None:
                fault = inject(rng, secs, 'unbalanced_header')
            if fault is None:
                mode = 'valid'
        if mode == 'valid' and 0.72 < k <= 0.85 and exotic(rng, secs):
            mode = 'exotic'      # no expectation either
        lines = render_faulty(rng, secs, macros)
        if mode == 'valid' and k > 0.85:
            mode = 'mutant'      # no expectation: the model must still agree with the code
            for _ in range(rng.randint(1, 2)):
                if not lines:
                    break
                j = rng.randrange(len(lines))
                what = rng.random()
                if what < 0.4:
                    del lines[j]
                elif what < 0.7:
                    lines.insert(j, lines[rng.randrange(len(lines))])
                else:
                    o = rng.randrange(len(lines))
                    lines[j], lines[o] = lines[o], lines[j]
        cases.append((mode, fault, secs, lines))
    reqs = [line('mapping', 'read', lib, c[3]) for c in cases]
    models = ask(reqs)
    for i, ((mode, fault, secs, lines), ln, mo) in enumerate(zip(cases, reqs, models)):
        im, emitted, keys, exc = run_real(chk, lines, ffs)
        errs = []
        if mode == 'valid':
            if emitted is None:
                errs.append('valid file rejected (%s)' % exc)
            else:
                try:
                    errs += oracle(secs, emitted, ffs)
                except Exception as e:     # the loaded objects are not even well formed
                    errs.append('the oracle could not inspect the loaded mappings: %r' % (e,))
                # read_mapping_file: one entry per (ff_from, ff_to, names), holding the LAST such section
                want = {}
                for si, s in enumerate(secs):
                    want[(s.ff['from'], s.ff['to'], tuple(s.names))] = si
                got = {(f, t, tuple(n)): i for f, t, n, i in keys}
                if got != want:
                    errs.append('read_mapping_file holds %r, declared %r' % (got, want))
                if len(want) < len(secs):
                    chk.count('mapfile_key_collision')
        elif mode == 'fault':
            if emitted is not None:
                errs.append('fault %s: the reader did not raise' % fault)
        if emitted is not None and len(emitted) != count_kind_headers(lines):
            # whatever else the file contains: one mapping per [ block ] / [ modification ] header
            errs.append('%d block/modification headers, %d mappings loaded' % (count_kind_headers(lines), len(emitted)))
        chk.count('mapfile_' + mode)
        if fault:
            chk.count('mapfile_fault_' + fault)
        if mode == 'exotic':
            for s in secs:
                for k in getattr(s, 'exotic', []):
                    chk.count('mapfile_exotic_kind%d_%s' % (k, 'error' if emitted is None else 'ok'))
        if mode in ('mutant', 'exotic'):
            chk.count('mapfile_%s_%s' % (mode, 'error' if emitted is None else 'ok'))
        if emitted is not None:
            chk.count('mapfile_sections_%d' % len(emitted))
            chk.count('mapfile_entries', sum(len(d) for m in emitted for d in m.mapping.values()))
            for m in emitted:
                chk.count('mapfile_type_' + m.type)
        chk.case('mapping-%d' % i, {'lines': lines, 'req': 'mapping read <toy library> <lines>'}, im, mo, errs,
                 mode == 'fault' or (emitted is not None and len(emitted) >= 2))


def run_shipped(chk, ask):
    import vermouth.forcefield as vff
    data = os.path.join(REPO, 'vermouth', 'data')
    known = vff.find_force_fields(os.path.join(data, 'force_fields'))
    paths = sorted(glob.glob(os.path.join(data, 'mappings', '**', '*.mapping'), recursive=True))
    reqs, meta = [], []
    for path in paths:
        ls = open(path).read().split('\n')
        text = '\n'.join(ls)
        # blocks whose name does not occur in the text cannot be looked up by it
        lib = library(known, keep=lambda name: name in text)
        reqs.append(line('mapping', 'read', lib, ls))
        meta.append((path, ls))
    for (path, ls), mo in zip(meta, ask(reqs)):
        rel = os.path.relpath(path, data)
        im, emitted, _keys, exc = run_real(chk, ls, known)
        errs = []
        if emitted is None:
            errs.append('shipped mapping file %s rejected (%s)' % (rel, exc))
        else:
            ndecl = count_kind_headers(ls)
            if len(emitted) != ndecl:
                errs.append('%s: %d sections declared, %d mappings loaded' % (rel, ndecl, len(emitted)))
            chk.count('mapfile_shipped_mappings', len(emitted))
            # read_mapping_file keeps one mapping per (ff_from, ff_to, names): a second declaration of a key
            # replaces the first one; identical copies are counted, different ones are a lost declaration
            seen = {}
            for m in emitted:
                key, dump = (m.ff_from, m.ff_to, m.names), enc(dump_mapping(chk, m))
                if key in seen:
                    chk.count('mapfile_shipped_redeclared_' + ('identical' if seen[key] == dump else 'DIFFERENT'))
                    if seen[key] != dump:
                        errs.append('%s: %r is declared twice with different content; read_mapping_file keeps the '
                                    'last one only' % (rel, key))
                seen[key] = dump
        chk.count('mapfile_shipped_files')
        chk.case('mapping-shipped-' + rel, 'mapping read <shipped library> ' + rel, im, mo, errs, True)


def run_mapping(chk, ask):
    t0 = time.time()
    quiet_vermouth_logs()
    check_table(chk, ask)
    ffs = toy_ffs()
    for name, ff in ffs.items():
        for k, b in list(ff.blocks.items()) + list(ff.modifications.items()):
            assert k == b.name and b.force_field is ff
    run_corpus(chk, ask)
    run_generated(chk, ask, ffs)
    if chk.thorough:
        run_shipped(chk, ask)
    chk.extra['mapping_wall_s'] = round(time.time() - t0, 2)
