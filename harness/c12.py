#!/venv/bin/python
"""C12 - editing a molecule keeps atoms, bonds and interactions consistent.
Model: lean/VermouthModel/C12.lean (pool state machine); theorems: lean/VermouthProps/C12*.lean.
Correspondence: random op sequences on a pool of real Molecule objects, the observable state of EVERY
pool member (atoms, bonds with their attribute dicts, interactions with version / edge meta, citations,
nrexcl, force field, log entries) is compared with the model after every op (so aliasing between a
copy/subgraph and its source shows up), the cached max_node is never compared."""
from common import *

chk = Check('C12')
chk.extra['rule'] = ('op sequences over a pool of real Molecule objects with arbitrary integer keys (sparse, negative, '
                     're-added) - in 45% of the histories a share of the keys of a share of the molecules is handed to the real code as a '
                     'NON-integer hashable object through an injective per-history translation ((chain, atomname) tuples, tuples / frozensets '
                     'whose elements are keys of other atoms of the same molecule, strings, mixed; the model keeps Int; a merge is only '
                     'generated for a receiver with integer keys because merge_molecule takes max() of them and adds 1) - and up to 3 real System objects that REFER to pool members (add_molecule incl. force-field '
                     'propagation / mismatch, System.copy, MergeAllMolecules incl. a system that lists its first molecule again, '
                     'MergeChains); molecule ops: add_node(s_from) with (key, dict) pairs / bare keys / common kwargs / repeated keys, '
                     'remove_node(s_from), add_edge(s_from) with attribute dicts, remove_edge(s_from), make_edges_from_interaction(s|_type), '
                     'clear, add / add_or_replace / remove / remove_matching interaction (templates with Choice / NotDefinedOrNot / '
                     'None values and version 0), prune_edges_*, log entries, copy, subgraph (repeated / absent keys), merge_molecule '
                     '(other and self), Block built with add_atom / add_node / add_edge / add_interaction / make_edges + to_molecule; '
                     'after every op the whole pool and the molecule lists + force fields of all systems are dumped and compared with '
                     'the model; a sequence is non-trivial if it contains >= 1 removal or merge and >= 1 interaction; distinct = distinct '
                     'op sequence; add_edges_at_distance is checked by the oracle only (cases edge-dist-*)')
chk.lean(['VermouthProps.C12', 'VermouthProps.C12_Ext'], 'driver_c12')

import networkx as nx
import numpy as np
from vermouth.molecule import Molecule, Block, Interaction, DeleteInteraction, Choice, NotDefinedOrNot
from vermouth.system import System
from vermouth.forcefield import ForceField
from vermouth.processors.merge_all_molecules import MergeAllMolecules
from vermouth.processors.merge_chains import MergeChains
from vermouth import edge_tuning

TYPES = ['bonds', 'angles', 'constraints']
CITES = ['paperA', 'paperB', 'paperC']
# positions in a molecule dump
N_, E_, I_, C_, X_, F_, L_ = range(7)

# F-C12-4 (clear kept the interactions) and F-C12-5 (self-merge failed half-way) are repaired in /repo (f707daa, 941d2d8):
# their inputs are ordinary cases with the full oracle now.  F-C12-6 is an OBSERVATION outside the text of C12 (log entries
# are not maintained by remove_node; a later merge of such a molecule raises KeyError half-way): its cases are counted and
# noted, not enforced.
F_LOG = 'F-C12-6'
KNOWN_IDS = {k['id'] for k in chk.known if k.get('status') == 'known'}


def ff_obj(name):
    """a force field is compared by name (ForceField.__eq__): a fresh object per use"""
    return None if name is None else ForceField(name=name)


def ff_name(ff):
    return None if ff is None else ff.name


def is_int(x):
    return isinstance(x, (int, np.integer)) and not isinstance(x, bool)


NAMES4 = ['N', 'CA', 'C', 'O']
KEY_KINDS = ['chain', 'keys', 'str', 'fset', 'mixed']


class KeyMap:
    """The property quantifies over molecules with ARBITRARY node keys; the model's keys are Int.  One KeyMap per history
    is the injective translation at the boundary: model key k <-> real key.  W (wrap) sends an Int to a NON-integer
    hashable object - a (chain, atomname) tuple, a tuple / frozenset whose ELEMENTS are themselves possible keys of the
    same molecule ((k+1, k+2) next to atoms k+1 and k+2), a string, or a mix - and is injective; real integer keys always
    stand for themselves (merge_molecule and Block.to_molecule create integer keys).  Forward translation for molecule
    number i: the key the real molecule HAS for k (k itself or W(k); never both), and for an absent k: W(k) if the style
    wraps (i, k), else k.  The inverse is static (W^-1 on the objects handed out, identity on ints), so dumps, log entries
    and correspondence dicts are read back without knowing the molecule."""

    def __init__(self, style=None):
        self.style = list(style) if style else None          # None = integer keys only | [kind, key modulus, molecule rule]
        self.back = {}
        self.used = set()

    def wrap(self, k):
        kind, mod, _ = self.style
        if kind == 'mixed':
            kind = ['int', 'chain', 'str', 'keys', 'fset'][k % 5]
        elif k % mod:
            kind = 'int'
        if kind == 'int':
            return k
        if kind == 'chain':
            w = (k // 4, NAMES4[k % 4])
        elif kind == 'keys':
            w = (k + 1, k + 2)
        elif kind == 'str':
            w = 'n%d' % k
        else:
            w = frozenset((k, k + 1))
        self.back[w] = k
        return w

    def wraps_mol(self, i):
        rule = self.style[2]
        return rule == 'all' or (rule == 'odd' and i % 2 == 1) or (rule == 'even' and i % 2 == 0) or (rule == 'later' and i >= 1)

    def fwd(self, m, i, k):
        if self.style is None or type(k) is not int:
            return k
        r = self._fwd(m, i, k)
        self.used.add(type(r).__name__)
        return r

    def _fwd(self, m, i, k):
        if k in m._node:
            return k
        w = self.wrap(k)
        if w is k or w in m._node:
            return w
        return w if self.wraps_mol(i) else k

    def inv(self, x):
        if is_int(x):
            return x
        try:
            return self.back[x]
        except (KeyError, TypeError):
            return 'unknown-key:%r' % (x,)           # a key the harness never handed out: shows up in the comparison

    def inv_name(self, x):
        """key of a log format map: an attribute name, or (appended correspondence dict) a node key of a former newcomer"""
        try:
            return str(self.back.get(x, x))
        except TypeError:
            return str(x)


IDENT = KeyMap()


def sk(x):
    return (0, x) if is_int(x) else (1, repr(x))


def lohi(u, v):
    return (u, v) if sk(u) <= sk(v) else (v, u)


def all_int_keys(m):
    return all(is_int(k) for k in m.nodes)


def dump_logs(m, km=IDENT):
    rows = []
    for lvl, entries in m.log_entries.items():
        for entry, fmt_args in entries.items():
            rows.append([lvl, entry, [sorted([km.inv_name(k), km.inv(v)] for k, v in fa.items()) for fa in fmt_args]])
    rows.sort(key=lambda r: (r[0], r[1]))
    return rows


def dump_mol(m, km=IDENT):
    inv = km.inv
    nodes = [[inv(k), d.get('atomname'), d.get('resid'), d.get('charge_group'), d.get('chain')] for k, d in m.nodes(data=True)]
    edges = sorted({lohi(inv(u), inv(v)): list(lohi(inv(u), inv(v))) + [d.get('order'), d.get('kind')]
                    for u, v, d in m.edges(data=True)}.values(), key=lambda e: (sk(e[0]), sk(e[1])))
    inters = []
    for t in sorted(m.interactions):
        for i in m.interactions[t]:
            inters.append([t, [inv(a) for a in i.atoms], i.parameters[0], i.meta.get('version'), bool(i.meta.get('edge', True))])
    return [nodes, edges, inters, sorted(m.citations), m.nrexcl, ff_name(m._force_field), dump_logs(m, km)]


def dump_systems(pool, systems):
    ids = {id(m): k for k, m in enumerate(pool)}
    return [[ids[id(m)] for m in s.molecules] for s in systems]


def dump_pool(pool, systems=(), km=IDENT):
    return (enc([dump_mol(m, km) for m in pool]) + ' ' + enc(dump_systems(pool, systems)) + ' ' +
            enc([ff_name(s.force_field) for s in systems]))


def adopt(pool, systems):
    """molecules created by a system operation (copies, the merged molecule) join the pool"""
    ids = {id(m) for m in pool}
    for s in systems:
        for m in s.molecules:
            if id(m) not in ids:
                ids.add(id(m))
                pool.append(m)


def attrs_kw(name, resid, cg, chain=None):
    kw = {}
    if chain is not None:
        kw['chain'] = chain
    if name is not None:
        kw['atomname'] = name
    if resid is not None:
        kw['resid'] = resid
    if cg is not None:
        kw['charge_group'] = cg
    return kw


def eattrs_kw(order, kind):
    kw = {}
    if order is not None:
        kw['order'] = order
    if kind is not None:
        kw['kind'] = kind
    return kw


def meta_kw(version, edge=True):
    meta = {}
    if version is not None:
        meta['version'] = version
    if not edge:
        meta['edge'] = False
    return meta


def mk_pred(x):
    """template value: plain | ['e'] explicit None | ['c', v...] Choice | ['n', v] NotDefinedOrNot"""
    if isinstance(x, (list, tuple)):
        if x[0] == 'c':
            return Choice(list(x[1:]))
        if x[0] == 'n':
            return NotDefinedOrNot(x[1])
        if x[0] == 'e':
            return None
        raise AssertionError(x)
    return x


def tattrs_kw(name, resid, cg, chain):
    kw = {}
    for key, val in (('atomname', name), ('resid', resid), ('charge_group', cg), ('chain', chain)):
        if val is not None:
            kw[key] = mk_pred(val)
    return kw


def apply_sys(pool, systems, op):
    kind = op[0]
    if kind == 'newsys':
        systems.append(System(force_field=ff_obj(op[1] if len(op) > 1 else None)))
        return 'ok'
    s = op[1]
    if s >= len(systems):
        return 'badindex'
    system = systems[s]
    if kind == 'addmol':
        if op[2] >= len(pool):
            return 'badindex'
        try:
            system.add_molecule(pool[op[2]])
        except KeyError:
            return 'keyerror'
    elif kind == 'copysys':
        systems.append(system.copy())
    elif kind == 'mergeall':
        try:
            MergeAllMolecules().run_system(system)
        except ValueError:
            return 'valueerror'
        except KeyError:
            return 'keyerror'
    elif kind == 'mergechains':
        try:
            MergeChains(chains=list(op[2]), all_chains=bool(op[3])).run_system(system)
        except ValueError:
            return 'valueerror'
        except KeyError:
            return 'keyerror'
    else:
        raise AssertionError(kind)
    adopt(pool, systems)
    return 'ok'


SYS_OPS = ('newsys', 'addmol', 'copysys', 'mergeall', 'mergechains')
SYS_RATE = 0.12


def apply(pool, op, systems=None, km=IDENT):
    """Apply one op to the real pool; return outcome string.  An exception the API does not document
    for the operation (the model never produces it) is an outcome of its own, never a harness crash."""
    try:
        return _apply(pool, op, systems, km)
    except Exception as e:  # noqa
        return 'crash:%s' % type(e).__name__


def build_block(cites, nrexcl, ff, steps):
    b = Block(nrexcl=nrexcl, force_field=ff_obj(ff))
    b.name = 'BLK'
    b.citations = set(cites)
    for st in steps:
        kind = st[0]
        if kind == 'atom':
            b.add_atom(attrs_kw(*st[1:]))
        elif kind == 'node':
            b.add_node(st[1], **attrs_kw(*st[2:]))
        elif kind == 'edge':
            b.add_edge(st[1], st[2], **eattrs_kw(st[3], st[4]))
        elif kind == 'inter':
            b.add_interaction(st[1], tuple(st[2]), [st[3]], meta=meta_kw(st[4], st[5]))
        elif kind == 'raw':
            b.interactions[st[1]].append(Interaction(atoms=tuple(st[2]), parameters=[st[3]], meta=meta_kw(st[4], st[5])))
        elif kind == 'mkedges':
            b.make_edges_from_interaction_type(st[1])
        elif kind == 'log':
            b.log_entries[st[1]][st[2]] = []            # as ffinput._parse_log_entry
        else:
            raise AssertionError(kind)
    return b


def _apply(pool, op, systems=None, km=IDENT):
    kind = op[0]
    if kind in SYS_OPS:
        return apply_sys(pool, systems, op)
    try:
        if kind == 'new':
            m = Molecule(nrexcl=op[1], force_field=ff_obj(op[2] if len(op) > 2 else None))
            m.citations = set()
            pool.append(m)
        elif kind == 'fromblock':
            nodes, edges, inters, cites, nrexcl, ao, ro, co = op[1:9]
            ff, logs = (op[9], op[10]) if len(op) > 9 else (None, [])
            b = Block(nrexcl=nrexcl, force_field=ff_obj(ff))
            b.name = 'BLK'
            b.citations = set(cites)
            for n, *at in nodes:
                b.add_node(n, **attrs_kw(*at))
            for ty, ats, pr, v, *e in inters:
                b.interactions[ty].append(Interaction(atoms=tuple(ats), parameters=[pr], meta=meta_kw(v, e[0] if e else True)))
            for u, v, *ea in edges:
                nx.Graph.add_edge(b, u, v, **(eattrs_kw(*ea) if ea else {}))
            for lvl, entry in logs:
                b.log_entries[lvl][entry] = []
            try:
                mol = b.to_molecule(atom_offset=ao, offset_resid=ro, offset_charge_group=co, default_attributes={})
            except KeyError:
                return 'keyerror'
            pool.append(mol)
        elif kind == 'buildblock':
            _, cites, nrexcl, ff, steps, ao, ro, co = op
            b = build_block(cites, nrexcl, ff, steps)
            mol = b.to_molecule(atom_offset=ao, offset_resid=ro, offset_charge_group=co, default_attributes={})
            pool.append(mol)
        else:
            i = op[1]
            if i >= len(pool):
                return 'badindex'
            m = pool[i]
            K = lambda k: km.fwd(m, i, k)            # model key -> real key of this molecule
            if kind == 'addnode':
                m.add_node(K(op[2]), **attrs_kw(*op[3:]))
            elif kind == 'addnodes':
                m.add_nodes_from([(K(k), attrs_kw(*at)) for k, *at in op[2]])
            elif kind == 'addnodesc':
                m.add_nodes_from([K(e[0]) if len(e) == 1 else (K(e[0]), attrs_kw(*e[1:])) for e in op[2]], **attrs_kw(*op[3]))
            elif kind == 'rmnode':
                try:
                    m.remove_node(K(op[2]))
                except nx.NetworkXError:
                    return 'nxerror'
            elif kind == 'rmnodes':
                # a one-shot iterator half of the time (see F-C12-2)
                ks = [K(k) for k in op[2]]
                m.remove_nodes_from(iter(ks) if op[3] else list(ks))
            elif kind == 'addedge':
                m.add_edge(K(op[2]), K(op[3]))
            elif kind == 'addedgea':
                m.add_edge(K(op[2]), K(op[3]), **eattrs_kw(op[4], op[5]))
            elif kind == 'addedges':
                m.add_edges_from([(K(u), K(v)) if (o is None and k is None and (u + v) % 2) else (K(u), K(v), eattrs_kw(o, k))
                                  for u, v, o, k in op[2]])
            elif kind == 'rmedge':
                try:
                    m.remove_edge(K(op[2]), K(op[3]))
                except nx.NetworkXError:
                    return 'nxerror'
            elif kind == 'rmedges':
                m.remove_edges_from([tuple(K(x) for x in e) for e in op[2]])
            elif kind == 'mkedges':
                m.make_edges_from_interaction_type(op[2])
            elif kind == 'mkedgesall':
                m.make_edges_from_interactions()
            elif kind == 'clear':
                m.clear()
            elif kind == 'addinter':
                m.add_interaction(op[2], tuple(K(k) for k in op[3]), [op[4]], meta=meta_kw(op[5], op[6] if len(op) > 6 else True))
            elif kind == 'addorrep':
                m.add_or_replace_interaction(op[2], tuple(K(k) for k in op[3]), [op[4]], meta=meta_kw(op[5], op[7] if len(op) > 7 else True),
                                             citations=set(op[6]))
            elif kind == 'rminter':
                m.remove_interaction(op[2], tuple(K(k) for k in op[3]), version=op[4])
            elif kind == 'rmmatch':
                _, _, ty, ats, pr, v, aa = op
                ats = [K(k) for k in ats]
                meta = {'version': mk_pred(v)} if v is not None else {}
                params = [pr] if pr is not None else []
                if aa is None:
                    tmpl = Interaction(atoms=tuple(ats), parameters=params, meta=meta)
                else:
                    tmpl = DeleteInteraction(atoms=tuple(ats), atom_attrs=[tattrs_kw(*a) for a in aa],
                                             parameters=params, meta=meta)
                m.remove_matching_interaction(ty, tmpl)
            elif kind == 'prune':
                edge_tuning.prune_edges_between_selections(m, [K(k) for k in op[2]], [K(k) for k in op[3]])
            elif kind == 'prunesel':
                sel_a = (lambda d, n=op[2]: d.get('atomname') == n)
                sel_b = None if op[3] is None else (lambda d, n=op[3][0]: d.get('atomname') == n)
                edge_tuning.prune_edges_with_selectors(m, sel_a, sel_b)
            elif kind == 'addlog':
                # the way do_links / do_mapping record entries
                m.log_entries[op[2]][op[3]] += [dict((n, K(k)) for n, k in fa) for fa in op[4]]
            elif kind == 'copy':
                pool.append(m.copy())
            elif kind == 'subgraph':
                pool.append(m.subgraph([K(k) for k in op[2]]))
            elif kind == 'merge':
                j = op[2]
                if j >= len(pool):
                    return 'badindex'
                m.merge_molecule(pool[j])
            else:
                raise AssertionError(kind)
    except KeyError:
        return 'keyerror'
    except ValueError:
        return 'valueerror'
    return 'ok'


def op_line(op):
    kind = op[0]
    if kind == 'rmnodes':
        return line('rmnodes', op[1], op[2])
    if kind == 'fromblock':
        nodes, edges, inters, cites, nrexcl, ao, ro, co = op[1:9]
        rest = list(op[9:])
        return line('fromblock', [list(n) for n in nodes], [list(e) for e in edges],
                    [list(it) for it in inters], cites, nrexcl, ao, ro, co, *rest)
    return line(*op)


# ---- generators -------------------------------------------------------------------------------------------------

GEN_KM = IDENT          # the key translation of the history being generated


class MView:
    """what the generators look at: a real molecule read back in MODEL keys"""

    def __init__(self, m, km):
        inv = km.inv
        self.nodes = {inv(k): d for k, d in m.nodes(data=True)}
        self.edges = [(inv(u), inv(v)) for u, v in m.edges]
        self.interactions = {t: [Interaction(atoms=tuple(inv(a) for a in x.atoms), parameters=x.parameters, meta=x.meta) for x in its]
                             for t, its in m.interactions.items()}

    def __len__(self):
        return len(self.nodes)


def gen_key_style(rng):
    """55% of the histories keep integer keys everywhere (every merge is possible); the others wrap a share of the keys
    of a share of the molecules into non-integer hashable objects"""
    if rng.random() < 0.55:
        return None
    kind = rng.choice(KEY_KINDS + ['chain', 'keys', 'mixed'])
    return [kind, 1 if kind == 'mixed' else rng.choice([1, 1, 2, 3]), rng.choice(['all', 'all', 'all', 'odd', 'even', 'later'])]


def needs_orderable_keys(op, pool, systems):
    """TRANSCRIBED ordering assumptions of the real code on node keys.  Only merge_molecule orders keys: a non-empty
    RECEIVER without cached highest key evaluates max(self) (TypeError for keys that are not mutually comparable) and then
    numbers the newcomer's atoms from `max + 1` (TypeError unless the highest key is a number); MergeAllMolecules merges
    into the system's first molecule.  The NEWCOMER's keys are only iterated and used as dict keys, MergeChains merges
    into a fresh empty molecule, Block.to_molecule numbers from atom_offset; no other editing operation (add / remove
    node(s) / edge(s) / interaction(s), make_edges, prune_edges, copy, subgraph, find_atoms, edges_between) compares keys.
    Returns the molecule whose keys must be integers for `op`, or None."""
    kind = op[0]
    if kind == 'merge' and op[1] < len(pool) and op[2] < len(pool):
        return pool[op[1]]
    if kind == 'mergeall' and op[1] < len(systems) and len(systems[op[1]].molecules) > 1:
        return systems[op[1]].molecules[0]
    return None


def gen_key(rng, m):
    ks = list(m.nodes) if m is not None else []
    r = rng.random()
    if ks and r < 0.55:
        return rng.choice(ks)
    if ks and r < 0.75:
        return max(ks) + rng.choice([1, 1, 2, 7])
    return rng.choice([-3, -1, 0, 1, 2, 3, 5, 8, 13, 40, 100])


def gen_attrs(rng):
    # 0 and negative residue numbers / charge groups are legal and falsy values must not be taken for "absent"
    return [rng.choice([None, 'A', 'B', 'CA', 'N', '']), rng.choice([None, 1, 2, 5, 9, 0, -1]), rng.choice([None, 1, 2, 3, 7, 0, -2]),
            rng.choice([None, None, 'A', 'A', 'B', ''])]


def gen_eattrs(rng):
    return [rng.choice([None, None, 1, 2, 0]), rng.choice([None, None, 'single', 'arom', ''])]


def gen_ff(rng):
    return MAIN_FF if rng.random() < 0.85 else rng.choice([None, 'ffA', 'ffB'])


MAIN_FF = None
ATTR_KEYS = ['atomname', 'resid', 'charge_group', 'chain']


def gen_pred(rng, pos, have):
    """a template value for attribute number `pos`; `have` = the node's value (None = absent)"""
    pool_vals = gen_attrs(rng)
    other = pool_vals[pos]
    r = rng.random()
    if r < 0.55:
        return have if have is not None else other          # plain value (None = key left out)
    if r < 0.62:
        return ['e']                                        # explicit None: matches only an absent attribute
    if r < 0.82:
        vals = [v for v in (have, other, gen_attrs(rng)[pos]) if rng.random() < 0.6]
        if rng.random() < 0.15:
            vals.append(None)
        return ['c'] + vals
    return ['n', rng.choice([have, other, None])]


def gen_template_attrs(rng, m, atoms):
    """per-atom attribute templates of a DeleteInteraction: mostly what the atoms have, sometimes something else,
    a third of the given values as LinkPredicate (Choice / NotDefinedOrNot) or explicit None"""
    out = []
    for a in atoms:
        d = m.nodes[a] if (m is not None and a in m.nodes) else {}
        t = [None, None, None, None]
        for pos, key in enumerate(ATTR_KEYS):
            r = rng.random()
            if r < 0.22 and d.get(key) is not None:
                t[pos] = d[key]
            elif r < 0.25:
                t[pos] = gen_attrs(rng)[pos]
            elif r < 0.40:
                t[pos] = gen_pred(rng, pos, d.get(key))
        out.append(t)
    if atoms and rng.random() < 0.15:
        out.pop()            # zip() stops at the shorter list
    return out


def gen_version_template(rng, v):
    """version key of a meta template: absent, the interaction's own (0 included), another, or a predicate"""
    r = rng.random()
    if r < 0.40:
        return None
    if r < 0.60:
        return v if v is not None else 0        # version 0 asked of an interaction WITHOUT version key: no match
    if r < 0.70:
        return rng.choice([0, 1, 2])
    if r < 0.78:
        return ['e']
    if r < 0.90:
        return ['c'] + rng.sample([0, 1, 2, None], rng.randint(1, 3))
    return ['n', rng.choice([v, 0, 1, None])]


def gen_sys_op(rng, pool, systems):
    ns, n = len(systems), len(pool)
    if ns == 0 or (ns < 3 and rng.random() < 0.07):
        return ('newsys', gen_ff(rng) if rng.random() < 0.5 else None)
    s = rng.randrange(ns) if rng.random() < 0.95 else ns + 1
    r = rng.random()
    if s < ns and len(systems[s].molecules) < rng.choice([1, 2, 3, 4]) and rng.random() < 0.8:
        r = 0.0              # fill the system first
    if r < 0.30:
        # mostly molecules that are not yet in the system; one in ten is listed a second time (MergeAllMolecules then
        # merges the first molecule with a snapshot of itself, MergeChains merges a molecule twice)
        cand = [k for k in range(n) if s >= ns or all(pool[k] is not m for m in systems[s].molecules)]
        if cand and rng.random() < 0.9:
            return ('addmol', s, rng.choice(cand))
        return ('addmol', s, rng.randrange(n + 1))
    if r < 0.42 and n < 9:
        return ('copysys', s)
    if s < ns:
        # keep molecules small: a member listed k times doubles the first molecule k times
        mols, size = systems[s].molecules, 0
        for k, x in enumerate(mols):
            size += size if (k and x is mols[0]) else len(x)
        if size > 80 and mols:
            big = max(range(n), key=lambda k: len(pool[k]))
            return ('rmnodes', big, [GEN_KM.inv(k) for k in pool[big].nodes][::2], rng.random() < 0.5)
    if r < 0.68 or n >= 12:          # every successful MergeChains adds a molecule: keep the pool small
        return ('mergeall', s)
    rr = rng.random()
    if rr < 0.3:
        return ('mergechains', s, [], True)
    if rr < 0.9:
        return ('mergechains', s, rng.sample([None, 'A', 'B', '', 'Z'], rng.randint(1, 3)), False)
    return ('mergechains', s, rng.choice([[], ['A']]), rng.choice([False, True]))


BNAMES = ['N', 'CA', 'C', 'O', 'CB', 'X']


def gen_block_steps(rng):
    steps, names = [], []
    pick = lambda: rng.choice(names + ['ZZ']) if (rng.random() < 0.06 or not names) else rng.choice(names)
    for _ in range(rng.randint(0, 9)):
        r = rng.random()
        if r < 0.35 or not names:
            a = gen_attrs(rng)
            a[0] = rng.choice(BNAMES) if rng.random() < 0.95 else None      # add_atom without atomname: ValueError
            steps.append(['atom'] + a)
            if a[0] is not None and a[0] not in names:
                names.append(a[0])
        elif r < 0.45:
            nm = rng.choice(BNAMES)
            steps.append(['node', nm] + gen_attrs(rng))
            if nm not in names:
                names.append(nm)
        elif r < 0.62:
            u, v = pick(), pick()
            steps.append(['edge', u, v] + gen_eattrs(rng))
            for x in (u, v):
                if x not in names:
                    names.append(x)
        elif r < 0.85:
            steps.append([rng.choice(['inter', 'inter', 'raw']), rng.choice(TYPES), [pick() for _ in range(rng.randint(1, 4))],
                          rng.choice(['p', 'q']), rng.choice([None, None, 0, 1]), rng.random() < 0.85])
        elif r < 0.95:
            steps.append(['mkedges', rng.choice(TYPES)])
            # atoms of unvalidated ('raw') interactions become nodes
            for st in steps:
                if st[0] in ('inter', 'raw') and st[1] == steps[-1][1] and st[5] and len(st[2]) > 1:
                    for x in st[2]:
                        if x not in names:
                            names.append(x)
        else:
            steps.append(['log', rng.choice([20, 30]), rng.choice(['block note', 'block warning'])])
    return steps


def gen_op(rng, pool, systems=None):
    n = len(pool)
    if systems is not None and n > 0 and rng.random() < SYS_RATE:
        return gen_sys_op(rng, pool, systems)
    if n == 0 or (n < 5 and rng.random() < 0.08):
        r = rng.random()
        if r < 0.25:
            names = rng.sample(BNAMES, rng.randint(0, 4))
            nodes = [[nm] + gen_attrs(rng) for nm in names]
            pick = lambda: rng.choice(names + ['ZZ']) if rng.random() < 0.07 else rng.choice(names)
            edges = [[rng.choice(names), rng.choice(names)] + (gen_eattrs(rng) if rng.random() < 0.5 else [])
                     for _ in range(rng.randint(0, 3))] if names else []
            inters = [[rng.choice(TYPES), [pick() for _ in range(rng.randint(1, 3))], rng.choice(['p', 'q']), rng.choice([None, None, 1, 0]),
                       rng.random() < 0.9]
                      for _ in range(rng.randint(0, 3))] if names else []
            logs = [[rng.choice([20, 30]), rng.choice(['block note', 'block warning'])] for _ in range(rng.choice([0, 0, 1, 2]))]
            logs = [l for k, l in enumerate(logs) if l not in logs[:k]]
            return ('fromblock', nodes, edges, inters, rng.sample(CITES, rng.randint(0, 2)), rng.choice([1, 1, 1, 3]),
                    rng.choice([0, 1, 5]), rng.choice([0, 2]), rng.choice([0, 3]), gen_ff(rng), logs)
        if r < 0.45:
            return ('buildblock', rng.sample(CITES, rng.randint(0, 2)), rng.choice([1, 1, 1, 3]), gen_ff(rng), gen_block_steps(rng),
                    rng.choice([0, 1, 5]), rng.choice([0, 2]), rng.choice([0, 3]))
        return ('new', rng.choice([None, 1, 1, 1, 3]), gen_ff(rng))
    i = rng.randrange(n) if rng.random() < 0.95 else n + 1
    m = MView(pool[i], GEN_KM) if i < n else None
    its = [(t, x) for t in m.interactions for x in m.interactions[t]] if m is not None else []
    r = rng.random()
    if r < 0.10:
        return ('addnode', i, gen_key(rng, m)) + tuple(gen_attrs(rng))
    if r < 0.16:
        return ('addnodes', i, [[gen_key(rng, m)] + gen_attrs(rng) for _ in range(rng.randint(0, 4))])
    if r < 0.20:
        # bare keys and (key, dict) pairs mixed, common keyword attributes, a key repeated on purpose
        ents = [([gen_key(rng, m)] if rng.random() < 0.4 else [gen_key(rng, m)] + gen_attrs(rng)) for _ in range(rng.randint(0, 4))]
        if ents and rng.random() < 0.5:
            ents.append([ents[0][0]] + gen_attrs(rng))
        common = gen_attrs(rng) if rng.random() < 0.6 else [None, None, None, None]
        return ('addnodesc', i, ents, common)
    if r < 0.27:
        return ('rmnode', i, gen_key(rng, m))
    if r < 0.33:
        return ('rmnodes', i, [gen_key(rng, m) for _ in range(rng.randint(0, 3))], rng.random() < 0.5)
    if r < 0.37:
        return ('addedge', i, gen_key(rng, m), gen_key(rng, m))
    if r < 0.41:
        es = list(m.edges) if m is not None else []
        if es and rng.random() < 0.4:          # an existing bond again: its attribute dict is updated
            u, v = rng.choice(es)
            if rng.random() < 0.5:
                u, v = v, u
            return ('addedgea', i, u, v) + tuple(gen_eattrs(rng))
        return ('addedgea', i, gen_key(rng, m), gen_key(rng, m)) + tuple(gen_eattrs(rng))
    if r < 0.44:
        return ('addedges', i, [[gen_key(rng, m), gen_key(rng, m)] + gen_eattrs(rng) for _ in range(rng.randint(0, 3))])
    if r < 0.49:
        es = list(m.edges) if m is not None else []
        if rng.random() < 0.5:
            if es and rng.random() < 0.8:
                u, v = rng.choice(es)
                if rng.random() < 0.5:
                    u, v = v, u
                return ('rmedge', i, u, v)
            return ('rmedge', i, gen_key(rng, m), gen_key(rng, m))
        l = [list(rng.choice(es))[::rng.choice([1, -1])] if (es and rng.random() < 0.7) else [gen_key(rng, m), gen_key(rng, m)]
             for _ in range(rng.randint(0, 3))]
        return ('rmedges', i, l)
    if r < 0.53:
        if rng.random() < 0.3:
            return ('mkedgesall', i)
        have = [t for t, x in its]
        return ('mkedges', i, rng.choice(have) if (have and rng.random() < 0.7) else rng.choice(TYPES + ['dihedrals']))
    if r < 0.66:
        edge = rng.random() < 0.85
        if m is not None and its and rng.random() < 0.2:
            # the same atoms again with other parameters / version: several candidates for remove_matching_interaction
            t, x = rng.choice(its)
            return ('addinter', i, t, list(x.atoms), rng.choice(['p', 'q', 'r']), rng.choice([None, None, 0, 1, 2]), edge)
        return ('addinter', i, rng.choice(TYPES), [gen_key(rng, m) for _ in range(rng.randint(1, 4))], rng.choice(['p', 'q', 'r']),
                rng.choice([None, None, 0, 1]), edge)
    if r < 0.72:
        if its and rng.random() < 0.35:          # replace an existing one (version absent and 0 are the same key)
            t, x = rng.choice(its)
            v = x.meta.get('version')
            v = rng.choice([v, v, 0 if v is None else v, None if v == 0 else v])
            return ('addorrep', i, t, list(x.atoms), rng.choice(['p', 'q', 'r']), v, rng.sample(CITES, rng.randint(0, 2)), rng.random() < 0.85)
        return ('addorrep', i, rng.choice(TYPES), [gen_key(rng, m) for _ in range(rng.randint(1, 3))], rng.choice(['p', 'q', 'r']),
                rng.choice([None, None, 0, 1]), rng.sample(CITES, rng.randint(0, 2)), rng.random() < 0.85)
    if r < 0.79:
        if rng.random() < (0.55 if its else 0.1):
            # remove_matching_interaction: template from an existing interaction, loosened or spoiled
            if its and rng.random() < 0.9:
                t, x = rng.choice(its)
                atoms, pr, v = list(x.atoms), x.parameters[0], x.meta.get('version')
            else:
                t, atoms, pr, v = rng.choice(TYPES), [gen_key(rng, m) for _ in range(rng.randint(1, 2))], 'p', None
            pr = rng.choice([None, None, pr, pr, pr, 'zz'])
            aa = gen_template_attrs(rng, m, atoms) if rng.random() < 0.4 else None
            return ('rmmatch', i, t, atoms, pr, gen_version_template(rng, v), aa)
        if its and rng.random() < 0.7:
            t, x = rng.choice(its)
            return ('rminter', i, t, list(x.atoms), x.meta.get('version', 0))
        return ('rminter', i, rng.choice(TYPES), [gen_key(rng, m)], 0)
    if r < 0.81:
        if rng.random() < 0.5:
            return ('prune', i, [gen_key(rng, m) for _ in range(rng.randint(0, 3))], [gen_key(rng, m) for _ in range(rng.randint(0, 3))])
        return ('prunesel', i, rng.choice(['A', 'B', 'CA', 'N', '']), rng.choice([None, None, ['A'], ['N'], ['']]))
    if r < 0.84:
        fas = [[[nm, gen_key(rng, m)] for nm in rng.sample(['A', 'B', 'C'], rng.randint(0, 2))] for _ in range(rng.randint(0, 2))]
        return ('addlog', i, rng.choice([20, 30]), rng.choice(['msg {A}', 'note', 'warn {B}', 'block note']), fas)
    if r < 0.85:
        return ('clear', i)
    if r < 0.88 and n < 5:
        return ('copy', i)
    if r < 0.92 and n < 5:
        ks = list(m.nodes) if m is not None else []
        sub = rng.sample(ks, rng.randint(0, len(ks))) if ks else []
        if rng.random() < 0.1:
            sub.append(gen_key(rng, m))
        if sub and rng.random() < 0.3:
            # repeated keys: once, twice, the whole list again
            sub = sub + rng.choice([[sub[0]], [sub[-1], sub[0]], list(sub)])
        return ('subgraph', i, sub)
    j = rng.randrange(n)
    if j == i and n > 1 and rng.random() < 0.9:
        j = (i + 1 + rng.randrange(n - 1)) % n
    if rng.random() < 0.04:
        j = i                      # merge a molecule into itself
    if m is not None and j < n and len(m) + len(pool[j]) > 60:
        # keep molecules small (repeated merges double the size)
        return ('rmnodes', i, list(m.nodes)[::2], rng.random() < 0.5)
    return ('merge', i, j)


def realisation_flipped(m, km):
    if not m.log_entries:
        return False
    present = None
    for entries in m.log_entries.values():
        for fmt_args in entries.values():
            for fa in fmt_args:
                for v in fa.values():
                    if v not in m._node:
                        if present is None:
                            present = {km.inv(k) for k in m.nodes}
                        if km.inv(v) in present:
                            return True
    return False


def gen_sequence(rng, length, style=None):
    """Generate ops (in MODEL keys) against a live pool (generation needs the current keys).  A merge whose receiver
    holds non-integer keys is not generated (needs_orderable_keys): another operation is drawn instead."""
    global GEN_KM
    GEN_KM = km = KeyMap(style)
    pool, systems, ops, pending = [], [], [], []
    for _ in range(length):
        for _attempt in range(30):
            op = pending.pop(0) if pending else gen_op(rng, pool, systems)
            recv = needs_orderable_keys(op, pool, systems)
            if recv is None or all_int_keys(recv):
                break
            chk.count('gen_merge_into_non_integer_keys_redrawn')
        else:
            op = ('new', 1, MAIN_FF)
        ops.append(op)
        out = apply(pool, op, systems, km)
        if style and any(realisation_flipped(m, km) for m in pool):
            # a log entry still names an atom that is gone (F-C12-6) in one form, W(k), and the operation has brought the
            # model key k back in the other form (an integer made by a merge, or the reverse): model and code would no
            # longer talk about the same atom.  The history ends before this operation.
            chk.count('gen_history_cut_stale_log_key_would_change_form')
            ops.pop()
            break
        if op[0] == 'merge' and out == 'ok' and not pending and 0 < len(pool[op[1]]) < 30 and rng.random() < 0.25:
            # state carried across calls: right after a merge (the highest key is cached) atoms are created IMPLICITLY
            # above it by one of the edge / node insertions, then the next merge must number from the new highest key
            top = max(km.inv(k) for k in pool[op[1]].nodes)
            a, b = top + rng.choice([1, 2, 5]), top + rng.choice([3, 6])
            pending.append(rng.choice([('addedges', op[1], [[a, b, None, None]]), ('addedge', op[1], top, a),
                                       ('addedgea', op[1], a, b, 1, None), ('addnodes', op[1], [[a] + gen_attrs(rng)]),
                                       ('addnodesc', op[1], [[a]], gen_attrs(rng))]))
            pending.append(('merge', op[1], op[2]))
    GEN_KM = IDENT
    return ops


# ---- oracle -----------------------------------------------------------------------------------------------------

def check_consistency(pool):
    errs = []
    for idx, m in enumerate(pool):
        keys = set(m.nodes)
        for t, its in m.interactions.items():
            for it in its:
                for a in it.atoms:
                    if a not in keys:
                        errs.append('molecule %d: interaction %s%s mentions absent atom %r' % (idx, t, it.atoms, a))
        for u, v in m.edges:
            if u not in keys or v not in keys:
                errs.append('molecule %d: edge (%r, %r) with absent end point' % (idx, u, v))
    return errs


def d1(x, default=1):
    return x if x is not None else default


def merge_expect(a, b):
    """Independent statement of the merge clauses on dumps: `a` after `b` was merged into it.
    Returns None if a log entry of b mentions an atom b does not have (the code raises KeyError)."""
    nodes = [list(r) for r in a[N_]]
    if nodes:
        last = max(nodes, key=lambda r: r[0])
        off, roff, coff = last[0], d1(last[2]), d1(last[3])
    else:
        off = roff = coff = 0
    corr = {}
    for i, r in enumerate(b[N_]):
        corr[r[0]] = off + 1 + i
        nodes.append([off + 1 + i, r[1], d1(r[2]) + roff, d1(r[3]) + coff, r[4]])
    edges = {(e[0], e[1]): list(e) for e in a[E_]}
    for u, v, o, k in b[E_]:
        if u != v:
            cu, cv = corr.get(u, u), corr.get(v, v)         # (an inconsistent newcomer is reported by the presence clause)
            edges[(min(cu, cv), max(cu, cv))] = [min(cu, cv), max(cu, cv), o, k]
    inters = [list(x) for x in a[I_]] + [[t, [corr.get(x, x) for x in ats], p, v, e] for t, ats, p, v, e in b[I_]]
    logs = {(l, e): [list(fa) for fa in fas] for l, e, fas in a[L_]}
    ok = True
    for l, e, fas in b[L_]:
        if any(k not in corr for fa in fas for _, k in fa):
            ok = False
            break
        logs.setdefault((l, e), [])
        logs[(l, e)] += [[[n, corr[k]] for n, k in fa] for fa in fas] + [sorted([str(k), v] for k, v in corr.items())]
    return {'nodes': nodes, 'edges': sorted(edges.values()), 'inters': sorted(map(repr, inters)), 'inter_rows': inters,
            'cites': sorted(set(a[C_]) | set(b[C_])), 'logs': sorted([l, e, fas] for (l, e), fas in logs.items()),
            'logs_ok': ok, 'corr': corr}


def merge_outcome_expect(a, b):
    if a[F_] != b[F_]:
        return 'valueerror'
    eff = b[X_] if (a[X_] is None and not a[N_]) else a[X_]
    if eff != b[X_]:
        return 'valueerror'
    keys = {r[0] for r in b[N_]}
    if any(k not in keys for _, _, fas in b[L_] for fa in fas for _, k in fa):
        return 'keyerror'
    return 'ok'


def fold_expect(acc, operands, self_index=None, idxs=()):
    """merge_all_keeps restated on dumps; returns (dump-like dict or None, outcome)."""
    cur = [acc[N_], acc[E_], acc[I_], acc[C_], acc[X_], acc[F_], acc[L_]]
    for b in operands:
        out = merge_outcome_expect(cur, b)
        if out != 'ok':
            return None, out
        ex = merge_expect(cur, b)
        nrexcl = b[X_] if (cur[X_] is None and not cur[N_]) else cur[X_]
        cur = [ex['nodes'], ex['edges'], ex['inter_rows'], ex['cites'], nrexcl, cur[F_], ex['logs']]
    return cur, 'ok'


def same_inters(got, want_rows):
    return sorted(map(repr, got)) == sorted(map(repr, want_rows))


def pred_holds(p, x):
    """independent reading of attributes_match for one key: p = template value (None = key absent), x = value or None"""
    if p is None:
        return True
    if isinstance(p, list):
        if p[0] == 'e':
            return x is None
        if p[0] == 'c':
            return x in p[1:]
        if p[0] == 'n':
            return x is None or x != p[1]
    return x == p


def system_oracle(op, out, before, after, sys_before, sys_after, ff_before, ff_after):
    errs = []
    kind = op[0]
    if kind == 'newsys':
        if sys_after != sys_before + [[]] or after != before or ff_after != ff_before + [op[1] if len(op) > 1 else None]:
            errs.append(('newsys did more than append an empty system', None))
        return errs
    s = op[1]
    if s >= len(sys_before):
        return errs
    idxs = sys_before[s]
    sff = ff_before[s]
    if kind == 'mergeall':
        chk.count('mergeall_%s_operands_%s%s' % (out, min(len(idxs), 4), '_selfmerge' if idxs and idxs[0] in idxs[1:] else ''))
    if kind == 'mergechains' and out != 'badindex':
        allc, chains = bool(op[3]), list(op[2])
        if not ((allc and chains) or (not allc and not chains)):
            nsel = sum(1 for k in idxs if allc or all(r[4] in chains for r in before[k][N_]))
            chk.count('mergechains_%s_selected_%s_of_%s' % (out, 'none' if nsel == 0 else 'all' if nsel == len(idxs) else 'one' if nsel == 1 else 'some',
                                                            min(len(idxs), 4)))
        else:
            chk.count('mergechains_%s_badargs' % out)
    if kind == 'addmol' and op[2] < len(before):
        mff = before[op[2]][F_]
        want_out = 'keyerror' if (sff is not None and mff is not None and mff != sff) else 'ok'
        chk.count('addmol_%s_%s' % (out, 'ff_taken_from_system' if (mff is None and sff is not None) else
                                    'ff_given_to_system' if (sff is None and mff is not None) else 'ff_same_or_none' if want_out == 'ok' else 'ff_mismatch'))
        if out != want_out:
            errs.append(('add_molecule: outcome %s, expected %s (system %r, molecule %r)' % (out, want_out, sff, mff), None))
        if out == 'ok':
            if sys_after[s] != idxs + [op[2]]:
                errs.append(('add_molecule did not append exactly the reference', None))
            new_ff = sff if sff is not None else mff
            if ff_after[s] != new_ff:
                errs.append(('add_molecule: system force field %r, expected %r' % (ff_after[s], new_ff), None))
            touched = set([op[2]]) | (set(idxs) if sff is None else set())
            for k, (b, a) in enumerate(zip(before, after)):
                want = list(b)
                if k in touched:
                    want[F_] = new_ff
                if a != want:
                    errs.append(('add_molecule changed molecule %d beyond its force field' % k, None))
    elif kind == 'copysys' and out == 'ok':
        new = sys_after[-1]
        if len(sys_after) != len(sys_before) + 1 or new != list(range(len(before), len(before) + len(idxs))):
            errs.append(('System.copy: the molecules of the copy are not new objects (indices %r)' % (new,), None))
        else:
            for k, src in zip(new, idxs):
                want = list(before[src])
                want[F_] = sff
                if after[k] != want:
                    errs.append(('System.copy: a copied molecule differs from its source', None))
        if ff_after[-1] != sff:
            errs.append(('System.copy: force field of the copy', None))
    elif kind == 'mergeall' and idxs:
        i0 = idxs[0]
        want, want_out = before[i0], 'ok'
        for k in idxs[1:]:
            # the first molecule listed again is merged with a snapshot of what it is at that point
            nxt, o = fold_expect(want, [want if k == i0 else before[k]])
            if o != 'ok':
                want, want_out = None, o
                break
            want = nxt
        if out != want_out:
            errs.append(('MergeAllMolecules: outcome %s, expected %s' % (out, want_out), F_LOG if 'keyerror' in (out, want_out) else None))
        elif out == 'ok':
            if sys_after[s] != [i0]:
                errs.append(('MergeAllMolecules: the system does not hold exactly the first molecule afterwards', None))
            got = after[i0]
            if got[N_] != want[N_]:
                errs.append(('MergeAllMolecules: atoms are not those of all operands in order, renumbered and shifted uniformly', None))
            if len({r[0] for r in got[N_]}) != len(got[N_]):
                errs.append(('MergeAllMolecules: an atom is missing, duplicated or overwritten', None))
            if got[E_] != want[E_]:
                errs.append(('MergeAllMolecules: bonds (with attributes) are not those of all operands', None))
            if not same_inters(got[I_], want[I_]):
                errs.append(('MergeAllMolecules: interactions are not those of all operands', None))
            if got[C_] != want[C_] or got[L_] != want[L_]:
                errs.append(('MergeAllMolecules: citations / log entries are not the union / renumbered entries of all operands', None))
    elif kind == 'mergechains':
        chains, allc = list(op[2]), bool(op[3])
        if (allc and chains) or (not allc and not chains):
            if out != 'valueerror':
                errs.append(('MergeChains: chains and all_chains both/neither given but outcome %s' % out, None))
            return errs
        sel = [allc or all(r[4] in chains for r in before[k][N_]) for k in idxs]
        chosen = [k for k, f in zip(idxs, sel) if f]
        if not chosen:
            if out != 'ok' or sys_after[s] != idxs or len(after) != len(before):
                errs.append(('MergeChains: nothing selected but the system changed (outcome %s)' % out, None))
            return errs
        fresh = [[], [], [], ['vermouth'], before[chosen[0]][X_], sff, []]
        want, want_out = fold_expect(fresh, [before[k] for k in chosen])
        if out != want_out:
            errs.append(('MergeChains: outcome %s, expected %s' % (out, want_out), F_LOG if 'keyerror' in (out, want_out) else None))
        elif out == 'ok':
            n = len(before)
            wl, done = [], False
            for k, f in zip(idxs, sel):
                if not f:
                    wl.append(k)
                elif not done:
                    wl.append(n)
                    done = True
            if len(after) != n + 1 or sys_after[s] != wl:
                errs.append(('MergeChains: molecule list %r, expected %r' % (sys_after[s], wl), None))
            else:
                got = after[n]
                if got[N_] != want[N_] or got[E_] != want[E_] or not same_inters(got[I_], want[I_]):
                    errs.append(('MergeChains: the merged molecule is not the selected molecules in order, renumbered and shifted uniformly', None))
                if got[C_] != want[C_] or got[L_] != want[L_] or got[F_] != sff:
                    errs.append(('MergeChains: citations / log entries / force field of the merged molecule', None))
    return errs


def query_oracle(m, d, km=IDENT):
    """the read-only methods agree with the dump (and, checked by the caller, change nothing)"""
    errs = []
    inv = km.inv
    if [inv(k) for k in m.find_atoms(atomname='A')] != [r[0] for r in d[N_] if r[1] == 'A']:
        errs.append('find_atoms(atomname="A") disagrees with the node table')
    real = list(m.nodes)
    keys = [r[0] for r in d[N_]]
    half = keys[::2]
    got = {lohi(inv(u), inv(v)) for u, v in m.edges_between(real[::2], real)}
    want = {(e[0], e[1]) for e in d[E_] if e[0] in half or e[1] in half}
    if got != want:
        errs.append('edges_between disagrees with the bond table')
    for t in list(m.interactions):
        if [[inv(k) for k in x.atoms] for x in m.get_interaction(t)] != [r[1] for r in d[I_] if r[0] == t]:
            errs.append('get_interaction(%r) disagrees with the interaction table' % t)
    return errs


IN_PLACE_ATOMS_KEPT = ('prune', 'prunesel', 'rmmatch', 'addinter', 'addorrep', 'rminter', 'rmedge', 'rmedges', 'addlog')
APPENDING = ('new', 'fromblock', 'buildblock', 'copy', 'subgraph', 'newsys', 'copysys', 'mergechains')


def run_sequence(ops, style=None):
    """Run ops on the real code with the oracle evaluated after every op.  `ops`, the dumps and therefore every oracle
    clause are in MODEL keys; `style` fixes the translation to the real node keys (KeyMap) of this history.
    Returns (outs, dumps, errs) with errs = [(message, observation id or None)]."""
    pool, systems, outs, dumps, errs = [], [], [], [], []
    km = KeyMap(style)

    def err(step, op, msg, fid=None):
        errs.append(('step %d %s: %s' % (step, op[0], msg), fid))

    after, sys_after, ff_after = [], [], []
    for step, op in enumerate(ops):
        # the state before this step is the state after the previous one (dumps are never mutated)
        before, sys_before, ff_before = after, sys_after, ff_after
        km.used = set()
        newcomers = []
        if style and op[0] == 'merge' and op[1] < len(pool) and op[2] < len(pool):
            newcomers = [pool[op[2]]]
        elif style and op[0] in ('mergeall', 'mergechains') and op[1] < len(systems):
            newcomers = systems[op[1]].molecules[(1 if op[0] == 'mergeall' else 0):]
        if any(not all_int_keys(m) for m in newcomers):
            chk.count('keys_%s_newcomer_with_non_integer_keys' % op[0])
        out = apply(pool, op, systems, km)
        outs.append(out)
        for tname in km.used:
            chk.count('keys_%s_%s_%s' % (op[0], tname, out))
        after = [dump_mol(m, km) for m in pool]
        sys_after = dump_systems(pool, systems)
        ff_after = [ff_name(s.force_field) for s in systems]
        dumps.append(enc(after) + ' ' + enc(sys_after) + ' ' + enc(ff_after))
        kind = op[0]
        for e in check_consistency(pool):
            err(step, op, e)
        for k, (b, a) in enumerate(zip(before, after)):
            if [r[0] for r in a[N_]] != [r[0] for r in b[N_]] and kind in IN_PLACE_ATOMS_KEPT:
                err(step, op, 'changed the atoms of molecule %d' % k)
        # frame: only the target (or the appended molecule) may change; add_molecule may set force fields (system_oracle)
        if kind in APPENDING or kind == 'addmol':
            target = None
        elif kind == 'mergeall':
            target = sys_before[op[1]][0] if op[1] < len(sys_before) and sys_before[op[1]] else None
        else:
            target = op[1]
        if out.startswith('crash:'):
            err(step, op, 'raised an undocumented %s' % out[6:])
        if kind != 'addmol':
            for k, b in enumerate(before):
                if k != target and after[k] != b:
                    err(step, op, 'on molecule %s changed molecule %d' % (target, k))
        # theorem error_no_change / sstep_error: a failing operation changes nothing (add_or_replace_interaction
        # included: it can only fail in add_interaction, before the citations are touched).  Exceptions: MergeAllMolecules
        # (has merged the operands before the failing one), a merge that fails in its log-entry loop (F-C12-6).
        if out != 'ok' and kind != 'mergeall' and (after[:len(before)] != before or len(after) != len(before)):
            fid = None
            if kind == 'merge' and out == 'keyerror':
                fid = F_LOG
            err(step, op, 'failed with %s but changed the state' % out, fid)
        if out != 'ok' and sys_after != sys_before:
            err(step, op, 'failed with %s but changed a system' % out)
        if kind in SYS_OPS:
            for k, (sb, sa) in enumerate(zip(sys_before, sys_after)):
                if sb != sa and not (kind in ('addmol', 'mergeall', 'mergechains') and k == op[1]):
                    err(step, op, 'changed system %d' % k)
            for k, (fb, fa) in enumerate(zip(ff_before, ff_after)):
                if fb != fa and not (kind == 'addmol' and k == op[1]):
                    err(step, op, 'changed the force field of system %d' % k)
            try:
                for msg, fid in system_oracle(op, out, before, after, sys_before, sys_after, ff_before, ff_after):
                    err(step, op, msg, fid)
            except Exception as exc:
                err(step, op, 'the system oracle could not be evaluated on this state: %r' % (exc,))
        elif sys_after != sys_before or ff_after != ff_before:
            err(step, op, 'changed the systems')
        b = before[op[1]] if (kind not in SYS_OPS and kind not in ('new', 'fromblock', 'buildblock') and op[1] < len(before)) else None
        a = after[op[1]] if b is not None else None
        if b is not None and target is not None:
            for e in query_oracle(pool[op[1]], a, km):
                err(step, op, e)
            if dump_mol(pool[op[1]], km) != a:
                err(step, op, 'a read-only method (find_atoms / edges_between / get_interaction) changed the molecule')
        def clauses():
            # ---- per-operation clauses --------------------------------------------------------------------------------
            if kind == 'buildblock':
                _, cites, nrexcl, ff, steps, ao, ro, co = op
                want_out, table = 'ok', {}

                def touch(name, vals=(None, None, None, None)):
                    old = table.setdefault(name, [None, None, None, None])
                    table[name] = [v if v is not None else o for v, o in zip(vals, old)]
                for pos, st in enumerate(steps):
                    if st[0] == 'atom':
                        if st[1] is None:
                            want_out = 'valueerror'
                            break
                        touch(st[1], st[1:5])
                    elif st[0] == 'node':
                        touch(st[1], st[2:6])
                    elif st[0] == 'edge':
                        touch(st[1]), touch(st[2])
                    elif st[0] == 'inter' and any(x not in table for x in st[2]):
                        want_out = 'keyerror'
                        break
                    elif st[0] == 'mkedges':
                        for st2 in steps[:pos]:
                            if st2[0] in ('inter', 'raw') and st2[1] == st[1] and st2[5] and len(st2[2]) > 1:
                                for x in st2[2]:
                                    touch(x)
                if want_out == 'ok' and any(x not in table for st in steps if st[0] == 'raw' for x in st[2]):
                    want_out = 'keyerror'                   # to_molecule meets an interaction with an unknown atom
                chk.count('buildblock_%s' % out)
                if out != want_out:
                    err(step, op, 'block building: outcome %s, expected %s' % (out, want_out))
                elif out == 'ok':
                    got = after[-1]
                    want_nodes = [[ao + k, v[0], d1(v[1]) + ro, d1(v[2]) + co, v[3]] for k, v in enumerate(table.values())]
                    if got[N_] != want_nodes:
                        err(step, op, 'block building: the atoms of the molecule are not the block\'s atoms (add_atom / add_node / implicit) '
                                      'in order with the given attributes, residue number and charge group shifted')
                    if got[C_] != sorted(cites) or got[X_] != nrexcl or got[F_] != ff:
                        err(step, op, 'block building: citations / nrexcl / force field')
            if kind == 'clear' and b is not None:
                chk.count('clear_%s' % ('with_interactions' if b[I_] else 'without_interactions'))
                if a[N_] or a[E_] or a[I_]:
                    err(step, op, 'clear() left atoms, bonds or interactions')
                if a[C_:] != b[C_:]:
                    err(step, op, 'clear() changed citations / nrexcl / force field / log entries')
            if kind in ('mkedges', 'mkedgesall') and b is not None:
                types = [op[2]] if kind == 'mkedges' else ['bonds', 'angles', 'dihedrals', 'cmap', 'constraints']
                pairs = {(min(u, v), max(u, v)) for t, ats, _, _, e in b[I_] if t in types and e for u, v in zip(ats[:-1], ats[1:])}
                old = {(e[0], e[1]): e for e in b[E_]}
                want = sorted(list(old.get(p, [p[0], p[1], None, None])) for p in set(old) | pairs)
                chk.count('mkedges_%s' % ('new_bonds' if pairs - set(old) else 'no_new_bond'))
                if a[E_] != want:
                    err(step, op, 'bonds are not the old ones plus the consecutive atom pairs of the interactions with edge=True')
                if a[N_] != b[N_] or a[I_:] != b[I_:]:
                    err(step, op, 'changed atoms / interactions / bookkeeping')
            if kind in ('rmedge', 'rmedges') and b is not None:
                gone = {(min(u, v), max(u, v)) for u, v in ([op[2:4]] if kind == 'rmedge' else op[2])}
                want = [e for e in b[E_] if (e[0], e[1]) not in gone]
                present = any((e[0], e[1]) in gone for e in b[E_])
                chk.count('%s_%s' % (kind, out if kind == 'rmedge' else ('some_present' if present else 'none_present')))
                if kind == 'rmedge' and out != ('ok' if present else 'nxerror'):
                    err(step, op, 'remove_edge outcome %s' % out)
                if a[E_] != want or a[N_] != b[N_] or a[I_:] != b[I_:]:
                    err(step, op, 'did not remove exactly the listed bonds and nothing else')
            if kind in ('addedgea', 'addedges', 'addedge') and b is not None and out == 'ok':
                ents = [list(op[2:6]) + [None, None][:6 - len(op)]] if kind != 'addedges' else op[2]
                want = {(e[0], e[1]): list(e) for e in b[E_]}
                for u, v, o, k in ents:
                    key = (min(u, v), max(u, v))
                    cur = want.get(key, [key[0], key[1], None, None])
                    want[key] = [key[0], key[1], o if o is not None else cur[2], k if k is not None else cur[3]]
                if a[E_] != sorted(want.values()):
                    err(step, op, 'bonds / bond attributes are not the old ones updated by the given ones')
                oldkeys = [r[0] for r in b[N_]]
                newkeys = [x for u, v, _, _ in ents for x in (u, v)]
                wantkeys = oldkeys + [x for k, x in enumerate(newkeys) if x not in oldkeys and x not in newkeys[:k]]
                if [r[0] for r in a[N_]] != wantkeys or a[N_][:len(oldkeys)] != b[N_] or a[I_:] != b[I_:]:
                    err(step, op, 'atoms are not the old ones plus the new end points / something else changed')
            if kind == 'addnodesc' and b is not None:
                rows = {r[0]: list(r) for r in b[N_]}
                order = [r[0] for r in b[N_]]
                for e in op[2]:
                    vals = [x if (len(e) > 1 and x is not None) else c for x, c in zip((e[1:] if len(e) > 1 else [None] * 4), op[3])]
                    if e[0] not in rows:
                        rows[e[0]] = [e[0], None, None, None, None]
                        order.append(e[0])
                    rows[e[0]] = [e[0]] + [v if v is not None else old for v, old in zip(vals, rows[e[0]][1:])]
                chk.count('addnodesc_%s' % ('repeated_key' if len({e[0] for e in op[2]}) < len(op[2]) else 'distinct_keys'))
                if a[N_] != [rows[k] for k in order] or a[E_:] != b[E_:]:
                    err(step, op, 'add_nodes_from with (key, dict) pairs / bare keys / common attributes: unexpected node table')
            if kind == 'subgraph' and b is not None:
                req = list(op[2])
                keys = {r[0] for r in b[N_]}
                chk.count('subgraph_%s_%s' % (out, 'absent_key' if any(k not in keys for k in req) else
                                              'repeated_keys' if len(set(req)) < len(req) else 'distinct_keys'))
                if out != ('keyerror' if any(k not in keys for k in req) else 'ok'):
                    err(step, op, 'subgraph outcome %s' % out)
                if out == 'ok':
                    s = after[-1]
                    uniq = [k for n, k in enumerate(req) if k not in req[:n]]
                    rows = {r[0]: r for r in b[N_]}
                    if s[N_] != [rows[k] for k in uniq]:
                        err(step, op, 'subgraph atoms are not the requested atoms once each in request order')
                    if s[E_] != [e for e in b[E_] if e[0] in req and e[1] in req]:
                        err(step, op, 'subgraph bonds (with attributes) are not the bonds between requested atoms')
                    if s[I_] != [x for x in b[I_] if all(k in req for k in x[1])]:
                        err(step, op, 'subgraph interactions are not those with all atoms requested')
                    if s[C_:L_] != b[C_:L_] or s[L_]:
                        err(step, op, 'subgraph citations / nrexcl / force field differ or log entries were carried over')
            if kind == 'copy' and b is not None and out == 'ok' and after[-1] != b:
                err(step, op, 'the copy differs from its source')
            if kind == 'rmmatch' and b is not None:
                chk.count('rmmatch_%s_%s%s' % (out, 'delete_interaction' if op[6] is not None else 'interaction',
                                               '_pred' if (isinstance(op[5], list) or any(isinstance(x, list) for t in (op[6] or []) for x in t)) else
                                               '_v0' if op[5] == 0 else ''))
                rows = {r[0]: r for r in b[N_]}

                def tmatch(x):
                    if x[0] != op[2] or x[1] != list(op[3]) or (op[4] is not None and x[2] != op[4]) or not pred_holds(op[5], x[3]):
                        return False
                    for atom, t in zip(x[1], op[6] or []):
                        if atom not in rows:      # dangling interaction (reported by the presence clause)
                            return False
                        if not all(pred_holds(val, rows[atom][1 + pos]) for pos, val in enumerate(t)):
                            return False
                    return True
                hits = [k for k, x in enumerate(b[I_]) if tmatch(x)]
                if out == 'ok' and (len(a[I_]) != len(b[I_]) - 1 or a[:I_] + a[C_:] != b[:I_] + b[C_:]):
                    err(step, op, 'did not remove exactly one interaction and nothing else')
                if out == 'valueerror' and hits:
                    err(step, op, 'ValueError although %r matches' % (b[I_][hits[0]],))
                # the FIRST interaction of the type that matches the template goes, nothing else
                if out == 'ok' and (not hits or a[I_] != b[I_][:hits[0]] + b[I_][hits[0] + 1:]):
                    err(step, op, 'the first matching interaction (%s) is not the one that was removed' % (b[I_][hits[0]] if hits else None))
            if kind == 'addlog' and b is not None:
                want = {(l, e): fas for l, e, fas in b[L_]}
                want.setdefault((op[2], op[3]), [])
                want[(op[2], op[3])] = want[(op[2], op[3])] + [sorted([n, k] for n, k in fa) for fa in op[4]]
                if a[L_] != sorted([l, e, fas] for (l, e), fas in want.items()) or a[:L_] != b[:L_]:
                    err(step, op, 'log entries')
            if kind in ('rmnode', 'rmnodes') and b is not None and out == 'ok':
                gone = set([op[2]] if kind == 'rmnode' else op[2])
                if a[N_] != [r for r in b[N_] if r[0] not in gone] or a[E_] != [e for e in b[E_] if e[0] not in gone and e[1] not in gone] \
                        or a[I_] != [x for x in b[I_] if not (set(x[1]) & gone)] or a[C_:L_] != b[C_:L_]:
                    err(step, op, 'removal did not drop exactly the atoms, their bonds and their interactions')
                stale = [k for _, _, fas in a[L_] for fa in fas for _, k in fa if k in gone]
                if stale:
                    chk.count('log_entry_mentions_removed_atom')
            # ---- merge_molecule ---------------------------------------------------------------------------------------
            if kind == 'merge' and b is not None and op[2] < len(before):
                # a molecule merged into itself is merged with a snapshot of itself: same clauses
                a0, b0 = b, before[op[2]]
                want_out = merge_outcome_expect(a0, b0)
                chk.count('%smerge_%s%s' % ('self' if op[1] == op[2] else '', out, '_ff_mismatch' if a0[F_] != b0[F_] else '_with_logs' if b0[L_] else ''))
                if out != want_out:
                    err(step, op, 'outcome %s, expected %s' % (out, want_out), F_LOG if 'keyerror' in (out, want_out) else None)
                if out == 'ok':
                    ex = merge_expect(a0, b0)
                    n0 = len(a0[N_])
                    if a[N_][:n0] != a0[N_]:
                        err(step, op, 'existing atoms changed or dropped')
                    new = a[N_][n0:]
                    if len(new) != len(b0[N_]):
                        err(step, op, '%d new atoms for %d merged' % (len(new), len(b0[N_])))
                    oldkeys = [r[0] for r in a0[N_]]
                    if oldkeys and new and min(r[0] for r in new) <= max(oldkeys):
                        err(step, op, 'new keys not fresh')
                    if len({r[0] for r in a[N_]}) != len(a[N_]):
                        err(step, op, 'duplicate keys')
                    if a[N_] != ex['nodes']:
                        err(step, op, 'new atoms are not the newcomer\'s in order, residue number and charge group shifted uniformly')
                    if a[E_] != ex['edges']:
                        err(step, op, 'bonds (with attributes) are not old + renamed new')
                    if sorted(map(repr, a[I_])) != ex['inters']:
                        err(step, op, 'interactions are not old + renamed new')
                    if a[C_] != ex['cites']:
                        err(step, op, 'citations are not the union')
                    if a[L_] != ex['logs']:
                        err(step, op, 'log entries are not old + the newcomer\'s renumbered with the atoms + the correspondence')
                    if a[F_] != a0[F_]:
                        err(step, op, 'force field changed')
                    # a log entry of the receiving molecule that mentioned a removed atom now points to a newcomer's atom
                    keys0 = {r[0] for r in a0[N_]}
                    if any(k not in keys0 and k in ex['corr'].values() for _, _, fas in a0[L_] for fa in fas for _, k in fa):
                        chk.count('stale_log_entry_points_to_newcomer_atom')
        try:
            clauses()
        except Exception as exc:  # an inconsistent state the clauses were not written for
            err(step, op, 'the oracle could not be evaluated on this state: %r' % (exc,))
    return outs, dumps, errs


def load_corpus():
    import glob
    seqs = []
    for f in sorted(glob.glob(os.path.join(VERIF, 'corpus', 'c12_*.json'))):
        doc = json.load(open(f))
        for k, ops in enumerate(doc['sequences']):
            seqs.append(([tuple(o) for o in ops], doc['styles'][k] if 'styles' in doc else None))
    return seqs


def attribute(errs):
    """errs = [(msg, finding id | None)] -> (messages to report, finding id).  An error without finding signature always
    wins; errors that belong to an observation that is not registered in known_findings.json (F-C12-6) are counted and noted only."""
    real = [m for m, f in errs if f is None]
    if real:
        return real, None
    fids = sorted({f for _, f in errs})
    for f in fids:
        chk.count('finding_%s_cases' % f)
    reg = [f for f in fids if f in KNOWN_IDS]
    if reg:
        return [m for m, f in errs if f == reg[0]], reg[0]
    for f in fids:
        note = 'cases with the signature of %s (not registered in known_findings.json) are counted, not reported' % f
        if note not in chk.notes:
            chk.notes.append(note)
    return [], None


sequences = []          # (ops in model keys, key style)
for ops, style in load_corpus():
    sequences.append((ops, style))
rng = chk.rng('ops')
NSEQ = 2000 if chk.thorough else 500
for s in range(NSEQ):
    L = rng.choice([5, 10, 20, 40]) if not chk.thorough else rng.choice([10, 40, 100, 200])
    SYS_RATE = rng.choice([0.0, 0.1, 0.3])          # a third of the histories are system-heavy
    MAIN_FF = rng.choice([None, None, 'ffA'])
    style = gen_key_style(rng)
    sequences.append((gen_sequence(rng, L, style), style))

all_lines = []
per_seq = []
styles = []
for ops, style in sequences:
    styles.append(style)
    chk.count('history_keys_%s' % ('integer' if not style else style[0]))
    outs, dumps, errs = run_sequence(ops, style)
    lines = ['x' + 'reset'.encode().hex()] + [op_line(op) for op in ops]
    per_seq.append((ops, outs, dumps, errs, len(all_lines), len(lines)))
    all_lines.extend(lines)
models = chk.drv.ask(all_lines) if chk.lean_ok else [None] * len(all_lines)
for si, (ops, outs, dumps, errs, start, n) in enumerate(per_seq):
    impl = '\n'.join(o + ' ' + d for o, d in zip(outs, dumps))
    mo = None
    if models[start] is not None:
        mo = '\n'.join(models[start + 1:start + n])
        if impl != mo:
            # point at the first differing step
            for k, (a, b) in enumerate(zip(impl.split('\n'), mo.split('\n'))):
                if a != b:
                    impl, mo = 'step %d %r: %s' % (k, ops[k][0], a), 'step %d %r: %s' % (k, ops[k][0], b)
                    break
    kinds = {o[0] for o in ops}
    for o, out in zip(ops, outs):
        chk.count('op_' + o[0])
        chk.count('outcome_' + out)
    nontriv = bool(kinds & {'rmnode', 'rmnodes', 'merge', 'mergeall', 'mergechains', 'clear'}) and \
        bool(kinds & {'addinter', 'addorrep', 'fromblock', 'buildblock'})
    msgs, fid = attribute(errs)
    # the key style is part of the failing input (it is not sent to the model: the model's keys are Int)
    chk.case('seq-%d' % si, ([line('keystyle', *styles[si])] if styles[si] else []) + [op_line(o) for o in ops],
             impl if impl != mo else 'agree(%d steps)' % len(ops), mo if impl != mo else 'agree(%d steps)' % len(ops),
             msgs[:3], nontriv, finding=fid)

# ---- the ordering assumptions of merge_molecule on the RECEIVER's keys (needs_orderable_keys), oracle only -------
# a non-empty receiver that holds a non-integer key cannot receive (max() of mixed types, or `max + 1` on a non-number):
# TypeError is what the code does today (counted, a note if that changes); C12's clause is that the failing merge changes
# nothing.  The same newcomer is then merged into an EMPTY receiver, which must work whatever the keys are.
orng = chk.rng('key-order')
for ci in range(60 if chk.thorough else 16):
    style = [orng.choice(KEY_KINDS), 1, 'all']
    km = KeyMap(style)
    pool = [Molecule(nrexcl=1), Molecule(nrexcl=1), Molecule(nrexcl=1)]
    for m in pool:
        m.citations = set()
    ops = []
    for k in orng.sample(range(-2, 9), orng.randint(1, 5)):
        ops.append(('addnode', 0, k) + tuple(gen_attrs(orng)))
    mixed = orng.random() < 0.5
    if mixed:
        nx.Graph.add_node(pool[0], 50, atomname='X')          # an integer key next to the others
    for k in orng.sample(range(0, 9), orng.randint(1, 4)):
        ops.append(('addnode', 1, k) + tuple(gen_attrs(orng)))
    for op in ops:
        apply(pool, op, [], km)
    keys0, keys1 = [km.inv(k) for k in pool[0].nodes], [km.inv(k) for k in pool[1].nodes]
    if len(keys0) > 1:
        ops.append(('addinter', 0, 'bonds', keys0[:2], 'p', None, True))
        apply(pool, ops[-1], [], km)
    if len(keys1) > 1:
        ops.append(('addinter', 1, 'bonds', keys1[-2:], 'q', None, True))
        ops.append(('addedge', 1, keys1[0], keys1[-1]))
        apply(pool, ops[-2], [], km), apply(pool, ops[-1], [], km)
    before = [dump_mol(m, km) for m in pool]
    errs = []
    if all_int_keys(pool[0]):
        out = 'skipped'          # the style kept integers (mixed style): nothing to observe
    else:
        out = apply(pool, ('merge', 0, 1), [], km)
        chk.count('key_order_merge_into_%s_receiver_%s' % ('mixed' if mixed else 'non_integer', out))
        if out != 'crash:TypeError':
            note = 'merge_molecule into a receiver with non-integer keys no longer raises TypeError (%s): needs_orderable_keys is outdated' % out
            if note not in chk.notes:
                chk.notes.append(note)
        if out != 'ok' and [dump_mol(m, km) for m in pool] != before:
            errs.append('merge into a receiver with non-orderable keys failed with %s but changed the state' % out)
    out2 = apply(pool, ('merge', 2, 1), [], km)
    after = [dump_mol(m, km) for m in pool]
    errs += ['key-order: ' + e for e in check_consistency(pool)]
    want = merge_expect(before[2], before[1])
    if out2 != 'ok' or after[2][N_] != want['nodes'] or after[2][E_] != want['edges'] or not same_inters(after[2][I_], want['inter_rows']):
        errs.append('merge of a newcomer with non-integer keys into an empty receiver: outcome %s or atoms / bonds / interactions not kept' % out2)
    if after[1] != before[1]:
        errs.append('merging changed the newcomer')
    chk.count('key_order_newcomer_into_empty_%s' % out2)
    chk.case('key-order-%d' % ci, [line('keystyle', *style), line('mixed', mixed)] + [op_line(o) for o in ops],
             out + ' ' + out2 + ' ' + enc(after), None, errs[:3], True)

# ---- edge_tuning.add_edges_at_distance: oracle only (positions are not part of the model) ----------------------
# integer grid positions and thresholds k + 0.5, so every distance is far from the threshold and the expectation
# can be computed exactly on squared integers
erng = chk.rng('edge-dist')
for ci in range(600 if chk.thorough else 80):
    m = Molecule(nrexcl=1)
    keys = erng.sample(range(-4, 12), erng.randint(0 if erng.random() < 0.1 else 2, 7))
    pos = {}
    for k in keys:
        kw = attrs_kw(*gen_attrs(erng))
        if erng.random() < 0.93:
            pos[k] = [erng.randint(0, 3) for _ in range(3)]
            kw['position'] = np.array(pos[k], dtype=float)
        m.add_node(k, **kw)
    for _ in range(erng.randint(0, 4)):
        if len(keys) >= 2:
            m.add_edge(*erng.sample(keys, 2))
    for _ in range(erng.randint(0, 3)):
        if keys:
            m.add_interaction('bonds', tuple(erng.choice(keys) for _ in range(2)), ['p'])
    pick = lambda: [erng.choice(keys + [99]) if erng.random() < 0.9 else 77 for _ in range(erng.randint(0 if erng.random() < 0.15 else 1, 4))] if keys else []
    sel_a, sel_b = pick(), pick()
    thr2x4 = erng.choice([1, 9, 25])                       # (2 * threshold)^2 for thresholds 0.5, 1.5, 2.5
    before = dump_mol(m)
    try:
        edge_tuning.add_edges_at_distance(m, (thr2x4 ** 0.5) / 2, sel_a, sel_b)
        out = 'ok'
    except KeyError:
        out = 'keyerror'
    except ValueError:
        out = 'valueerror'                                 # np.stack of an empty selection
    after = dump_mol(m)
    chk.count('edge_dist_' + out)
    errs = ['add_edges_at_distance: ' + e for e in check_consistency([m])]
    if after[N_] != before[N_]:
        errs.append('add_edges_at_distance changed or dropped atoms')
    if after[I_:] != before[I_:]:
        errs.append('add_edges_at_distance changed interactions, citations or nrexcl')
    old_e, new_e = {(e[0], e[1]) for e in before[E_]}, {(e[0], e[1]) for e in after[E_]}
    if not old_e <= new_e:
        errs.append('add_edges_at_distance dropped a bond')
    if out != 'ok' and new_e != old_e:
        errs.append('add_edges_at_distance failed with %s but changed the bonds' % out)
    A, B = set(sel_a) & set(keys), set(sel_b) & set(keys)
    for u, v in new_e - old_e:
        if not ((u in A and v in B) or (v in A and u in B)):
            errs.append('add_edges_at_distance: new bond (%r, %r) is not between the selections' % (u, v))
    if out == 'ok':
        for u in A:
            for v in B:
                d2x4 = 4 * sum((x - y) ** 2 for x, y in zip(pos[u], pos[v]))
                if u != v and (d2x4 < thr2x4) != ((min(u, v), max(u, v)) in new_e) and (min(u, v), max(u, v)) not in old_e:
                    errs.append('add_edges_at_distance: pair (%r, %r) at squared distance %s/4, threshold^2 %s/4' % (u, v, d2x4, thr2x4))
    chk.case('edge-dist-%d' % ci, line('adddist', keys, [pos.get(k) for k in keys], sel_a, sel_b, thr2x4),
             out + ' ' + enc([[e[0], e[1]] for e in after[E_]]), None, errs[:3], bool(new_e - old_e))
chk.finish()
