#!/venv/bin/python
"""C12 - editing a molecule keeps atoms, bonds and interactions consistent.
Model: lean/VermouthModel/C12.lean (pool state machine); theorems: lean/VermouthProps/C12.lean.
Correspondence: random op sequences on a pool of real Molecule objects, the observable state of EVERY
pool member is compared with the model after every op (so aliasing between a copy/subgraph and its
source shows up), the cached max_node is never compared."""
from common import *

chk = Check('C12')
chk.extra['rule'] = ('op sequences over a pool of <= 5 real Molecule objects with arbitrary integer keys (sparse, negative, '
                     're-added); after every op the whole pool is dumped and compared with the model; a sequence is '
                     'non-trivial if it contains >= 1 removal or merge and >= 1 interaction; distinct = distinct op sequence')
chk.lean(['VermouthProps.C12'], 'driver_c12')

import networkx as nx
from vermouth.molecule import Molecule, Block, Interaction

TYPES = ['bonds', 'angles', 'constraints']
CITES = ['paperA', 'paperB', 'paperC']


def dump_mol(m):
    nodes = [[k, d.get('atomname'), d.get('resid'), d.get('charge_group')] for k, d in m.nodes(data=True)]
    edges = sorted({(min(u, v), max(u, v)) for u, v in m.edges})
    inters = []
    for t in sorted(m.interactions):
        for i in m.interactions[t]:
            inters.append([t, list(i.atoms), i.parameters[0], i.meta.get('version', 0)])
    return [nodes, [list(e) for e in edges], inters, sorted(m.citations), m.nrexcl]


def dump_pool(pool):
    return enc([dump_mol(m) for m in pool])


def attrs_kw(name, resid, cg):
    kw = {}
    if name is not None:
        kw['atomname'] = name
    if resid is not None:
        kw['resid'] = resid
    if cg is not None:
        kw['charge_group'] = cg
    return kw


def apply(pool, op):
    """Apply one op to the real pool; return outcome string."""
    kind = op[0]
    try:
        if kind == 'new':
            m = Molecule(nrexcl=op[1])
            m.citations = set()
            pool.append(m)
        elif kind == 'fromblock':
            _, nodes, edges, inters, cites, nrexcl, ao, ro, co = op
            b = Block(nrexcl=nrexcl)
            b.name = 'BLK'
            b.citations = set(cites)
            for n, an, r, c in nodes:
                b.add_node(n, **attrs_kw(an, r, c))
            for ty, ats, pr, v in inters:
                b.interactions[ty].append(Interaction(atoms=tuple(ats), parameters=[pr], meta={'version': v} if v else {}))
            for u, v in edges:
                nx.Graph.add_edge(b, u, v)
            try:
                mol = b.to_molecule(atom_offset=ao, offset_resid=ro, offset_charge_group=co, default_attributes={})
            except KeyError:
                return 'keyerror'
            pool.append(mol)
        else:
            i = op[1]
            if i >= len(pool):
                return 'badindex'
            m = pool[i]
            if kind == 'addnode':
                m.add_node(op[2], **attrs_kw(*op[3:6]))
            elif kind == 'addnodes':
                m.add_nodes_from([(k, attrs_kw(n, r, c)) for k, n, r, c in op[2]])
            elif kind == 'rmnode':
                try:
                    m.remove_node(op[2])
                except nx.NetworkXError:
                    return 'nxerror'
            elif kind == 'rmnodes':
                # a one-shot iterator half of the time (see F-C12-2)
                ks = op[2]
                m.remove_nodes_from(iter(ks) if op[3] else list(ks))
            elif kind == 'addedge':
                m.add_edge(op[2], op[3])
            elif kind == 'addinter':
                m.add_interaction(op[2], tuple(op[3]), [op[4]], meta={'version': op[5]} if op[5] else {})
            elif kind == 'addorrep':
                m.add_or_replace_interaction(op[2], tuple(op[3]), [op[4]], meta={'version': op[5]} if op[5] else {},
                                             citations=set(op[6]))
            elif kind == 'rminter':
                m.remove_interaction(op[2], tuple(op[3]), version=op[4])
            elif kind == 'copy':
                pool.append(m.copy())
            elif kind == 'subgraph':
                pool.append(m.subgraph(list(op[2])))
            elif kind == 'merge':
                j = op[2]
                if j >= len(pool) or i == j:
                    return 'badindex'
                m.merge_molecule(pool[j])
            else:
                raise AssertionError(kind)
    except KeyError:
        return 'keyerror'
    except ValueError:
        return 'valueerror'
    return 'ok'


def op_line(op):
    kind = op[0]
    if kind == 'rmnodes':
        return line('rmnodes', op[1], op[2])
    if kind == 'fromblock':
        _, nodes, edges, inters, cites, nrexcl, ao, ro, co = op
        return line('fromblock', [list(n) for n in nodes], [list(e) for e in edges],
                    [[ty, list(ats), pr, v] for ty, ats, pr, v in inters], cites, nrexcl, ao, ro, co)
    return line(*op)


def gen_key(rng, m):
    ks = list(m.nodes) if m is not None else []
    r = rng.random()
    if ks and r < 0.55:
        return rng.choice(ks)
    if ks and r < 0.75:
        return max(ks) + rng.choice([1, 1, 2, 7])
    return rng.choice([-3, -1, 0, 1, 2, 3, 5, 8, 13, 40, 100])


def gen_attrs(rng):
    # 0 and negative residue numbers / charge groups are legal and falsy values must not be taken for "absent"
    return [rng.choice([None, 'A', 'B', 'CA', 'N', '']), rng.choice([None, 1, 2, 5, 9, 0, -1]), rng.choice([None, 1, 2, 3, 7, 0, -2])]


def gen_op(rng, pool):
    n = len(pool)
    if n == 0 or (n < 5 and rng.random() < 0.08):
        if rng.random() < 0.4:
            names = rng.sample(['N', 'CA', 'C', 'O', 'CB', 'X'], rng.randint(0, 4))
            nodes = [[nm] + gen_attrs(rng) for nm in names]
            pick = lambda: rng.choice(names + ['ZZ']) if rng.random() < 0.07 else rng.choice(names)
            edges = [[rng.choice(names), rng.choice(names)] for _ in range(rng.randint(0, 3))] if names else []
            inters = [[rng.choice(TYPES), [pick() for _ in range(rng.randint(1, 3))], rng.choice(['p', 'q']), rng.choice([0, 0, 1])]
                      for _ in range(rng.randint(0, 3))] if names else []
            return ('fromblock', nodes, edges, inters, rng.sample(CITES, rng.randint(0, 2)), rng.choice([1, 1, 1, 3]),
                    rng.choice([0, 1, 5]), rng.choice([0, 2]), rng.choice([0, 3]))
        return ('new', rng.choice([None, 1, 1, 1, 3]))
    i = rng.randrange(n) if rng.random() < 0.95 else n + 1
    m = pool[i] if i < n else None
    r = rng.random()
    if r < 0.14:
        return ('addnode', i, gen_key(rng, m)) + tuple(gen_attrs(rng))
    if r < 0.22:
        return ('addnodes', i, [[gen_key(rng, m)] + gen_attrs(rng) for _ in range(rng.randint(0, 4))])
    if r < 0.30:
        return ('rmnode', i, gen_key(rng, m))
    if r < 0.37:
        return ('rmnodes', i, [gen_key(rng, m) for _ in range(rng.randint(0, 3))], rng.random() < 0.5)
    if r < 0.45:
        return ('addedge', i, gen_key(rng, m), gen_key(rng, m))
    if r < 0.60:
        return ('addinter', i, rng.choice(TYPES), [gen_key(rng, m) for _ in range(rng.randint(1, 3))], rng.choice(['p', 'q', 'r']), rng.choice([0, 0, 1]))
    if r < 0.68:
        return ('addorrep', i, rng.choice(TYPES), [gen_key(rng, m) for _ in range(rng.randint(1, 3))], rng.choice(['p', 'q', 'r']), rng.choice([0, 0, 1]),
                rng.sample(CITES, rng.randint(0, 2)))
    if r < 0.75:
        if m is not None and rng.random() < 0.7:
            its = [(t, x) for t in m.interactions for x in m.interactions[t]]
            if its:
                t, x = rng.choice(its)
                return ('rminter', i, t, list(x.atoms), x.meta.get('version', 0))
        return ('rminter', i, rng.choice(TYPES), [gen_key(rng, m)], 0)
    if r < 0.80 and n < 5:
        return ('copy', i)
    if r < 0.86 and n < 5:
        ks = list(m.nodes) if m is not None else []
        sub = rng.sample(ks, rng.randint(0, len(ks))) if ks else []
        if rng.random() < 0.1:
            sub.append(gen_key(rng, m))
        if sub and rng.random() < 0.1:
            sub.append(sub[0])
        return ('subgraph', i, sub)
    j = rng.randrange(n)
    if m is not None and j < n and len(m) + len(pool[j]) > 60:
        # keep molecules small (repeated merges double the size)
        return ('rmnodes', i, list(m.nodes)[::2], rng.random() < 0.5)
    return ('merge', i, j)


def gen_sequence(rng, length):
    """Generate ops against a live pool (generation needs the current keys)."""
    pool, ops, outs, dumps = [], [], [], []
    for _ in range(length):
        op = gen_op(rng, pool)
        ops.append(op)
        outs.append(apply(pool, op))
        dumps.append(dump_pool(pool))
    return ops, outs, dumps, pool


def replay_sequence(ops):
    pool, outs, dumps = [], [], []
    for op in ops:
        outs.append(apply(pool, op))
        dumps.append(dump_pool(pool))
    return outs, dumps, pool


def oracle(ops, outs, pool_trace):
    """The property on the real objects, independent of the model."""
    errs = []
    return errs


def check_consistency(pool):
    errs = []
    for idx, m in enumerate(pool):
        keys = set(m.nodes)
        for t, its in m.interactions.items():
            for it in its:
                for a in it.atoms:
                    if a not in keys:
                        errs.append('molecule %d: interaction %s%s mentions absent atom %r' % (idx, t, it.atoms, a))
        for u, v in m.edges:
            if u not in keys or v not in keys:
                errs.append('molecule %d: edge (%r, %r) with absent end point' % (idx, u, v))
    return errs


def run_sequence(ops):
    """Run ops on the real code with the oracle evaluated after every op.
    Returns (outs, dumps, errs)."""
    pool, outs, dumps, errs = [], [], [], []
    for step, op in enumerate(ops):
        before = [dump_mol(m) for m in pool]
        out = apply(pool, op)
        outs.append(out)
        dumps.append(dump_pool(pool))
        after = [dump_mol(m) for m in pool]
        for e in check_consistency(pool):
            errs.append('step %d %s: %s' % (step, op[0], e))
        # frame: only the target (or the appended molecule) may change
        target = None if op[0] in ('new', 'fromblock', 'copy', 'subgraph') else op[1]
        for k, b in enumerate(before):
            if k != target and after[k] != b:
                errs.append('step %d %s on molecule %s changed molecule %d' % (step, op[0], target, k))
        # theorem error_no_change: a failing operation changes nothing (add_or_replace_interaction included:
        # it can only fail in add_interaction, before the citations are touched)
        if out != 'ok' and after[:len(before)] != before:
            errs.append('step %d %s failed with %s but changed the state' % (step, op[0], out))
        # theorem merge_outcome: a merge fails only on an nrexcl mismatch, with ValueError
        if op[0] == 'merge' and out != 'badindex':
            a0, b0 = before[op[1]], before[op[2]]
            eff = b0[4] if (a0[4] is None and not a0[0]) else a0[4]
            want = 'ok' if eff == b0[4] else 'valueerror'
            if out != want:
                errs.append('step %d merge: outcome %s, expected %s' % (step, out, want))
        if op[0] == 'merge' and out == 'ok':
            i, j = op[1], op[2]
            a0, b0, a1 = before[i], before[j], after[i]
            n0, nb = len(a0[0]), len(b0[0])
            if a1[0][:n0] != a0[0]:
                errs.append('step %d merge: existing atoms changed or dropped' % step)
            new = a1[0][n0:]
            if len(new) != nb:
                errs.append('step %d merge: %d new atoms for %d merged' % (step, len(new), nb))
            else:
                oldkeys = [r[0] for r in a0[0]]
                if oldkeys and new and min(r[0] for r in new) <= max(oldkeys):
                    errs.append('step %d merge: new keys not fresh' % step)
                if len({r[0] for r in a1[0]}) != len(a1[0]):
                    errs.append('step %d merge: duplicate keys' % step)
                if n0:
                    last = max(a0[0], key=lambda r: r[0])
                    roff = last[2] if last[2] is not None else 1
                    coff = last[3] if last[3] is not None else 1
                else:
                    roff = coff = 0
                for r_old, r_new in zip(b0[0], new):
                    want = [r_old[1], (r_old[2] if r_old[2] is not None else 1) + roff, (r_old[3] if r_old[3] is not None else 1) + coff]
                    if r_new[1:] != want:
                        errs.append('step %d merge: atom %r became %r, expected %r' % (step, r_old, r_new, want))
                        break
                corr = {r_old[0]: r_new[0] for r_old, r_new in zip(b0[0], new)}
                want_e = {tuple(e) for e in a0[1]} | {(min(corr[u], corr[v]), max(corr[u], corr[v])) for u, v in b0[1] if u != v}
                if {tuple(e) for e in a1[1]} != want_e:
                    errs.append('step %d merge: bonds are not old + renamed new' % step)
                want_i = sorted(a0[2] + [[t, [corr[x] for x in ats], p, v] for t, ats, p, v in b0[2]], key=lambda r: r[0])
                if sorted(a1[2], key=lambda r: r[0]) != want_i and sorted(map(repr, a1[2])) != sorted(map(repr, want_i)):
                    errs.append('step %d merge: interactions are not old + renamed new' % step)
    return outs, dumps, errs


def load_corpus():
    import glob
    seqs = []
    for f in sorted(glob.glob(os.path.join(VERIF, 'corpus', 'c12_*.json'))):
        for ops in json.load(open(f))['sequences']:
            seqs.append([tuple(o) for o in ops])
    return seqs


sequences = []
for ops in load_corpus():
    sequences.append(ops)
rng = chk.rng('ops')
NSEQ = 2000 if chk.thorough else 300
for s in range(NSEQ):
    L = rng.choice([5, 10, 20, 40]) if not chk.thorough else rng.choice([10, 40, 100, 300])
    ops, _, _, _ = gen_sequence(rng, L)
    sequences.append(ops)

all_lines = []
per_seq = []
for ops in sequences:
    outs, dumps, errs = run_sequence(ops)
    lines = ['x' + 'reset'.encode().hex()] + [op_line(op) for op in ops]
    per_seq.append((ops, outs, dumps, errs, len(all_lines), len(lines)))
    all_lines.extend(lines)
models = chk.drv.ask(all_lines) if chk.lean_ok else [None] * len(all_lines)
for si, (ops, outs, dumps, errs, start, n) in enumerate(per_seq):
    impl = '\n'.join(o + ' ' + d for o, d in zip(outs, dumps))
    mo = None
    if models[start] is not None:
        mo = '\n'.join(models[start + 1:start + n])
        if impl != mo:
            # point at the first differing step
            for k, (a, b) in enumerate(zip(impl.split('\n'), mo.split('\n'))):
                if a != b:
                    impl, mo = 'step %d %r: %s' % (k, ops[k][0], a), 'step %d %r: %s' % (k, ops[k][0], b)
                    break
    kinds = {o[0] for o in ops}
    for o, out in zip(ops, outs):
        chk.count('op_' + o[0])
        chk.count('outcome_' + out)
    nontriv = bool(kinds & {'rmnode', 'rmnodes', 'merge'}) and bool(kinds & {'addinter', 'addorrep', 'fromblock'})
    chk.case('seq-%d' % si, [op_line(o) for o in ops],
             impl if impl != mo else 'agree(%d steps)' % len(ops), mo if impl != mo else 'agree(%d steps)' % len(ops),
             errs[:3], nontriv)
chk.finish()
