#!/venv/bin/python
"""C12 - editing a molecule keeps atoms, bonds and interactions consistent.
Model: lean/VermouthModel/C12.lean (pool state machine); theorems: lean/VermouthProps/C12.lean.
Correspondence: random op sequences on a pool of real Molecule objects, the observable state of EVERY
pool member is compared with the model after every op (so aliasing between a copy/subgraph and its
source shows up), the cached max_node is never compared."""
from common import *

chk = Check('C12')
chk.extra['rule'] = ('op sequences over a pool of real Molecule objects with arbitrary integer keys (sparse, negative, '
                     're-added) and up to 3 real System objects that REFER to pool members (add_molecule, System.copy, '
                     'MergeAllMolecules, MergeChains; remove_matching_interaction and prune_edges_* among the molecule ops); '
                     'after every op the whole pool and the molecule lists of all systems are dumped and compared with the model; '
                     'a sequence is non-trivial if it contains >= 1 removal or merge and >= 1 interaction; distinct = distinct op '
                     'sequence; add_edges_at_distance is checked by the oracle only (cases edge-dist-*)')
chk.lean(['VermouthProps.C12'], 'driver_c12')

import networkx as nx
import numpy as np
from vermouth.molecule import Molecule, Block, Interaction, DeleteInteraction
from vermouth.system import System
from vermouth.processors.merge_all_molecules import MergeAllMolecules
from vermouth.processors.merge_chains import MergeChains
from vermouth import edge_tuning

TYPES = ['bonds', 'angles', 'constraints']
CITES = ['paperA', 'paperB', 'paperC']


def dump_mol(m):
    nodes = [[k, d.get('atomname'), d.get('resid'), d.get('charge_group'), d.get('chain')] for k, d in m.nodes(data=True)]
    edges = sorted({(min(u, v), max(u, v)) for u, v in m.edges})
    inters = []
    for t in sorted(m.interactions):
        for i in m.interactions[t]:
            inters.append([t, list(i.atoms), i.parameters[0], i.meta.get('version', 0)])
    return [nodes, [list(e) for e in edges], inters, sorted(m.citations), m.nrexcl]


def dump_systems(pool, systems):
    ids = {id(m): k for k, m in enumerate(pool)}
    return [[ids[id(m)] for m in s.molecules] for s in systems]


def dump_pool(pool, systems=()):
    return enc([dump_mol(m) for m in pool]) + ' ' + enc(dump_systems(pool, systems))


def adopt(pool, systems):
    """molecules created by a system operation (copies, the merged molecule) join the pool"""
    ids = {id(m) for m in pool}
    for s in systems:
        for m in s.molecules:
            if id(m) not in ids:
                ids.add(id(m))
                pool.append(m)


def attrs_kw(name, resid, cg, chain=None):
    kw = {}
    if chain is not None:
        kw['chain'] = chain
    if name is not None:
        kw['atomname'] = name
    if resid is not None:
        kw['resid'] = resid
    if cg is not None:
        kw['charge_group'] = cg
    return kw


def apply_sys(pool, systems, op):
    kind = op[0]
    if kind == 'newsys':
        systems.append(System())
        return 'ok'
    s = op[1]
    if s >= len(systems):
        return 'badindex'
    system = systems[s]
    if kind == 'addmol':
        if op[2] >= len(pool):
            return 'badindex'
        system.add_molecule(pool[op[2]])
    elif kind == 'copysys':
        systems.append(system.copy())
    elif kind == 'mergeall':
        mols = system.molecules
        if mols and any(m is mols[0] for m in mols[1:]):
            return 'badindex'          # merging an object into itself is outside the model
        try:
            MergeAllMolecules().run_system(system)
        except ValueError:
            return 'valueerror'
    elif kind == 'mergechains':
        try:
            MergeChains(chains=list(op[2]), all_chains=bool(op[3])).run_system(system)
        except ValueError:
            return 'valueerror'
    else:
        raise AssertionError(kind)
    adopt(pool, systems)
    return 'ok'


SYS_OPS = ('newsys', 'addmol', 'copysys', 'mergeall', 'mergechains')
SYS_RATE = 0.12


def apply(pool, op, systems=None):
    """Apply one op to the real pool; return outcome string.  An exception the API does not document
    for the operation (the model never produces it) is an outcome of its own, never a harness crash."""
    try:
        return _apply(pool, op, systems)
    except Exception as e:  # noqa
        return 'crash:%s' % type(e).__name__


def _apply(pool, op, systems=None):
    kind = op[0]
    if kind in SYS_OPS:
        return apply_sys(pool, systems, op)
    try:
        if kind == 'new':
            m = Molecule(nrexcl=op[1])
            m.citations = set()
            pool.append(m)
        elif kind == 'fromblock':
            _, nodes, edges, inters, cites, nrexcl, ao, ro, co = op
            b = Block(nrexcl=nrexcl)
            b.name = 'BLK'
            b.citations = set(cites)
            for n, *at in nodes:
                b.add_node(n, **attrs_kw(*at))
            for ty, ats, pr, v in inters:
                b.interactions[ty].append(Interaction(atoms=tuple(ats), parameters=[pr], meta={'version': v} if v else {}))
            for u, v in edges:
                nx.Graph.add_edge(b, u, v)
            try:
                mol = b.to_molecule(atom_offset=ao, offset_resid=ro, offset_charge_group=co, default_attributes={})
            except KeyError:
                return 'keyerror'
            pool.append(mol)
        else:
            i = op[1]
            if i >= len(pool):
                return 'badindex'
            m = pool[i]
            if kind == 'addnode':
                m.add_node(op[2], **attrs_kw(*op[3:]))
            elif kind == 'addnodes':
                m.add_nodes_from([(k, attrs_kw(*at)) for k, *at in op[2]])
            elif kind == 'rmnode':
                try:
                    m.remove_node(op[2])
                except nx.NetworkXError:
                    return 'nxerror'
            elif kind == 'rmnodes':
                # a one-shot iterator half of the time (see F-C12-2)
                ks = op[2]
                m.remove_nodes_from(iter(ks) if op[3] else list(ks))
            elif kind == 'addedge':
                m.add_edge(op[2], op[3])
            elif kind == 'addinter':
                m.add_interaction(op[2], tuple(op[3]), [op[4]], meta={'version': op[5]} if op[5] else {})
            elif kind == 'addorrep':
                m.add_or_replace_interaction(op[2], tuple(op[3]), [op[4]], meta={'version': op[5]} if op[5] else {},
                                             citations=set(op[6]))
            elif kind == 'rminter':
                m.remove_interaction(op[2], tuple(op[3]), version=op[4])
            elif kind == 'rmmatch':
                _, _, ty, ats, pr, v, aa = op
                meta = {'version': v} if v is not None else {}
                params = [pr] if pr is not None else []
                if aa is None:
                    tmpl = Interaction(atoms=tuple(ats), parameters=params, meta=meta)
                else:
                    tmpl = DeleteInteraction(atoms=tuple(ats), atom_attrs=[attrs_kw(*a) for a in aa],
                                             parameters=params, meta=meta)
                m.remove_matching_interaction(ty, tmpl)
            elif kind == 'prune':
                edge_tuning.prune_edges_between_selections(m, list(op[2]), list(op[3]))
            elif kind == 'prunesel':
                sel_a = (lambda d, n=op[2]: d.get('atomname') == n)
                sel_b = None if op[3] is None else (lambda d, n=op[3][0]: d.get('atomname') == n)
                edge_tuning.prune_edges_with_selectors(m, sel_a, sel_b)
            elif kind == 'copy':
                pool.append(m.copy())
            elif kind == 'subgraph':
                pool.append(m.subgraph(list(op[2])))
            elif kind == 'merge':
                j = op[2]
                if j >= len(pool) or i == j:
                    return 'badindex'
                m.merge_molecule(pool[j])
            else:
                raise AssertionError(kind)
    except KeyError:
        return 'keyerror'
    except ValueError:
        return 'valueerror'
    return 'ok'


def op_line(op):
    kind = op[0]
    if kind == 'rmnodes':
        return line('rmnodes', op[1], op[2])
    if kind == 'fromblock':
        _, nodes, edges, inters, cites, nrexcl, ao, ro, co = op
        return line('fromblock', [list(n) for n in nodes], [list(e) for e in edges],
                    [[ty, list(ats), pr, v] for ty, ats, pr, v in inters], cites, nrexcl, ao, ro, co)
    return line(*op)


def gen_key(rng, m):
    ks = list(m.nodes) if m is not None else []
    r = rng.random()
    if ks and r < 0.55:
        return rng.choice(ks)
    if ks and r < 0.75:
        return max(ks) + rng.choice([1, 1, 2, 7])
    return rng.choice([-3, -1, 0, 1, 2, 3, 5, 8, 13, 40, 100])


def gen_attrs(rng):
    # 0 and negative residue numbers / charge groups are legal and falsy values must not be taken for "absent"
    return [rng.choice([None, 'A', 'B', 'CA', 'N', '']), rng.choice([None, 1, 2, 5, 9, 0, -1]), rng.choice([None, 1, 2, 3, 7, 0, -2]),
            rng.choice([None, None, 'A', 'A', 'B', ''])]


def gen_template_attrs(rng, m, atoms):
    """per-atom attribute templates of a DeleteInteraction: mostly what the atoms have, sometimes something else"""
    out = []
    for a in atoms:
        d = m.nodes[a] if (m is not None and a in m.nodes) else {}
        t = [None, None, None, None]
        for pos, key in enumerate(['atomname', 'resid', 'charge_group', 'chain']):
            r = rng.random()
            if r < 0.30 and d.get(key) is not None:
                t[pos] = d[key]
            elif r < 0.33:
                t[pos] = gen_attrs(rng)[pos]
        out.append(t)
    if atoms and rng.random() < 0.15:
        out.pop()            # zip() stops at the shorter list
    return out


def gen_sys_op(rng, pool, systems):
    ns, n = len(systems), len(pool)
    if ns == 0 or (ns < 3 and rng.random() < 0.07):
        return ('newsys',)
    s = rng.randrange(ns) if rng.random() < 0.95 else ns + 1
    r = rng.random()
    if s < ns and len(systems[s].molecules) < rng.choice([1, 2, 3, 4]) and rng.random() < 0.8:
        r = 0.0              # fill the system first
    if r < 0.30:
        # prefer molecules that are not yet in the system (an object merged into itself is outside the model)
        cand = [k for k in range(n) if s >= ns or all(pool[k] is not m for m in systems[s].molecules)]
        if cand and rng.random() < 0.9:
            return ('addmol', s, rng.choice(cand))
        return ('addmol', s, rng.randrange(n + 1))
    if r < 0.42 and n < 9:
        return ('copysys', s)
    if r < 0.68 or n >= 12:          # every successful MergeChains adds a molecule: keep the pool small
        return ('mergeall', s)
    rr = rng.random()
    if rr < 0.3:
        return ('mergechains', s, [], True)
    if rr < 0.9:
        return ('mergechains', s, rng.sample([None, 'A', 'B', '', 'Z'], rng.randint(1, 3)), False)
    return ('mergechains', s, rng.choice([[], ['A']]), rng.choice([False, True]))


def gen_op(rng, pool, systems=None):
    n = len(pool)
    if systems is not None and n > 0 and rng.random() < SYS_RATE:
        return gen_sys_op(rng, pool, systems)
    if n == 0 or (n < 5 and rng.random() < 0.08):
        if rng.random() < 0.4:
            names = rng.sample(['N', 'CA', 'C', 'O', 'CB', 'X'], rng.randint(0, 4))
            nodes = [[nm] + gen_attrs(rng) for nm in names]
            pick = lambda: rng.choice(names + ['ZZ']) if rng.random() < 0.07 else rng.choice(names)
            edges = [[rng.choice(names), rng.choice(names)] for _ in range(rng.randint(0, 3))] if names else []
            inters = [[rng.choice(TYPES), [pick() for _ in range(rng.randint(1, 3))], rng.choice(['p', 'q']), rng.choice([0, 0, 1])]
                      for _ in range(rng.randint(0, 3))] if names else []
            return ('fromblock', nodes, edges, inters, rng.sample(CITES, rng.randint(0, 2)), rng.choice([1, 1, 1, 3]),
                    rng.choice([0, 1, 5]), rng.choice([0, 2]), rng.choice([0, 3]))
        return ('new', rng.choice([None, 1, 1, 1, 3]))
    i = rng.randrange(n) if rng.random() < 0.95 else n + 1
    m = pool[i] if i < n else None
    r = rng.random()
    if r < 0.14:
        return ('addnode', i, gen_key(rng, m)) + tuple(gen_attrs(rng))
    if r < 0.22:
        return ('addnodes', i, [[gen_key(rng, m)] + gen_attrs(rng) for _ in range(rng.randint(0, 4))])
    if r < 0.30:
        return ('rmnode', i, gen_key(rng, m))
    if r < 0.37:
        return ('rmnodes', i, [gen_key(rng, m) for _ in range(rng.randint(0, 3))], rng.random() < 0.5)
    if r < 0.45:
        return ('addedge', i, gen_key(rng, m), gen_key(rng, m))
    if r < 0.60:
        if m is not None and rng.random() < 0.2:
            # the same atoms again with other parameters / version: several candidates for remove_matching_interaction
            ex = [(t, x) for t in m.interactions for x in m.interactions[t]]
            if ex:
                t, x = rng.choice(ex)
                return ('addinter', i, t, list(x.atoms), rng.choice(['p', 'q', 'r']), rng.choice([0, 0, 1, 2]))
        return ('addinter', i, rng.choice(TYPES), [gen_key(rng, m) for _ in range(rng.randint(1, 3))], rng.choice(['p', 'q', 'r']), rng.choice([0, 0, 1]))
    if r < 0.68:
        return ('addorrep', i, rng.choice(TYPES), [gen_key(rng, m) for _ in range(rng.randint(1, 3))], rng.choice(['p', 'q', 'r']), rng.choice([0, 0, 1]),
                rng.sample(CITES, rng.randint(0, 2)))
    if r < 0.75:
        its = [(t, x) for t in m.interactions for x in m.interactions[t]] if m is not None else []
        if rng.random() < (0.55 if its else 0.1):
            # remove_matching_interaction: template from an existing interaction, loosened or spoiled
            if its and rng.random() < 0.9:
                t, x = rng.choice(its)
                atoms, pr, v = list(x.atoms), x.parameters[0], x.meta.get('version')
            else:
                t, atoms, pr, v = rng.choice(TYPES), [gen_key(rng, m) for _ in range(rng.randint(1, 2))], 'p', None
            pr = rng.choice([None, None, pr, pr, pr, 'zz'])
            # the harness stores version 0 as "no version key", so a template never asks for version 0
            v = rng.choice([None, None, None, v, v, 2]) or None
            aa = gen_template_attrs(rng, m, atoms) if rng.random() < 0.4 else None
            return ('rmmatch', i, t, atoms, pr, v, aa)
        if its and rng.random() < 0.7:
            t, x = rng.choice(its)
            return ('rminter', i, t, list(x.atoms), x.meta.get('version', 0))
        return ('rminter', i, rng.choice(TYPES), [gen_key(rng, m)], 0)
    if r < 0.78:
        if rng.random() < 0.5:
            return ('prune', i, [gen_key(rng, m) for _ in range(rng.randint(0, 3))], [gen_key(rng, m) for _ in range(rng.randint(0, 3))])
        return ('prunesel', i, rng.choice(['A', 'B', 'CA', 'N', '']), rng.choice([None, None, ['A'], ['N'], ['']]))
    if r < 0.82 and n < 5:
        return ('copy', i)
    if r < 0.87 and n < 5:
        ks = list(m.nodes) if m is not None else []
        sub = rng.sample(ks, rng.randint(0, len(ks))) if ks else []
        if rng.random() < 0.1:
            sub.append(gen_key(rng, m))
        if sub and rng.random() < 0.1:
            sub.append(sub[0])
        return ('subgraph', i, sub)
    j = rng.randrange(n)
    if m is not None and j < n and len(m) + len(pool[j]) > 60:
        # keep molecules small (repeated merges double the size)
        return ('rmnodes', i, list(m.nodes)[::2], rng.random() < 0.5)
    return ('merge', i, j)


def gen_sequence(rng, length):
    """Generate ops against a live pool (generation needs the current keys)."""
    pool, systems, ops, outs, dumps = [], [], [], [], []
    for _ in range(length):
        op = gen_op(rng, pool, systems)
        ops.append(op)
        outs.append(apply(pool, op, systems))
        dumps.append(dump_pool(pool, systems))
    return ops, outs, dumps, pool


def replay_sequence(ops):
    pool, systems, outs, dumps = [], [], [], []
    for op in ops:
        outs.append(apply(pool, op, systems))
        dumps.append(dump_pool(pool, systems))
    return outs, dumps, pool


def oracle(ops, outs, pool_trace):
    """The property on the real objects, independent of the model."""
    errs = []
    return errs


def check_consistency(pool):
    errs = []
    for idx, m in enumerate(pool):
        keys = set(m.nodes)
        for t, its in m.interactions.items():
            for it in its:
                for a in it.atoms:
                    if a not in keys:
                        errs.append('molecule %d: interaction %s%s mentions absent atom %r' % (idx, t, it.atoms, a))
        for u, v in m.edges:
            if u not in keys or v not in keys:
                errs.append('molecule %d: edge (%r, %r) with absent end point' % (idx, u, v))
    return errs


def merged_expectation(acc, operands):
    """Independent statement of merge_all_keeps on dumps: what `acc` must look like after the operands were
    merged into it one after the other.  Returns (nodes, edge set, interactions as sorted reprs)."""
    nodes = [list(r) for r in acc[0]]
    edges = {tuple(e) for e in acc[1]}
    inters = [list(x) for x in acc[2]]
    for b in operands:
        if nodes:
            last = max(nodes, key=lambda r: r[0])
            off, roff, coff = last[0], (last[2] if last[2] is not None else 1), (last[3] if last[3] is not None else 1)
        else:
            off = roff = coff = 0
        corr = {}
        for i, r in enumerate(b[0]):
            corr[r[0]] = off + 1 + i
            nodes.append([off + 1 + i, r[1], (r[2] if r[2] is not None else 1) + roff, (r[3] if r[3] is not None else 1) + coff, r[4]])
        edges |= {(min(corr[u], corr[v]), max(corr[u], corr[v])) for u, v in b[1] if u != v}
        inters += [[t, [corr[x] for x in ats], p, v] for t, ats, p, v in b[2]]
    return nodes, edges, sorted(map(repr, inters))


def system_oracle(op, out, before, after, sys_before, sys_after):
    errs = []
    kind = op[0]
    if kind == 'newsys':
        if sys_after != sys_before + [[]] or after != before:
            errs.append('newsys did more than append an empty system')
        return errs
    s = op[1]
    if s >= len(sys_before):
        return errs
    idxs = sys_before[s]
    if kind == 'mergeall':
        chk.count('mergeall_%s_operands_%s' % (out, min(len(idxs), 4)))
    if kind == 'mergechains' and out != 'badindex':
        allc, chains = bool(op[3]), list(op[2])
        if not ((allc and chains) or (not allc and not chains)):
            nsel = sum(1 for k in idxs if allc or all(r[4] in chains for r in before[k][0]))
            chk.count('mergechains_%s_selected_%s_of_%s' % (out, 'none' if nsel == 0 else 'all' if nsel == len(idxs) else 'one' if nsel == 1 else 'some',
                                                            min(len(idxs), 4)))
        else:
            chk.count('mergechains_%s_badargs' % out)
    if kind == 'addmol' and out == 'ok':
        if sys_after[s] != idxs + [op[2]] or after != before:
            errs.append('add_molecule did more than append the reference')
    elif kind == 'copysys' and out == 'ok':
        new = sys_after[-1]
        if len(sys_after) != len(sys_before) + 1 or new != list(range(len(before), len(before) + len(idxs))):
            errs.append('System.copy: the molecules of the copy are not new objects (indices %r)' % (new,))
        elif [after[k] for k in new] != [before[k] for k in idxs]:
            errs.append('System.copy: a copied molecule differs from its source')
    elif kind == 'mergeall' and out == 'ok' and idxs:
        if sys_after[s] != [idxs[0]]:
            errs.append('MergeAllMolecules: the system does not hold exactly the first molecule afterwards')
        nodes, edges, inters = merged_expectation(before[idxs[0]], [before[k] for k in idxs[1:]])
        got = after[idxs[0]]
        if got[0] != nodes:
            errs.append('MergeAllMolecules: atoms are not those of all operands in order, renumbered and shifted uniformly')
        if len({r[0] for r in got[0]}) != len(got[0]) or len(got[0]) != sum(len(before[k][0]) for k in idxs):
            errs.append('MergeAllMolecules: an atom is missing, duplicated or overwritten')
        if {tuple(e) for e in got[1]} != edges:
            errs.append('MergeAllMolecules: bonds are not those of all operands')
        if sorted(map(repr, got[2])) != inters:
            errs.append('MergeAllMolecules: interactions are not those of all operands')
    elif kind == 'mergeall' and out == 'valueerror':
        eff = None
        # a failure needs two operands whose nrexcl differ
        if len({before[k][4] for k in idxs}) < 2:
            errs.append('MergeAllMolecules: ValueError although all nrexcl agree')
    elif kind == 'mergechains':
        chains, allc = list(op[2]), bool(op[3])
        if (allc and chains) or (not allc and not chains):
            if out != 'valueerror':
                errs.append('MergeChains: chains and all_chains both/neither given but outcome %s' % out)
            return errs
        sel = [allc or all(r[4] in chains for r in before[k][0]) for k in idxs]
        chosen = [k for k, f in zip(idxs, sel) if f]
        if out == 'ok' and not chosen:
            if sys_after[s] != idxs or len(after) != len(before):
                errs.append('MergeChains: nothing selected but the system changed')
        elif out == 'ok':
            n = len(before)
            want, done = [], False
            for k, f in zip(idxs, sel):
                if not f:
                    want.append(k)
                elif not done:
                    want.append(n)
                    done = True
            if len(after) != n + 1 or sys_after[s] != want:
                errs.append('MergeChains: molecule list %r, expected %r' % (sys_after[s], want))
            else:
                nodes, edges, inters = merged_expectation([[], [], [], [], None], [before[k] for k in chosen])
                got = after[n]
                if got[0] != nodes or {tuple(e) for e in got[1]} != edges or sorted(map(repr, got[2])) != inters:
                    errs.append('MergeChains: the merged molecule is not the selected molecules in order, renumbered and shifted uniformly')
                if set(got[3]) != {'vermouth'}.union(*[set(before[k][3]) for k in chosen]):
                    errs.append('MergeChains: citations of the merged molecule')
        elif out == 'valueerror' and len({before[k][4] for k in chosen}) < 2:
            errs.append('MergeChains: ValueError although all selected nrexcl agree')
    return errs


def run_sequence(ops):
    """Run ops on the real code with the oracle evaluated after every op.
    Returns (outs, dumps, errs)."""
    pool, systems, outs, dumps, errs = [], [], [], [], []
    for step, op in enumerate(ops):
        before = [dump_mol(m) for m in pool]
        sys_before = dump_systems(pool, systems)
        out = apply(pool, op, systems)
        outs.append(out)
        dumps.append(dump_pool(pool, systems))
        after = [dump_mol(m) for m in pool]
        sys_after = dump_systems(pool, systems)
        for e in check_consistency(pool):
            errs.append('step %d %s: %s' % (step, op[0], e))
        for k, (b, a) in enumerate(zip(before, after)):
            if [r[0] for r in a[0]] != [r[0] for r in b[0]] and op[0] in ('prune', 'prunesel', 'rmmatch', 'addinter', 'addorrep', 'rminter'):
                errs.append('step %d %s changed the atoms of molecule %d' % (step, op[0], k))
        # frame: only the target (or the appended molecule) may change
        if op[0] in ('new', 'fromblock', 'copy', 'subgraph', 'newsys', 'addmol', 'copysys', 'mergechains'):
            target = None
        elif op[0] == 'mergeall':
            target = sys_before[op[1]][0] if op[1] < len(sys_before) and sys_before[op[1]] else None
        else:
            target = op[1]
        if out.startswith('crash:'):
            errs.append('step %d %s raised an undocumented %s' % (step, op[0], out[6:]))
        for k, b in enumerate(before):
            if k != target and after[k] != b:
                errs.append('step %d %s on molecule %s changed molecule %d' % (step, op[0], target, k))
        # theorem error_no_change / sstep_err: a failing operation changes nothing (add_or_replace_interaction
        # included: it can only fail in add_interaction, before the citations are touched).  The one exception is
        # MergeAllMolecules, which has merged the operands before the mismatching one into the first molecule.
        if out != 'ok' and op[0] != 'mergeall' and (after[:len(before)] != before or len(after) != len(before)):
            errs.append('step %d %s failed with %s but changed the state' % (step, op[0], out))
        if out != 'ok' and sys_after != sys_before:
            errs.append('step %d %s failed with %s but changed a system' % (step, op[0], out))
        if op[0] in SYS_OPS:
            for k, (sb, sa) in enumerate(zip(sys_before, sys_after)):
                if sb != sa and not (op[0] in ('addmol', 'mergeall', 'mergechains') and k == op[1]):
                    errs.append('step %d %s changed system %d' % (step, op[0], k))
            errs.extend('step %d %s: %s' % (step, op[0], e)
                        for e in system_oracle(op, out, before, after, sys_before, sys_after))
        elif sys_after != sys_before:
            errs.append('step %d %s changed the systems' % (step, op[0]))
        if op[0] == 'rmmatch':
            b, a = (before[op[1]], after[op[1]]) if op[1] < len(before) else (None, None)
            if b is not None:
                chk.count('rmmatch_%s_%s' % (out, 'delete_interaction' if op[6] is not None else 'interaction'))
                if out == 'ok' and (len(a[2]) != len(b[2]) - 1 or any(x not in b[2] for x in a[2]) or a[:2] + a[3:] != b[:2] + b[3:]):
                    errs.append('step %d rmmatch: did not remove exactly one interaction and nothing else' % step)
                if out == 'ok':
                    gone = [x for k, x in enumerate(b[2]) if b[2].count(x) != a[2].count(x) and x not in b[2][:k]]
                    if len(gone) != 1 or gone[0][0] != op[2] or gone[0][1] != list(op[3]) or (op[4] is not None and gone[0][2] != op[4]) \
                            or (op[5] is not None and gone[0][3] != op[5]):
                        errs.append('step %d rmmatch: removed %r, which does not match the template' % (step, gone))
                # the FIRST interaction of the type that matches the template goes, nothing else
                rows = {r[0]: r for r in b[0]}

                def tmatch(x):
                    if x[0] != op[2] or x[1] != list(op[3]) or (op[4] is not None and x[2] != op[4]) or (op[5] is not None and x[3] != op[5]):
                        return False
                    for atom, t in zip(x[1], op[6] or []):
                        if atom not in rows:      # dangling interaction (reported by the presence clause)
                            return False
                        if any(val is not None and rows[atom][1 + pos] != val for pos, val in enumerate(t)):
                            return False
                    return True
                hits = [k for k, x in enumerate(b[2]) if tmatch(x)]
                if out == 'valueerror' and hits:
                    errs.append('step %d rmmatch: ValueError although %r matches' % (step, b[2][hits[0]]))
                if out == 'ok' and (not hits or a[2] != b[2][:hits[0]] + b[2][hits[0] + 1:]):
                    errs.append('step %d rmmatch: the first matching interaction (%s) is not the one that was removed'
                                % (step, b[2][hits[0]] if hits else None))
        # theorem merge_outcome: a merge fails only on an nrexcl mismatch, with ValueError
        if op[0] == 'merge' and out != 'badindex':
            a0, b0 = before[op[1]], before[op[2]]
            eff = b0[4] if (a0[4] is None and not a0[0]) else a0[4]
            want = 'ok' if eff == b0[4] else 'valueerror'
            if out != want:
                errs.append('step %d merge: outcome %s, expected %s' % (step, out, want))
        if op[0] == 'merge' and out == 'ok':
            i, j = op[1], op[2]
            a0, b0, a1 = before[i], before[j], after[i]
            n0, nb = len(a0[0]), len(b0[0])
            if a1[0][:n0] != a0[0]:
                errs.append('step %d merge: existing atoms changed or dropped' % step)
            new = a1[0][n0:]
            if len(new) != nb:
                errs.append('step %d merge: %d new atoms for %d merged' % (step, len(new), nb))
            else:
                oldkeys = [r[0] for r in a0[0]]
                if oldkeys and new and min(r[0] for r in new) <= max(oldkeys):
                    errs.append('step %d merge: new keys not fresh' % step)
                if len({r[0] for r in a1[0]}) != len(a1[0]):
                    errs.append('step %d merge: duplicate keys' % step)
                if n0:
                    last = max(a0[0], key=lambda r: r[0])
                    roff = last[2] if last[2] is not None else 1
                    coff = last[3] if last[3] is not None else 1
                else:
                    roff = coff = 0
                for r_old, r_new in zip(b0[0], new):
                    want = [r_old[1], (r_old[2] if r_old[2] is not None else 1) + roff, (r_old[3] if r_old[3] is not None else 1) + coff, r_old[4]]
                    if r_new[1:] != want:
                        errs.append('step %d merge: atom %r became %r, expected %r' % (step, r_old, r_new, want))
                        break
                corr = {r_old[0]: r_new[0] for r_old, r_new in zip(b0[0], new)}
                want_e = {tuple(e) for e in a0[1]} | {(min(corr[u], corr[v]), max(corr[u], corr[v])) for u, v in b0[1] if u != v}
                if {tuple(e) for e in a1[1]} != want_e:
                    errs.append('step %d merge: bonds are not old + renamed new' % step)
                want_i = sorted(a0[2] + [[t, [corr[x] for x in ats], p, v] for t, ats, p, v in b0[2]], key=lambda r: r[0])
                if sorted(a1[2], key=lambda r: r[0]) != want_i and sorted(map(repr, a1[2])) != sorted(map(repr, want_i)):
                    errs.append('step %d merge: interactions are not old + renamed new' % step)
    return outs, dumps, errs


def load_corpus():
    import glob
    seqs = []
    for f in sorted(glob.glob(os.path.join(VERIF, 'corpus', 'c12_*.json'))):
        for ops in json.load(open(f))['sequences']:
            seqs.append([tuple(o) for o in ops])
    return seqs


sequences = []
for ops in load_corpus():
    sequences.append(ops)
rng = chk.rng('ops')
NSEQ = 2000 if chk.thorough else 500
for s in range(NSEQ):
    L = rng.choice([5, 10, 20, 40]) if not chk.thorough else rng.choice([10, 40, 100, 300])
    SYS_RATE = rng.choice([0.0, 0.1, 0.3])          # a third of the histories are system-heavy
    ops, _, _, _ = gen_sequence(rng, L)
    sequences.append(ops)

all_lines = []
per_seq = []
for ops in sequences:
    outs, dumps, errs = run_sequence(ops)
    lines = ['x' + 'reset'.encode().hex()] + [op_line(op) for op in ops]
    per_seq.append((ops, outs, dumps, errs, len(all_lines), len(lines)))
    all_lines.extend(lines)
models = chk.drv.ask(all_lines) if chk.lean_ok else [None] * len(all_lines)
for si, (ops, outs, dumps, errs, start, n) in enumerate(per_seq):
    impl = '\n'.join(o + ' ' + d for o, d in zip(outs, dumps))
    mo = None
    if models[start] is not None:
        mo = '\n'.join(models[start + 1:start + n])
        if impl != mo:
            # point at the first differing step
            for k, (a, b) in enumerate(zip(impl.split('\n'), mo.split('\n'))):
                if a != b:
                    impl, mo = 'step %d %r: %s' % (k, ops[k][0], a), 'step %d %r: %s' % (k, ops[k][0], b)
                    break
    kinds = {o[0] for o in ops}
    for o, out in zip(ops, outs):
        chk.count('op_' + o[0])
        chk.count('outcome_' + out)
    nontriv = bool(kinds & {'rmnode', 'rmnodes', 'merge', 'mergeall', 'mergechains'}) and bool(kinds & {'addinter', 'addorrep', 'fromblock'})
    chk.case('seq-%d' % si, [op_line(o) for o in ops],
             impl if impl != mo else 'agree(%d steps)' % len(ops), mo if impl != mo else 'agree(%d steps)' % len(ops),
             errs[:3], nontriv)

# ---- edge_tuning.add_edges_at_distance: oracle only (positions are not part of the model) ----------------------
# integer grid positions and thresholds k + 0.5, so every distance is far from the threshold and the expectation
# can be computed exactly on squared integers
erng = chk.rng('edge-dist')
for ci in range(600 if chk.thorough else 80):
    m = Molecule(nrexcl=1)
    keys = erng.sample(range(-4, 12), erng.randint(0 if erng.random() < 0.1 else 2, 7))
    pos = {}
    for k in keys:
        kw = attrs_kw(*gen_attrs(erng))
        if erng.random() < 0.93:
            pos[k] = [erng.randint(0, 3) for _ in range(3)]
            kw['position'] = np.array(pos[k], dtype=float)
        m.add_node(k, **kw)
    for _ in range(erng.randint(0, 4)):
        if len(keys) >= 2:
            m.add_edge(*erng.sample(keys, 2))
    for _ in range(erng.randint(0, 3)):
        if keys:
            m.add_interaction('bonds', tuple(erng.choice(keys) for _ in range(2)), ['p'])
    pick = lambda: [erng.choice(keys + [99]) if erng.random() < 0.9 else 77 for _ in range(erng.randint(0 if erng.random() < 0.15 else 1, 4))] if keys else []
    sel_a, sel_b = pick(), pick()
    thr2x4 = erng.choice([1, 9, 25])                       # (2 * threshold)^2 for thresholds 0.5, 1.5, 2.5
    before = dump_mol(m)
    try:
        edge_tuning.add_edges_at_distance(m, (thr2x4 ** 0.5) / 2, sel_a, sel_b)
        out = 'ok'
    except KeyError:
        out = 'keyerror'
    except ValueError:
        out = 'valueerror'                                 # np.stack of an empty selection
    after = dump_mol(m)
    chk.count('edge_dist_' + out)
    errs = ['add_edges_at_distance: ' + e for e in check_consistency([m])]
    if after[0] != before[0]:
        errs.append('add_edges_at_distance changed or dropped atoms')
    if after[2:] != before[2:]:
        errs.append('add_edges_at_distance changed interactions, citations or nrexcl')
    old_e, new_e = {tuple(e) for e in before[1]}, {tuple(e) for e in after[1]}
    if not old_e <= new_e:
        errs.append('add_edges_at_distance dropped a bond')
    if out != 'ok' and new_e != old_e:
        errs.append('add_edges_at_distance failed with %s but changed the bonds' % out)
    A, B = set(sel_a) & set(keys), set(sel_b) & set(keys)
    for u, v in new_e - old_e:
        if not ((u in A and v in B) or (v in A and u in B)):
            errs.append('add_edges_at_distance: new bond (%r, %r) is not between the selections' % (u, v))
    if out == 'ok':
        for u in A:
            for v in B:
                d2x4 = 4 * sum((x - y) ** 2 for x, y in zip(pos[u], pos[v]))
                if u != v and (d2x4 < thr2x4) != ((min(u, v), max(u, v)) in new_e) and (min(u, v), max(u, v)) not in old_e:
                    errs.append('add_edges_at_distance: pair (%r, %r) at squared distance %s/4, threshold^2 %s/4' % (u, v, d2x4, thr2x4))
    chk.case('edge-dist-%d' % ci, line('adddist', keys, [pos.get(k) for k in keys], sel_a, sel_b, thr2x4),
             out + ' ' + enc(after[1]), None, errs[:3], bool(new_e - old_e))
chk.finish()
