"""C05, TEXT stream: links as they are WRITTEN in a force-field file.

"Every link of the force field" - force fields are files.  What the .ff reader does to a link's
conditions (link-wide attributes merged into atoms / non-edge partners, order prefixes turned into
`order` attributes, "A|B" choices, `!` sections, #meta, macros, edges implied by interactions) sits
between the text and the Link objects the other streams build through the Python API.

A case is ONE force-field text with 1-4 `[ link ]` sections, generated from an abstract description
of what every link DECLARES (class Sem: atoms with their full conditions, required bonds, non-edges with
the partner's conditions, patterns, molecule conditions, interactions with meta, removal templates) and a
molecule the links are derived from.  Three things are produced from the description:

  text    rendered with free choices that must not matter: which conditions are written once for the whole
          link and which on the atoms, prefix / explicit order, [ atoms ] / first mention, #meta / line meta,
          [ edges ] / implied by a bond, macros
  items   the same lines, parsed (a list per link: wide attributes + lines in file order) -> Lean `buildLink`
          (VermouthModel/C05_Text.lean: effectiveAttrs, treatAttrs, conflict rule, implied edges) -> the
          existing model of DoLinks
  decl    Link objects built through the Python API from the DESCRIPTION (not from the text) -> the
          independent oracles of harness/c05.py: a placement gets the link's interactions iff it satisfies
          the declared conditions (brute force on the molecule as it is when the link starts), ...

The REAL side is read_ff on the text into a real ForceField and DoLinks.run_molecule on the molecule.
A component stream calls the reader's functions for one line directly (one attribute dictionary written
on a line + link-wide attributes -> what the atom / non-edge partner / pattern atom / removal template
carries) and compares with `effectiveAttrs` and with the stated precedence rule.
"""
import collections
import itertools
import json

from common import enc, dec, line


def run(chk, G):
    import vermouth
    from vermouth.forcefield import ForceField
    from vermouth import ffinput
    from vermouth.ffinput import read_ff
    from vermouth.molecule import (Link, Interaction, DeleteInteraction, Choice, NotDefinedOrNot,
                                   ParamDistance, ParamAngle, ParamDihedral, ParamDihedralPhase)
    EFF_TEXT = {'dist': ParamDistance, 'angle': ParamAngle, 'dihedral': ParamDihedral, 'dihphase': ParamDihedralPhase}
    pval, ptval, pattrs = G['pval'], G['ptval'], G['pattrs']
    RESNAMES, SS, ATOMNAMES, ORDERS = G['RESNAMES'], G['SS'], G['ATOMNAMES'], G['ORDERS']
    ATYPES = ['P', 'Q', 'N']
    VOCAB = {'resname': RESNAMES + ['PRO'], 'cgsecstruct': SS, 'atype': ATYPES, 'flag': [True, False]}
    EDGE_TYPES = ('bonds', 'angles', 'dihedrals', 'cmap', 'constraints')
    NATOMS = {'bonds': 2, 'constraints': 2, 'angles': 3, 'pairs': 2, 'impropers': 4, 'position_restraints': 1}

    # ------------------------------------------------------------------------------------------
    # values
    # ------------------------------------------------------------------------------------------
    def jv(v):
        """python value -> what is written in a JSON dictionary on a line"""
        if isinstance(v, Choice):
            return '|'.join(v.value)
        return v

    def jdict(d):
        return json.dumps({k: ({kk: jv(vv) for kk, vv in v.items()} if isinstance(v, dict) else jv(v)) for k, v in d.items()})

    def wide_token(v):
        """value of a line directly under [ link ] / [ molmeta ]"""
        if isinstance(v, Choice):
            return json.dumps('|'.join(v.value))
        if isinstance(v, NotDefinedOrNot):
            return 'not(%s)' % json.dumps(v.value)
        return json.dumps(v)

    def same(a, b):
        return type(a) is type(b) and a == b

    def cond_for(rng, have, vocab, avoid=None):
        """a condition one can write in a JSON dictionary, biased to hold for the value `have`"""
        for _ in range(4):
            k = rng.random()
            if k < 0.5 or not isinstance(have, str):
                v = have if rng.random() < 0.85 else rng.choice(vocab)
            elif k < 0.92:
                vals = rng.sample(vocab, rng.randint(1, min(3, len(vocab))))
                vals = [x for x in vals if isinstance(x, str)]
                if have not in vals and rng.random() < 0.8:
                    vals.insert(rng.randint(0, len(vals)), have)
                v = Choice(vals) if len(vals) >= 2 else (vals[0] if vals else have)
            else:
                v = rng.choice([None, have])
            if avoid is None or not same(v, avoid):
                return v
        return v

    def prefix_of(order):
        if isinstance(order, int):
            return ('+' if order > 0 else '-') * abs(order)
        return order

    # ------------------------------------------------------------------------------------------
    # the description of one link (what it declares) and its three renderings
    # ------------------------------------------------------------------------------------------
    class Atom:
        """one atom of the link: key = prefix_of(order) + base; cond = EVERY condition it declares besides
        order and atomname (link-wide ones included); bare: mentioned in [ edges ] only, no condition at all"""
        def __init__(self, idx, base, order, atomname, cond, bare=False):
            self.idx, self.base, self.order, self.atomname, self.cond, self.bare = idx, base, order, atomname, cond, bare
            self.replace = None
            self.key = prefix_of(order) + base
            self.over = {}          # link-wide keys this atom states itself (must be on every mention)
            self.extra = {}         # its other conditions

        def attrs(self):
            if self.bare:
                return {}
            d = dict(self.cond)
            d['order'] = self.order
            d['atomname'] = self.atomname
            if self.replace is not None:
                d['replace'] = dict(self.replace)
            return d

    class Sem:
        def __init__(self):
            self.wide = collections.OrderedDict()
            self.wide_text = {}         # key -> token written instead of the value (macro)
            self.atoms = []
            self.non_edges = []         # (anchor key string, partner attrs dict incl. order and atomname)
            self.patterns = []          # [[(key string, cond dict)..]..]
            self.molmeta = collections.OrderedDict()
            self.inters = []            # (type, [atom idx], params, meta) in file order
            self.removed = []           # (type, [atom idx], params, [written attrs], meta) in file order
            self.explicit_edges = []    # (i, j)
            self.cites = []
            self.sections = []          # the text structure: [(header, [line..])]
            self.rejected = False
            self.fault = None

        # -- what the link declares, as a Link object built through the Python API (for the oracles) ------
        def param_obj(self, p):
            if isinstance(p, tuple):
                return EFF_TEXT[p[0]](list(p[1]), format_spec=p[2])
            return p

        def edges(self):
            out = set()
            for i, j in self.explicit_edges:
                out.add(frozenset((i, j)))
            for ty, atoms, _params, meta in self.inters:
                if ty in EDGE_TYPES and meta.get('edge', True):
                    for a, b in zip(atoms, atoms[1:]):
                        out.add(frozenset((a, b)))
            return out

        def to_link(self):
            link = Link()
            for a in self.atoms:
                link.add_node(a.key, **a.attrs())
            for e in self.edges():
                i, j = sorted(e)
                link.add_edge(self.atoms[i].key, self.atoms[j].key)
            link.non_edges = [[k, dict(d)] for k, d in self.non_edges]
            link.patterns = [[[k, dict(d)] for k, d in pat] for pat in self.patterns]
            link.molecule_meta = dict(self.molmeta)
            for ty, atoms, params, meta in self.inters:
                link.interactions.setdefault(ty, []).append(
                    Interaction(atoms=tuple(self.atoms[i].key for i in atoms), parameters=[self.param_obj(p) for p in params],
                                meta=dict(meta)))
            for ty, atoms, params, aattrs, meta in self.removed:
                link.removed_interactions.setdefault(ty, []).append(
                    DeleteInteraction(atoms=tuple(self.atoms[i].key for i in atoms), atom_attrs=[dict(a) for a in aattrs],
                                      parameters=[self.param_obj(p) for p in params], meta=dict(meta)))
            link.citations = set(link.citations) | set(self.cites)      # every Link cites 'vermouth'
            return link

        # -- the text ------------------------------------------------------------------------------------
        def mention_text(self, m):
            d = dict(m['written'])
            if m['replace'] is not None:
                d['replace'] = m['replace']
            return m['ref'] + ((' ' + jdict(d)) if (d or m.get('braces')) else '')

        def param_text(self, p):
            if isinstance(p, tuple):
                return '%s(%s%s)' % (p[0], ','.join(p[1]), ('|' + p[2]) if p[2] is not None else '')
            return p

        def text(self):
            out = ['[ link ]']
            for k, v in self.wide.items():
                out.append('%s %s' % (k, self.wide_text.get(k, wide_token(v))))
            for header, lines in self.sections:
                out.append('[ %s ]' % header)
                for ln in lines:
                    kind = ln[0]
                    if kind == 'atom':
                        m = ln[1]
                        d = dict(m['written'])
                        if m['replace'] is not None:
                            d['replace'] = m['replace']
                        out.append('%s %s' % (m['ref'], jdict(d)))
                    elif kind == 'smeta':
                        out.append('#meta ' + json.dumps(ln[2]))
                    elif kind == 'inter':
                        _, _ty, _del, ms, params, meta, delim, ptexts = ln
                        toks = [self.mention_text(m) for m in ms] + (['--'] if delim else []) + list(ptexts)
                        if meta is not None:
                            toks.append(json.dumps(meta))
                        out.append(' '.join(toks))
                    elif kind in ('edge', 'nonedge'):
                        out.append('%s %s' % (self.mention_text(ln[1]), self.mention_text(ln[2])))
                    elif kind == 'pattern':
                        out.append(' '.join(ref + ((' ' + jdict(a)) if a is not None else '') for ref, a in ln[1]))
                    elif kind == 'molmeta':
                        out.append('%s %s' % (ln[1], wide_token(ln[2])))
                    else:
                        out.append(' '.join(ln[1]))
            return out

        # -- the parsed lines for the Lean builder ---------------------------------------------------------
        def key_index(self, key):
            for a in self.atoms:
                if a.key == key:
                    return a.idx
            return -1

        def p_mention(self, m):
            po = [] if m['prefix_order'] is None else [ptval(m['prefix_order'])]
            rep = None if m['replace'] is None else pattrs(m['replace'])
            return [m['idx'], po, m['base'], pattrs(m['written'], ptval), rep]

        def p_param(self, p):
            if isinstance(p, tuple):
                return [p[0], [self.key_index(k) for k in p[1]], p[2]]
            return p

        def proto(self):
            items = []
            for _header, lines in self.sections:
                for ln in lines:
                    kind = ln[0]
                    if kind == 'atom':
                        items.append(['atom', self.p_mention(ln[1])])
                    elif kind == 'smeta':
                        items.append(['smeta', ln[1], pattrs(ln[2])])
                    elif kind == 'inter':
                        _, ty, dele, ms, params, meta, _delim, _pt = ln
                        items.append(['inter', ty, 1 if dele else 0, [self.p_mention(m) for m in ms],
                                      [self.p_param(p) for p in params], pattrs(meta or {})])
                    elif kind in ('edge', 'nonedge'):
                        items.append([kind, self.p_mention(ln[1]), self.p_mention(ln[2])])
                    elif kind == 'pattern':
                        items.append(['pattern', [[self.key_index(ref), pattrs(a or {}, ptval)] for ref, a in ln[1]]])
                    elif kind == 'molmeta':
                        items.append(['molmeta', ln[1], ptval(ln[2])])
                    else:
                        items.append(['other'])
            return [pattrs(self.wide, ptval), items, sorted(set(self.cites) | set(Link().citations))]

    # ------------------------------------------------------------------------------------------
    # generator
    # ------------------------------------------------------------------------------------------
    def mention(rng, a, write, replace=None, force_prefix=False):
        """one way of writing atom `a` with the dictionary `write` on the line"""
        written = dict(write)
        if a.atomname != a.base:
            written['atomname'] = a.atomname
        o = a.order
        pre = prefix_of(o)
        style = rng.random()
        if o == 0:
            ref, prefix_order = a.base, None
            if style < 0.08:
                written['order'] = 0
            elif style < 0.11:
                written['order'] = None          # "order": null = not given
        elif style < 0.55 or force_prefix:
            ref, prefix_order = pre + a.base, o
        elif style < 0.82:
            ref, prefix_order = a.base, None
            written['order'] = o
        else:
            ref, prefix_order = pre + a.base, o
            written['order'] = o
        chk.count('text_mention_' + ('plain' if o == 0 else 'prefix' if 'order' not in written else
                                     'explicit' if prefix_order is None else 'both'))
        return {'idx': a.idx, 'ref': ref, 'prefix_order': prefix_order, 'base': a.base, 'written': written, 'replace': replace}

    def gen_sem(rng, mol, with_removal):
        sem = Sem()
        nodes = list(mol.nodes)
        k = rng.choice([1, 2, 2, 3, 3, 4])
        cur = rng.choice(nodes)
        picked = [cur]
        while len(picked) < k:
            front = [n for p in picked for n in mol[p] if n not in picked]
            if not front or rng.random() < 0.08:
                rest = [n for n in nodes if n not in picked]
                if not rest:
                    break
                picked.append(rng.choice(rest))
            else:
                picked.append(rng.choice(front))
        k = len(picked)
        ref_resid = mol.nodes[picked[0]]['resid']
        # -- link-wide attributes
        for key in rng.sample(['resname', 'resname', 'cgsecstruct', 'atype', 'flag'], rng.choice([0, 1, 1, 1, 2])):
            if key in sem.wide:
                continue
            haves = [mol.nodes[p].get(key) for p in picked]
            r = rng.random()
            strs = sorted({h for h in haves if isinstance(h, str)})
            if key == 'flag':
                v = rng.choice([True, False, NotDefinedOrNot(True)])
            elif r < 0.5 and strs:
                vals = list(strs)
                if rng.random() < 0.5 and len(vals) > 1:
                    vals.remove(rng.choice(vals))         # some atom will have to state its own value
                more = [x for x in VOCAB[key] if x not in vals]
                if more and (len(vals) < 2 or rng.random() < 0.3):
                    vals.append(rng.choice(more))
                rng.shuffle(vals)
                v = Choice(vals) if len(vals) >= 2 else vals[0]
            elif r < 0.8 and strs:
                v = rng.choice(strs)
            elif r < 0.9:
                v = NotDefinedOrNot(rng.choice(VOCAB[key] + [None]))
            else:
                v = rng.choice(VOCAB[key])
            sem.wide[key] = v
        # -- atoms
        per_delta, used_keys = {}, set()
        for i, p in enumerate(picked):
            src = mol.nodes[p]
            delta = src['resid'] - ref_resid
            if delta not in per_delta:
                o = G['gen_order_for'](rng, delta, delta == 0)
                per_delta[delta] = 0 if o is None else o
            order = per_delta[delta] if rng.random() < 0.94 else rng.choice(ORDERS)
            atomname = src['atomname'] if rng.random() < 0.93 else rng.choice(ATOMNAMES)
            base = atomname
            if rng.random() < 0.06:
                base = rng.choice(['XX', 'A1', 'Q'])
            while prefix_of(order) + base in used_keys:
                base = base + rng.choice('abc')
            used_keys.add(prefix_of(order) + base)
            a = Atom(i, base, order, atomname, {})
            for key, wv in sem.wide.items():
                # an atom the link-wide condition does not hold for mostly states its own
                if rng.random() < (0.3 if G['o_value_ok'](key in src, src.get(key), wv) else 0.9):
                    a.over[key] = cond_for(rng, src.get(key), VOCAB[key], avoid=wv if rng.random() < 0.8 else None)
                    chk.count('text_atom_states_linkwide_key_' + ('same' if same(a.over[key], wv) else 'different'))
            for key in ('resname', 'cgsecstruct', 'atype', 'flag'):
                if key not in sem.wide and rng.random() < {'resname': 0.25, 'cgsecstruct': 0.25, 'atype': 0.12, 'flag': 0.06}[key]:
                    a.extra[key] = cond_for(rng, src.get(key), VOCAB[key])
            if rng.random() < 0.04:
                have = [x for m_ in src.get('modifications', []) for x in m_.name]
                a.extra['modifications'] = rng.choice([None, None, list(have) or ['C-ter'], (have or ['N-ter'])[0]])
            a.cond = dict(sem.wide)
            a.cond.update(a.over)
            a.cond.update(a.extra)
            sem.atoms.append(a)
        atoms = sem.atoms
        target = set()
        for i, j in itertools.combinations(range(k), 2):
            e = mol.has_edge(picked[i], picked[j])
            if rng.random() < 0.03:
                e = not e
            if e:
                target.add(frozenset((i, j)))
        nb = {i: sorted(j for j in range(k) if frozenset((i, j)) in target) for i in range(k)}
        if k >= 2 and rng.random() < 0.05:
            cands = [a for a in atoms if nb[a.idx]]
            if cands:
                b = rng.choice(cands)
                b.bare, b.cond, b.over, b.extra = True, {}, {}, {}
                chk.count('text_bare_node_from_edges')
        live = [a for a in atoms if not a.bare]
        # -- interactions
        inter_lines = []            # (type, del, [idx], params, secmeta-free meta)
        for _ in range(rng.choice([1, 1, 2, 3])):
            if not live:
                break
            r = rng.random()
            pairs = [(i, j) for i in nb for j in nb[i] if not atoms[i].bare and not atoms[j].bare]
            centers = [i for i in nb if not atoms[i].bare and len([j for j in nb[i] if not atoms[j].bare]) >= 2]
            meta = {}
            if r < 0.4 and pairs:
                ty, idx = rng.choice(['bonds', 'bonds', 'constraints']), list(rng.choice(pairs))
            elif r < 0.55 and centers:
                c = rng.choice(centers)
                x, y = rng.sample([j for j in nb[c] if not atoms[j].bare], 2)
                ty, idx = 'angles', [x, c, y]
            elif r < 0.65 and len(live) >= 2:
                # an edge-making type on atoms that need not be bonded
                ty, idx = rng.choice(['bonds', 'constraints']), [a.idx for a in rng.sample(live, 2)]
                if rng.random() < 0.75:
                    meta['edge'] = False
                    chk.count('text_interaction_edge_false')
            elif r < 0.85 and len(live) >= 2:
                ty, idx = 'pairs', [a.idx for a in rng.sample(live, 2)]
            elif len(live) >= 4 and r < 0.92:
                ty, idx = 'impropers', [a.idx for a in rng.sample(live, 4)]
            else:
                ty, idx = 'position_restraints', [rng.choice(live).idx]
            params = [rng.choice(['1', '2']), rng.choice(['0.3', '0.33', '0.365'])]
            if rng.random() < 0.3 and len(live) >= 2:
                name = rng.choice(['dist', 'dist', 'angle', 'dihedral', 'dihphase'])
                need = EFF_TEXT[name].n_keys_asked
                if len(live) >= need:
                    params.append((name, [a.key for a in rng.sample(live, need)], rng.choice([None, None, '.3f', '.1f'])))
            if rng.random() < 0.35:
                meta['version'] = rng.choice([0, 1, 2])
            if rng.random() < 0.3:
                meta['group'] = rng.choice(['a', 'b'])
            inter_lines.append((ty, False, idx, params, meta))
        if with_removal and rng.random() < 0.5:
            pairs = [(i, j) for i in nb for j in nb[i] if not atoms[i].bare and not atoms[j].bare]
            centers = [i for i in nb if not atoms[i].bare and len([j for j in nb[i] if not atoms[j].bare]) >= 2]
            for _ in range(rng.choice([1, 1, 2])):
                if centers and rng.random() < 0.3:
                    c = rng.choice(centers)
                    x, y = rng.sample([j for j in nb[c] if not atoms[j].bare], 2)
                    ty, idx = 'angles', [x, c, y]
                elif pairs:
                    ty, idx = 'bonds', list(rng.choice(pairs))
                    u, v = picked[idx[0]], picked[idx[1]]
                    if rng.random() < 0.8 and (u, v) not in [tuple(e) for e in mol.edges]:
                        idx = idx[::-1]
                else:
                    break
                if rng.random() < 0.6:
                    params = []
                elif ty == 'angles':
                    params = ['2', rng.choice(['100', '120']), '25']
                else:
                    params = [rng.choice(['1', '2']), rng.choice(['0.35', '0.47', '0.1']), rng.choice(['1250', '9'])]
                meta = rng.choice([{}, {}, {'version': 1}, {'version': 2}, {'version': 0}, {'group': 'g'}])
                inter_lines.append((ty, True, idx, params, dict(meta)))
        rng.shuffle(inter_lines)
        # -- which atoms get an [ atoms ] line
        mentioned = {i for it in inter_lines for i in it[2]}
        declared = [a for a in live if a.idx not in mentioned or rng.random() < 0.45]
        rng.shuffle(declared)
        for a in declared:
            if rng.random() < 0.25:
                r = rng.random()
                a.replace = ({'atype': rng.choice(['X', 'Y'])} if r < 0.6 else
                             {'newattr': rng.choice([1, 'v', None, True]), 'atype': 'Z'} if r < 0.8 else
                             {'atomname': None} if r < 0.93 else {'atomname': rng.choice(ATOMNAMES)})
        sections = sem.sections
        if declared:
            lines = []
            for a in declared:
                w = dict(a.over)
                w.update(a.extra)
                for key, wv in sem.wide.items():
                    if key not in w and rng.random() < 0.1 and not isinstance(wv, NotDefinedOrNot):
                        w[key] = wv                        # repeats the link-wide value
                        chk.count('text_atom_repeats_linkwide_value')
                lines.append(('atom', mention(rng, a, w, replace=a.replace)))
            sections.append(('atoms', lines))
        known = {a.idx for a in declared}          # atoms whose every condition is already written

        def inter_mention(a, strict=False):
            w = dict(a.over)
            if a.idx not in known:
                w.update(a.extra)
                known.add(a.idx)
            else:
                for key in a.extra:
                    if rng.random() < 0.25:
                        w[key] = a.extra[key]
            return mention(rng, a, w)
        # -- interaction sections: consecutive lines of one type share a section, #meta lines in between
        secmeta = {}
        body = []
        i = 0
        while i < len(inter_lines):
            ty, dele = inter_lines[i][0], inter_lines[i][1]
            lines = []
            while i < len(inter_lines) and inter_lines[i][0] == ty and inter_lines[i][1] == dele:
                _, _, idx, params, meta = inter_lines[i]
                cur = secmeta.setdefault(ty, {})
                if rng.random() < 0.3:
                    # a #meta line: what it sets holds for the later lines of this interaction type
                    d = {}
                    for key in rng.sample(['version', 'group', 'comment'], rng.choice([1, 1, 2])):
                        d[key] = meta[key] if (key in meta and rng.random() < 0.6) else \
                            rng.choice({'version': [0, 1, 2], 'group': ['a', 'b', 'g'], 'comment': ['c0', 'c1']}[key])
                    lines.append(('smeta', ty, d))
                    cur.update(d)
                    chk.count('text_meta_line')
                # the line's own dictionary: whatever the line declares that #meta does not already give
                own = {key: v for key, v in meta.items() if not (key in cur and same(cur[key], v))}
                if any(key in cur for key in own):
                    chk.count('text_line_meta_overrides_section_meta')
                full = dict(cur)
                full.update(own)
                for key in list(meta):
                    if key in cur and same(cur[key], meta[key]) and rng.random() < 0.2:
                        own[key] = meta[key]
                ms = [inter_mention(atoms[j]) for j in idx]
                ptexts = [sem.param_text(p) for p in params]
                own_out = own if (own or rng.random() < 0.1) else None
                # without parameters a trailing dictionary would be read as the last atom's: "--" ends the atoms
                delim = rng.random() < 0.3 or (not params and own_out is not None)
                lines.append(('inter', ty, dele, ms, params, own_out, delim, ptexts))
                if dele:
                    sem.removed.append((ty, idx, params, [dict(m['written']) for m in ms], full))
                else:
                    sem.inters.append((ty, idx, params, full))
                i += 1
            body.append((('!' if dele else '') + ty, lines))
        # group the declared interactions as the dictionaries do: types in order of first appearance
        for name in ('inters', 'removed'):
            lst = getattr(sem, name)
            order = []
            for it in lst:
                if it[0] not in order:
                    order.append(it[0])
            setattr(sem, name, [it for ty in order for it in lst if it[0] == ty])
        # -- edges: whatever the interactions do not imply is written in [ edges ]
        implied = set()
        for ty, idx, _p, meta in sem.inters:
            if ty in EDGE_TYPES and meta.get('edge', True):
                for x, y in zip(idx, idx[1:]):
                    implied.add(frozenset((x, y)))
        elines = []
        for e in sorted(target, key=sorted):
            if e not in implied or rng.random() < 0.15:
                x, y = sorted(e)
                if rng.random() < 0.5:
                    x, y = y, x
                elines.append(('edge', mention(rng, atoms[x], {}), mention(rng, atoms[y], {})))
                sem.explicit_edges.append((x, y))
        # a bare atom is only ever written in [ edges ]
        if elines:
            body.insert(rng.randint(0, len(body)), ('edges', elines))
        # -- non-edges
        nlines = []
        for _ in range(rng.choice([0, 0, 1, 1, 2])):
            anchor = rng.choice(atoms)
            anchor_key = anchor.key
            am = mention(rng, anchor, {})
            if rng.random() < 0.05:
                am = {'idx': -1, 'ref': 'nowhere', 'prefix_order': None, 'base': 'nowhere', 'written': {}, 'replace': None}
                anchor_key = 'nowhere'
            nbrs = list(mol[picked[anchor.idx]])
            if nbrs and rng.random() < 0.8:
                q = rng.choice(nbrs)
                src = mol.nodes[q]
                d = src['resid'] - ref_resid
                if d in per_delta and rng.random() < 0.8:
                    po = per_delta[d]
                elif isinstance(anchor.order, int) and rng.random() < 0.8:
                    po = anchor.order + src['resid'] - mol.nodes[picked[anchor.idx]]['resid']
                else:
                    po = rng.choice(ORDERS)
            else:
                src = {'atomname': rng.choice(ATOMNAMES)}
                po = rng.choice([0, 1, -1, 1, -1, 2, -2] + ORDERS)
            pname = src['atomname'] if rng.random() < 0.9 else rng.choice(ATOMNAMES)
            pbase = pname if rng.random() < 0.9 else 'XX'
            partner = Atom(-1, pbase, po, pname, {})
            w = {}
            for key, wv in sem.wide.items():
                if rng.random() < 0.5:
                    # the partner states its own value for a key the link sets for all its atoms
                    w[key] = cond_for(rng, src.get(key), VOCAB[key], avoid=wv if rng.random() < 0.85 else None)
                    chk.count('text_nonedge_partner_states_linkwide_key_' + ('same' if same(w[key], wv) else 'different'))
            for key in ('resname', 'cgsecstruct'):
                if key not in sem.wide and rng.random() < 0.25:
                    w[key] = cond_for(rng, src.get(key), VOCAB[key])
            if rng.random() < 0.5 and 'resid' in src:
                # make sure the neighbour the line was written after is NOT what the line describes
                key = rng.choice(list(w) or ['resname'])
                others = [x for x in VOCAB[key] if x != src.get(key)]
                w[key] = rng.choice(others)
                chk.count('text_nonedge_partner_differs_from_neighbour')
            pm = mention(rng, partner, w)
            full = dict(sem.wide)
            full.update(w)
            full['order'] = po
            full['atomname'] = pname
            sem.non_edges.append((anchor_key, full))
            nlines.append(('nonedge', am, pm))
            chk.count('text_nonedge_' + ('with_linkwide' if sem.wide else 'plain'))
        if nlines:
            body.insert(rng.randint(0, len(body)), ('non-edges', nlines))
        # -- patterns: the dictionaries are kept as written (no link-wide attributes)
        if rng.random() < 0.3:
            plines = []
            for _ in range(rng.randint(1, 3)):
                pat = []
                for a in rng.sample(atoms, rng.randint(1, len(atoms))):
                    src = mol.nodes[picked[a.idx]]
                    d = None
                    r = rng.random()
                    if r < 0.55:
                        d = {'cgsecstruct': cond_for(rng, src.get('cgsecstruct') if rng.random() < 0.7 else rng.choice(SS), SS)}
                    elif r < 0.75 and sem.wide:
                        key = rng.choice(list(sem.wide))
                        d = {key: cond_for(rng, src.get(key), VOCAB[key], avoid=sem.wide[key])}
                        chk.count('text_pattern_atom_states_linkwide_key')
                    elif r < 0.8:
                        d = {'order': 5}
                    ref = a.key
                    if rng.random() < 0.04:
                        ref = a.base           # not the node's key unless the order is 0
                    pat.append((ref, d))
                plines.append(('pattern', pat))
                sem.patterns.append([(ref, dict(d or {})) for ref, d in pat])
            body.insert(rng.randint(0, len(body)), ('patterns', plines))
        if rng.random() < 0.25:
            key = rng.choice(['extdih', 'idr', 'tag'])
            have = mol.meta.get(key)
            v = rng.choice([have, have, True, None, Choice(['x', 'y']), NotDefinedOrNot(True), NotDefinedOrNot(None), False])
            sem.molmeta[key] = v
            body.insert(rng.randint(0, len(body)), ('molmeta', [('molmeta', key, v)]))
        if rng.random() < 0.15:
            body.insert(rng.randint(0, len(body)), ('features', [('feature', rng.sample(['scfix', 'idr', 'f1'], 2))]))
        if rng.random() < 0.15:
            sem.cites = sorted(rng.sample(['ref1', 'ref2', 'ref3'], rng.randint(1, 2)))
            body.insert(rng.randint(0, len(body)), ('citation', [('citation', list(sem.cites))]))
        sections.extend(body)
        for pat in sem.patterns:
            pass
        return sem

    def inject(rng, sem):
        """a change that makes the reader reject the link"""
        ment = [(si, li, m) for si, (_h, lines) in enumerate(sem.sections) for li, ln in enumerate(lines)
                if ln[0] == 'inter' for m in ln[3]]
        kind = rng.choice(['dup_atom', 'forgot', 'forgot', 'order_conflict', 'bad_order'])
        if kind == 'forgot':
            # an atom that states its own value for a link-wide key is mentioned again WITHOUT it
            seen = set()
            for si, (_h, lines) in enumerate(sem.sections):
                for ln in lines:
                    ms = [ln[1]] if ln[0] == 'atom' else (ln[3] if ln[0] == 'inter' else [])
                    for m in ms:
                        a = sem.atoms[m['idx']]
                        diff = [key for key in a.over if not same(a.over[key], sem.wide[key]) and key in m['written']]
                        if m['idx'] in seen and diff and ln[0] == 'inter':
                            del m['written'][diff[0]]
                            return 'forgot_own_value_on_later_mention'
                        seen.add(m['idx'])
            kind = 'dup_atom'
        if kind == 'dup_atom':
            live = [a for a in sem.atoms if not a.bare]
            if not live:
                return None
            a = rng.choice(live)
            m = mention(rng, a, dict(a.over))
            sem.sections.append(('atoms', [('atom', m)]))
            return 'atoms_line_for_existing_node'
        if not ment:
            return None
        _si, _li, m = rng.choice(ment)
        if kind == 'order_conflict':
            if m['prefix_order'] is None:
                return None
            m['written']['order'] = rng.choice([x for x in [1, -1, 2, '>', '<<', '*'] if not same(x, m['prefix_order'])])
            return 'prefix_and_explicit_order_disagree'
        m['written']['order'] = rng.choice(['x', '+', '><', True, ''])
        if m['prefix_order'] is not None and m['written']['order'] == '':
            m['written']['order'] = 'x'
        return 'invalid_explicit_order'

    # ------------------------------------------------------------------------------------------
    # canonical structure of a link (real object / model answer), keyed by the declared atoms
    # ------------------------------------------------------------------------------------------
    def canon_link_real(link, sem):
        kidx = {a.key: a.idx for a in sem.atoms}

        def key(n):
            return kidx.get(n, -1)
        nodes = []
        for n in link.nodes:
            d = link.nodes[n]
            rep = d.get('replace')
            nodes.append([key(n), sorted(pattrs(d, ptval, skip=('replace',)), key=repr), None if rep is None else sorted(pattrs(rep), key=repr)])
        pparam = G['pparam']
        rem = []
        for ty, lst in link.removed_interactions.items():
            for d in lst:
                rem.append([ty, [key(a) for a in d.atoms], [pparam(p, key) for p in d.parameters],
                            [sorted(pattrs(a, ptval), key=repr) for a in d.atom_attrs], sorted(pattrs(d.meta, ptval), key=repr)])
        ints = []
        for ty, lst in link.interactions.items():
            for i in lst:
                ints.append([ty, [key(a) for a in i.atoms], [pparam(p, key) for p in i.parameters], sorted(pattrs(i.meta), key=repr)])
        return [nodes, sorted(sorted([key(u), key(v)]) for u, v in link.edges), sorted(pattrs(link.molecule_meta, ptval), key=repr),
                [[key(f), sorted(pattrs(t, ptval), key=repr)] for f, t in link.non_edges],
                [[[key(k_), sorted(pattrs(a, ptval), key=repr)] for k_, a in pat] for pat in link.patterns],
                rem, ints, sorted(link.citations)]

    def canon_link_model(d):
        nodes, edges, mm, nes, pats, rem, ints, cites = d
        return [[[k_, sorted(a, key=repr), None if r is None else sorted(r, key=repr)] for k_, a, r in nodes],
                sorted(sorted(e) for e in edges), sorted(mm, key=repr),
                [[k_, sorted(a, key=repr)] for k_, a in nes],
                [[[k_, sorted(a, key=repr)] for k_, a in pat] for pat in pats],
                [[ty, at, ps, [sorted(a, key=repr) for a in (aa or [])], sorted(md, key=repr)] for ty, at, ps, aa, md in rem],
                [[ty, at, ps, sorted(md, key=repr)] for ty, at, ps, md in ints], sorted(cites)]

    def norm(x):
        """protocol values after a round trip: True/False are encoded as 1/0"""
        return json.loads(json.dumps(x, default=repr))

    # ------------------------------------------------------------------------------------------
    # the whole-file stream
    # ------------------------------------------------------------------------------------------
    clone, run_links, real_state, show = G['clone'], G['run_links'], G['real_state'], G['show']
    o_all_placements = G['o_all_placements']

    def text_case(cid, mol, sems, header, lines_out, pending):
        text = list(header)
        for s in sems:
            text.extend(s.text())
        try:
            nodes, edges, meta, inters, cites = G['enc_mol'](mol)
            dl = [s.proto() for s in sems]
        except G['Unsupported']:
            chk.count('skipped_unsupported_value')
            return
        declared_rejected = any(s.rejected for s in sems)
        ff = ForceField(name='verif_c05_text')
        errs = []
        try:
            read_ff(list(text), ff)
            read_err = None
        except Exception as e:      # the reader wraps whatever happens on a line into an IOError
            read_err = '%s: %s' % (type(e).__name__, str(e)[:200])
        shown = '\n'.join(text)
        if read_err is not None:
            if not declared_rejected:
                errs.append('the reader rejects a file whose links are all well-formed (%s):\n%s' % (read_err, shown))
            chk.count('text_file_rejected')
            lines_out.append(line('tapply', nodes, edges, meta, inters, cites, dl, [[] for _ in sems], G['enc_pos'](mol),
                                  [[] for _ in sems], G['canon_logs'](mol)))
            pending.append((cid, 'rejected', None, errs, text))
            return
        if declared_rejected:
            errs.append('the reader accepts a file with a link it must reject (%s):\n%s'
                        % ([s.fault for s in sems if s.rejected], shown))
        links = list(ff.links)
        if len(links) != len(sems):
            errs.append('%d links were loaded from a file with %d [ link ] sections:\n%s' % (len(links), len(sems), shown))
            lines_out.append(line('tapply', nodes, edges, meta, inters, cites, dl, [[] for _ in sems], G['enc_pos'](mol),
                                  [[] for _ in sems], G['canon_logs'](mol)))
            pending.append((cid, '%d links loaded' % len(links), None, errs, text))
            return
        decl = [s.to_link() for s in sems]
        for li, (l, d) in enumerate(zip(links, decl)):
            if set(l.nodes) != set(d.nodes):
                errs.append('link %d: loaded atoms %s, declared atoms %s:\n%s' % (li, sorted(l.nodes), sorted(d.nodes), shown))
        before = clone(mol)
        positions = {n: mol.nodes[n].get('position') for n in mol.nodes}
        work = clone(mol, ff)
        logs0 = G['canon_logs'](work)

        def declared_fits(snapshot, li):
            """the placements satisfying the DECLARED conditions of link li on the molecule as it is now"""
            if li >= len(decl):
                return None
            want = o_all_placements(snapshot, decl[li], 40000)
            if isinstance(want, tuple) or want in ('too-large', 'raises'):
                chk.count('text_oracle_placements_' + ('either' if isinstance(want, tuple) else want))
                return None
            return want
        err, used, snaps = run_links(work, snap_fn=declared_fits)
        states = list(run_links.states) + [G['table_state'](work)]
        canon_links = norm([canon_link_real(l, s) for l, s in zip(links, sems)])
        given = []
        bad_keys = False
        for u, s, l in zip(used, sems, links):
            g = []
            kidx = {a.key: a.idx for a in s.atoms}
            for p in u:
                if set(p) != set(kidx):
                    bad_keys = True
                    continue
                g.append([[kidx[n], int(p[n])] for n in l.nodes])        # pairs in the order of the link's nodes
            given.append(g)
        given += [[] for _ in range(len(sems) - len(given))]
        lines_out.append(line('tapply', nodes, edges, meta, inters, cites, dl, given, G['enc_pos'](mol),
                              [[] for _ in sems], logs0))
        pending.append((cid, None, (before, work, decl, links, sems, err, used, snaps, positions, states, run_links.calls,
                                    run_links.owner, run_links.keep, canon_links, bad_keys), errs, text))

    def finish_text_cases(lines_out, pending):
        models = chk.drv.ask(lines_out) if chk.lean_ok else [None] * len(lines_out)
        for ln, mo, (cid, early, ctx, errs, text) in zip(lines_out, models, pending):
            inp = ln + '\n; ' + '\n; '.join(text)
            if early is not None:
                mo_c = None
                if mo is not None:
                    d = G['try_dec'](mo)
                    mo_c = 'rejected' if (isinstance(d, list) and d and d[0] == 'rejected') else ('links built: ' + str(mo)[:300])
                    if early != 'rejected':
                        mo_c = early if mo_c != 'rejected' else mo_c
                chk.case(cid, inp, early, mo_c, errs, True)
                continue
            (before, after, decl, links, sems, err, used, snaps, positions, states, calls, owner, keep, canon_links, bad_keys) = ctx
            if bad_keys:
                errs.append('a placement does not cover the declared atoms of its link')
            if err:
                impl_state, impl = 'error', 'error:' + err
                if err != 'match':
                    want = G['effector_error_oracle'](before, decl, used, positions)
                    if want != err:
                        errs.append('DoLinks raised %s; the declared effectors / atoms on the placements used give %s' % (err, want))
                elif all(s is not None for s in snaps) and len(snaps) == len(decl):
                    errs.append('match_link raised although the declared conditions of every link can be evaluated')
            else:
                impl_state = real_state(after, owner, calls)
                impl = show([canon_links, impl_state])
                want = G['effector_error_oracle'](before, decl, used, positions)
                if want is not None:
                    errs.append('DoLinks returned normally although the declared effectors on the placements used give %s' % want)
                else:
                    # the property, stated on what the TEXT declares: a placement gets the link's interactions iff
                    # it satisfies the declared conditions; removals, replacements, last writer, nothing unjustified
                    errs += G['apply_oracle'](before, after, decl, snaps, used, positions, calls)
                    errs += G['removal_oracle'](states, decl, used, positions)
            if errs:
                errs = [e_ + '\n--- force field text ---\n' + '\n'.join(text) for e_ in errs[:3]]
            mo_c = None
            if mo is not None:
                d = G['try_dec'](mo)
                if not isinstance(d, list) or not d:
                    mo_c = str(mo)
                elif d[0] == 'rejected':
                    mo_c = 'rejected ' + enc(d[1])
                else:
                    try:
                        mlinks = norm([canon_link_model(x) for x in d[0]])
                    except Exception:
                        mlinks = 'undecodable links'
                    mstate, maybe, events = G['model_state'](None, positions, d=d[1:])
                    if isinstance(mstate, str) or mstate is None:
                        mo_c = mstate if mlinks == canon_links else show([mlinks, mstate])
                        if maybe and impl == 'error:match':
                            mo_c = impl
                    else:
                        ok = (not isinstance(impl_state, str)) and mlinks == canon_links and G['states_agree'](impl_state, mstate)
                        mo_c = impl if ok else show([mlinks, mstate])
                        if ok and events is not None:
                            verdict = G['check_survival'](events, calls, after) or \
                                G['check_attr_writes'](G['model_state'].attr_writes, before, after)
                            if verdict:
                                mo_c = verdict
                        if maybe and impl == 'error:match':
                            mo_c = impl
            nplace = sum(len(u) for u in used)
            chk.count('text_apply_error_' + err if err else 'text_apply_placements=%s' % (nplace if nplace < 4 else '4+'))
            for s in sems:
                if s.wide:
                    chk.count('text_link_with_linkwide_attrs')
                if s.non_edges:
                    chk.count('text_link_with_nonedges')
                if s.patterns:
                    chk.count('text_link_with_patterns')
                if s.removed:
                    chk.count('text_link_with_removal_section')
            for s_, u in zip(snaps, used):
                if s_ is not None and len(s_) > 0:
                    chk.count('text_declared_placements_found')
            chk.case(cid, inp, impl, mo_c, errs, nplace > 0)

    def file_stream():
        rng = chk.rng('text')
        ff0 = ForceField(name='verif_c05')
        lines_out, pending = [], []
        # the demonstration input of the missed change: link-wide resname choice, non-edge partner with its own resname
        for ci, (cid, mol, sems, header) in enumerate(corpus()):
            text_case(cid, mol, sems, header, lines_out, pending)
        n = 2600 if chk.thorough else 520
        for i in range(n):
            mol = G['gen_molecule'](rng, ff0)
            with_inters = rng.random() < 0.7
            if with_inters:
                G['add_initial_interactions'](rng, mol)
            sems = [gen_sem(rng, mol, with_inters) for _ in range(rng.choice([1, 1, 2, 2, 3, 4]))]
            if rng.random() < 0.25:
                sems.append(gen_sem_copy(rng, rng.choice(sems)))
            header = []
            if rng.random() < 0.2:
                # macros: the value of a link-wide attribute / a parameter written as $name
                header = ['[ macros ]']
                cands = [(s, k_) for s in sems for k_ in s.wide if k_ not in s.wide_text]
                if cands:
                    s, k_ = rng.choice(cands)
                    header.append('mw %s' % wide_token(s.wide[k_]))
                    s.wide_text[k_] = '$mw'
                    chk.count('text_macro_for_linkwide_value')
                header.append('unused 7')
            if rng.random() < 0.07:
                s = rng.choice(sems)
                f = inject(rng, s)
                if f is not None:
                    s.rejected, s.fault = True, f
                    chk.count('text_fault_' + f)
            text_case('text-%d' % i, mol, sems, header, lines_out, pending)
        finish_text_cases(lines_out, pending)

    def gen_sem_copy(rng, sem):
        """the same link once more (a force field may define a link twice: everything is written again)"""
        import copy
        chk.count('text_same_link_twice')
        return copy.deepcopy(sem)

    # ------------------------------------------------------------------------------------------
    # corpus: hand-written files
    # ------------------------------------------------------------------------------------------
    def corpus():
        import numpy as np
        from vermouth.molecule import Molecule
        ff0 = ForceField(name='verif_c05')
        out = []

        def chain(seq):
            mol = Molecule(force_field=ff0)
            mol.meta = {}
            for idx, (resid, resname) in enumerate(seq):
                bb, sc = 2 * idx, 2 * idx + 1
                common = {'resid': resid, 'resname': resname, 'atype': 'P'}
                mol.add_node(bb, atomname='BB', position=np.array([idx / 4.0, 0., 0.]), **common)
                mol.add_node(sc, atomname='SC1', position=np.array([idx / 4.0, .25, 0.]), **common)
                mol.add_edge(bb, sc)
                if idx:
                    mol.add_edge(bb - 2, bb)
            return mol
        # 1. link-wide resname choice; the non-edge partner states its own resname (seeded change C05j)
        s = Sem()
        s.wide['resname'] = Choice(['ALA', 'GLY', 'LYS'])
        a0, a1, a2 = Atom(0, 'BB', -1, 'BB', dict(s.wide)), Atom(1, 'BB', 0, 'BB', dict(s.wide)), Atom(2, 'SC1', 0, 'SC1', dict(s.wide))
        s.atoms = [a0, a1, a2]

        def m(a, w=None, ref=None, po='auto'):
            return {'idx': a.idx, 'ref': ref or a.key, 'prefix_order': (a.order if a.order != 0 else None) if po == 'auto' else po,
                    'base': a.base, 'written': dict(w or {}), 'replace': None}
        s.inters = [('angles', [0, 1, 2], ['2', '100', '25'], {})]
        partner = Atom(-1, 'BB', 1, 'BB', {})
        s.non_edges = [('BB', {'resname': 'PRO', 'order': 1, 'atomname': 'BB'})]
        s.sections = [('angles', [('inter', 'angles', False, [m(a0), m(a1), m(a2)], ['2', '100', '25'], None, False, ['2', '100', '25'])]),
                      ('non-edges', [('nonedge', m(a1), m(partner, {'resname': 'PRO'}))])]
        seq = [(1, 'LYS'), (2, 'ALA'), (3, 'PRO'), (4, 'GLY'), (5, 'ALA'), (6, 'LYS'), (8, 'ALA')]
        out.append(('corpus-text-nonedge-own-resname', chain(seq), [s], []))
        # 2. [ atoms ] line stating its own resname against the link-wide one, repeated on the bond line
        s = Sem()
        s.wide['resname'] = 'ALA'
        s.wide['atype'] = Choice(['P', 'Q'])
        b0 = Atom(0, 'BB', 0, 'BB', {'resname': 'ALA', 'atype': Choice(['P', 'Q'])})
        b1 = Atom(1, 'BB', 1, 'BB', {'resname': 'GLY', 'atype': Choice(['P', 'Q'])})
        b1.over = {'resname': 'GLY'}
        s.atoms = [b0, b1]
        s.inters = [('bonds', [0, 1], ['1', ('dist', ['BB', '+BB'], '.3f'), '1250'], {'group': 'g', 'version': 1})]
        s.sections = [('atoms', [('atom', m(b1, {'resname': 'GLY', 'order': 1}, ref='BB', po=None))]),
                      ('bonds', [('smeta', 'bonds', {'group': 'h', 'version': 1}),
                                 ('inter', 'bonds', False, [m(b0), m(b1, {'resname': 'GLY'})],
                                  ['1', ('dist', ['BB', '+BB'], '.3f'), '1250'], {'group': 'g'}, True, ['1', 'dist(BB,+BB|.3f)', '1250'])])]
        out.append(('corpus-text-atom-own-resname', chain([(1, 'ALA'), (2, 'GLY'), (3, 'ALA'), (4, 'ALA'), (5, 'GLY')]), [s], []))
        # 3. the same with the own value forgotten on the bond line: the reader must reject the file
        import copy
        s3 = copy.deepcopy(s)
        del s3.sections[1][1][1][3][1]['written']['resname']
        s3.rejected, s3.fault = True, 'forgot_own_value_on_later_mention'
        out.append(('corpus-text-forgot-own-value', chain([(1, 'ALA'), (2, 'GLY')]), [s3], []))
        # 4. pattern atoms do not see the link-wide attributes
        s = Sem()
        s.wide['cgsecstruct'] = Choice(['H', 'E'])
        c0, c1 = Atom(0, 'BB', 0, 'BB', dict(s.wide)), Atom(1, 'BB', '>', 'BB', dict(s.wide))
        s.atoms = [c0, c1]
        s.inters = [('bonds', [0, 1], ['1', '0.35'], {})]
        s.patterns = [[('BB', {'cgsecstruct': 'H'}), ('>BB', {})], [('BB', {}), ('>BB', {'cgsecstruct': 'C'})]]
        s.sections = [('bonds', [('inter', 'bonds', False, [m(c0), m(c1)], ['1', '0.35'], None, False, ['1', '0.35'])]),
                      ('patterns', [('pattern', [('BB', {'cgsecstruct': 'H'}), ('>BB', None)]),
                                    ('pattern', [('BB', None), ('>BB', {'cgsecstruct': 'C'})])])]
        mol = chain([(1, 'ALA'), (2, 'ALA'), (3, 'ALA'), (5, 'ALA')])
        for n_, ss_ in zip(range(0, 8, 2), 'HEEH'):
            mol.nodes[n_]['cgsecstruct'] = ss_
        out.append(('corpus-text-pattern-linkwide', mol, [s], []))
        # 5. a non-edge partner without attributes of its own inherits the link-wide ones (seeded change C13h)
        s = Sem()
        s.wide['resname'] = 'ALA'
        d0 = Atom(0, 'BB', 0, 'BB', dict(s.wide))
        s.atoms = [d0]
        s.inters = [('position_restraints', [0], ['1', '1000'], {})]
        s.non_edges = [('BB', {'resname': 'ALA', 'order': 1, 'atomname': 'BB'})]
        s.sections = [('position_restraints', [('inter', 'position_restraints', False, [m(d0)], ['1', '1000'], None, False, ['1', '1000'])]),
                      ('non-edges', [('nonedge', m(d0), m(Atom(-1, 'BB', 1, 'BB', {})))])]
        out.append(('corpus-text-nonedge-inherits', chain([(1, 'ALA'), (2, 'ALA'), (3, 'GLY'), (4, 'ALA')]), [s], []))
        return out

    # ------------------------------------------------------------------------------------------
    # component stream: one dictionary written on one line
    # ------------------------------------------------------------------------------------------
    def component_stream():
        rng = chk.rng('text-effective')
        lines_out, meta = [], []
        n = 1500 if chk.thorough else 320
        keys = ['resname', 'cgsecstruct', 'atype', 'flag', 'cgidr']
        vocab = dict(VOCAB, cgidr=[True, False])

        def rand_val(key, allow_pred):
            r = rng.random()
            strs = [x for x in vocab[key] if isinstance(x, str)]
            if r < 0.3 and len(strs) >= 2:
                return Choice(rng.sample(strs, rng.randint(2, min(3, len(strs)))))
            if r < 0.4 and allow_pred:
                return NotDefinedOrNot(rng.choice(vocab[key]))
            if r < 0.47:
                return None
            return rng.choice(vocab[key])
        for i in range(n):
            site = rng.choice(['atom', 'inter', 'nonedge', 'nonedge', 'pattern', 'del'])
            wide = collections.OrderedDict((k_, rand_val(k_, True)) for k_ in rng.sample(keys, rng.randint(0, 3)))
            lkeys = rng.sample(keys, rng.randint(0, 3))
            if wide and rng.random() < 0.7 and not set(lkeys) & set(wide):
                lkeys.append(rng.choice(list(wide)))
            written = collections.OrderedDict((k_, rand_val(k_, False)) for k_ in lkeys)
            order = rng.choice([0, 0, 1, -1, 2, '>', '<<', '*'])
            ref = prefix_of(order) + 'BB'
            link = Link()
            link._apply_to_all_nodes = dict(wide)
            tokens = collections.deque()
            try:
                if site == 'atom':
                    ffinput._parse_link_atom(collections.deque([ref, jdict(written)]), link)
                    got = dict(link.nodes[ref])
                elif site == 'inter':
                    ffinput._base_parser(collections.deque([ref, jdict(written), '1', '0.3']), link, 'link', 'position_restraints', natoms=1)
                    got = dict(link.nodes[ref])
                elif site == 'nonedge':
                    ffinput._parse_edges(collections.deque(['SC1', ref, jdict(written)]), link, 'link', negate=True)
                    got = dict(link.non_edges[0][1])
                elif site == 'pattern':
                    ffinput._parse_patterns(collections.deque([ref, jdict(written)]), link, 'link')
                    got = dict(link.patterns[0][0][1])
                else:
                    ffinput._base_parser(collections.deque([ref, jdict(written), '1', '0.3']), link, 'link', 'position_restraints', natoms=1,
                                         delete=True)
                    got = dict(link.removed_interactions['position_restraints'][0].atom_attrs[0])
                impl = None
            except Exception as e:
                got, impl = None, 'raises %s' % type(e).__name__
            # the rule, stated independently: the line wins; patterns and removal templates stand alone
            line_attrs = dict(written)
            if site in ('atom', 'inter', 'nonedge'):
                line_attrs['order'] = order
                line_attrs['atomname'] = 'BB'
                want = dict(wide)
                want.update(line_attrs)
            else:
                want = dict(written)
            errs = []
            if got is None:
                errs.append('%s line %s %s under link-wide %s: %s' % (site, ref, jdict(written), dict(wide), impl))
            else:
                for k_ in sorted(set(want) | set(got)):
                    if k_ not in got or k_ not in want or not same(got[k_], want[k_]):
                        errs.append('%s line "%s %s" under link-wide attributes %s: attribute %s is %r, declared %r'
                                    % (site, ref, jdict(written), {a: wide_token(b) for a, b in wide.items()}, k_,
                                       got.get(k_, '<absent>'), want.get(k_, '<absent>')))
                        break
                impl = enc(sorted(norm(pattrs(got, ptval)), key=repr))
            lines_out.append(line('effective', site, pattrs(wide, ptval), pattrs(line_attrs, ptval)))
            overlap = bool(set(written) & set(wide))
            chk.count('text_effective_%s_%s' % (site, 'overlap' if overlap else 'disjoint'))
            meta.append(('effective-%d' % i, impl, errs, overlap))
        models = chk.drv.ask(lines_out) if chk.lean_ok else [None] * len(lines_out)
        for ln, mo, (cid, impl, errs, nt) in zip(lines_out, models, meta):
            mo_c = None
            if mo is not None:
                d = G['try_dec'](mo)
                mo_c = enc(sorted(norm(d[0]), key=repr)) if isinstance(d, list) and d else str(mo)
            chk.case(cid, ln, impl, mo_c, errs, nt)

    file_stream()
    component_stream()
