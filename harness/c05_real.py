"""C05, thorough tier: the links of the shipped force fields on coarse-grained proteins.

martinize2 is run in-process on the tier-0 / tier-1 test structures; the molecules are captured
just before DoLinks.  For every link of the force field the placements of the real match_link
(and the number of raw matches of networkx' GraphMatcher) are compared with the verified
reference matcher through the Lean driver and with the brute-force oracle; for molecules that are
small enough the whole DoLinks run is compared with the model as well.
"""
import copy
import glob
import logging
import os
import runpy
import sys
import tempfile
import time

from common import REPO, quiet_vermouth_logs

RUNS = [
    ('martini3001', ['tier-0/dipro-termini', 'tier-0/mini-protein1_betasheet', 'tier-0/mini-protein3_trp-cage',
                     'tier-1/1UBQ', 'tier-1/bpti', 'tier-1/hst5', 'tier-1/villin', 'tier-1/6LFO_gap',
                     'tier-1/3i40', 'tier-1/lysozyme']),
    ('martini22', ['tier-0/mini-protein1_betasheet', 'tier-0/mini-protein3_trp-cage', 'tier-1/villin',
                   'tier-1/6LFO_gap', 'tier-1/bpti']),
    ('elnedyn22', ['tier-0/mini-protein1_betasheet', 'tier-1/villin', 'tier-1/3i40', 'tier-1/hst5']),
]
MAX_MATCH_NODES = 400      # reference matcher: molecules above this size are skipped (counted)
MAX_APPLY_NODES = 400      # whole DoLinks run through the model


class Abort(Exception):
    pass


def capture(pdb, ff, clone, extra=()):
    """molecules of the system as they are handed to DoLinks"""
    from vermouth.processors import do_links
    got = []

    def grab(self, system):
        got.extend(clone(m) for m in system.molecules)
        raise Abort()
    orig = do_links.DoLinks.run_system
    do_links.DoLinks.run_system = grab
    old = sys.argv
    tmp = tempfile.mkdtemp(prefix='verif_c05_')
    sys.argv = ['martinize2', '-f', pdb, '-x', os.path.join(tmp, 'cg.pdb'), '-o', os.path.join(tmp, 'topol.top'),
                '-ff', ff, '-dssp', '-maxwarn', '100000', '-cys', 'auto'] + list(extra)
    err = None
    try:
        runpy.run_path(os.path.join(REPO, 'bin', 'martinize2'), run_name='__main__')
    except Abort:
        pass
    except BaseException as e:      # SystemExit included
        err = '%s: %s' % (type(e).__name__, e)
    finally:
        sys.argv = old
        do_links.DoLinks.run_system = orig
        quiet_vermouth_logs()
    return got, err


def run(chk, g):
    enc_link, match_case, finish_match_cases = g['enc_link'], g['match_case'], g['finish_match_cases']
    apply_case, finish_apply_cases = g['apply_case'], g['finish_apply_cases']
    base = os.path.join(REPO, 'vermouth', 'tests', 'data', 'integration_tests')
    chk.trusted.append('bin/martinize2 pipeline up to DoLinks as the source of realistic coarse-grained molecules')
    lines, pending, alines, apending = [], [], [], []
    for ff, dirs in RUNS:
        for d in dirs:
            pdbs = [p for p in glob.glob(os.path.join(base, d, '*.pdb'))]
            if not pdbs:
                chk.count('real_no_structure')
                continue
            t = time.time()
            mols, err = capture(sorted(pdbs)[0], ff, g['clone'])
            if err or not mols:
                chk.count('real_pipeline_failed')
                chk.notes.append('martinize2 failed before DoLinks on %s with %s: %s' % (d, ff, err))
                continue
            chk.count('real_structures')
            for mi, mol in enumerate(mols):
                links = mol.force_field.links
                chk.count('real_molecules')
                if len(mol) > MAX_MATCH_NODES:
                    chk.count('real_skipped_molecule_too_large_for_reference', len(links))
                    continue
                for li, link in enumerate(links):
                    chk.count('real_links')
                    match_case('real-%s-%s-m%d-link%d' % (ff, os.path.basename(d), mi, li), mol, link, lines, pending,
                               cap=200000)
                if len(mol) <= MAX_APPLY_NODES:
                    chk.count('real_apply_runs')
                    apply_case('real-apply-%s-%s-m%d' % (ff, os.path.basename(d), mi), mol, list(links), alines, apending)
                else:
                    chk.count('real_apply_skipped_too_large')
    finish_match_cases(lines, pending)
    finish_apply_cases(alines, apending)
