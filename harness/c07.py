#!/venv/bin/python
"""C07 - no output from a run with unwaived warnings; existing files are never lost.
Model: lean/VermouthModel/C07.lean; theorems: lean/VermouthProps/C07.lean.

Three parts:
  A. static: every `open(` in the writer modules named by the property resolves to the
     deferred open unless defer_writing=False (AST walk of the live sources);
  B. deferred writer: random histories of open/write/reopen/finalise/close with injected
     crashes on a fresh DeferredFileWriter in a scratch directory, compared op by op with
     the Lean model (driver_c07 `run`) and judged by an independent oracle;
  C. CLI: bin/martinize2 in-process on tier-0 inputs with warning-raising options and
     -maxwarn combinations; audit hook on every open-for-writing; exit code and directory
     contents compared with the model of the gate (driver_c07 `cli`) and judged by the oracle.
"""
import os
os.environ.setdefault('COVERAGE_CORE', 'sysmon')   # coverage.py through sys.monitoring: no per-line tracer cost
import ast
import io
import logging
import runpy
import shutil
import tempfile
import time
from common import *

chk = Check('C07')
chk.extra['rule'] = ('writer histories: random sequences of deferred opens (modes r,w,a,r+,w+,a+,x; text and binary) '
                     'with writes, reopen, finalise (optionally interrupted before the k-th mutating system call) and '
                     'close over 1-5 names incl. backup-shaped names and pre-existing backups; CLI: martinize2 runs on '
                     'tier-0 inputs x warning-raising options x -maxwarn. A case is non-trivial if a destination '
                     'pre-exists, or a crash point lies strictly inside finalisation, or it is a CLI run with >= 1 '
                     'warning; distinct = distinct protocol line. CLI runs also cover every file-writing branch of entry() once blocked by '
                     'the gate and once passed (see cli_branches), runs stopping before the gate, and per seed a few random '
                     'combinations of the options that decide the set of files; white-box pending tables and direct calls of the '
                     'library writers complete the stream')


def extract_names():
    """The string constants that decide the names of the files the CLI writes, read from the sources (AST):
    the two `itp_paths` dictionaries of `entry`, `const=` of -go-write-file, `default=` of -name
    (bin/martinize2); `"{}.itp".format(moltype)` (write_gmx_topology); `'chain_{}.ssd'` (_savefile_path)."""
    tree = ast.parse(open(os.path.join(REPO, 'bin', 'martinize2')).read())
    entry = next(n for n in tree.body if isinstance(n, ast.FunctionDef) and n.name == 'entry')
    dicts = []

    def visit(stmts, tests):
        for st in stmts:
            if isinstance(st, ast.If):
                t = ast.unparse(st.test)
                visit(st.body, tests + [t])
                visit(st.orelse, tests + ['not (%s)' % t])
            elif isinstance(st, (ast.For, ast.While, ast.With, ast.Try)):
                for fld in ('body', 'orelse', 'finalbody'):
                    visit(getattr(st, fld, []) or [], tests)
                for h in getattr(st, 'handlers', []):
                    visit(h.body, tests)
            elif (isinstance(st, ast.Assign) and len(st.targets) == 1 and isinstance(st.targets[0], ast.Name)
                  and st.targets[0].id == 'itp_paths' and isinstance(st.value, ast.Dict)):
                d = {k.value: v.value for k, v in zip(st.value.keys, st.value.values)
                     if isinstance(k, ast.Constant) and isinstance(v, ast.Constant)}
                dicts.append((tests, d))
    visit(entry.body, [])
    go = [d for t, d in dicts if any('go_map' in x and not x.startswith('not (') for x in t)]
    vs = [d for t, d in dicts if any('water_bias' in x and not x.startswith('not (') for x in t)
          and not any('go_map' in x and not x.startswith('not (') for x in t)]
    if len(go) != 1 or len(vs) != 1 or any(set(d) != {'atomtypes', 'nonbond_params'} for d in go + vs):
        raise ValueError('itp_paths dictionaries of entry() not found as expected: %r' % (dicts,))
    args = {}
    for n in ast.walk(entry):
        if (isinstance(n, ast.Call) and isinstance(n.func, ast.Attribute) and n.func.attr == 'add_argument' and n.args
                and isinstance(n.args[0], ast.Constant)):
            args[n.args[0].value] = {kw.arg: kw.value.value for kw in n.keywords if isinstance(kw.value, ast.Constant)}
    names = {'goAtomtypes': go[0]['atomtypes'], 'goNonbond': go[0]['nonbond_params'],
             'vsAtomtypes': vs[0]['atomtypes'], 'vsNonbond': vs[0]['nonbond_params'],
             'goWriteConst': args['-go-write-file']['const'], 'defaultMolname': args['-name']['default']}
    ttree = ast.parse(open(os.path.join(REPO, 'vermouth', 'gmx', 'topology.py')).read())
    fn = next(n for n in ast.walk(ttree) if isinstance(n, ast.FunctionDef) and n.name == 'write_gmx_topology')
    fmts = [n.func.value.value for n in ast.walk(fn)
            if isinstance(n, ast.Call) and isinstance(n.func, ast.Attribute) and n.func.attr == 'format'
            and isinstance(n.func.value, ast.Constant) and isinstance(n.func.value.value, str)
            and len(n.args) == 1 and isinstance(n.args[0], ast.Name) and n.args[0].id == 'moltype']
    if len(fmts) != 1 or not fmts[0].startswith('{}'):
        raise ValueError('moltype ITP name format not found as expected: %r' % (fmts,))
    names['itpSuffix'] = fmts[0][2:]
    dtree = ast.parse(open(os.path.join(REPO, 'vermouth', 'dssp', 'dssp.py')).read())
    fn = next(n for n in ast.walk(dtree) if isinstance(n, ast.FunctionDef) and n.name == '_savefile_path')
    fmts = [n.value for n in ast.walk(fn) if isinstance(n, ast.Constant) and isinstance(n.value, str) and '{}' in n.value
            and 'savedir' not in n.value]
    if len(fmts) != 1 or fmts[0].count('{}') != 1:
        raise ValueError('DSSP save file name format not found as expected: %r' % (fmts,))
    names['ssdPrefix'], names['ssdSuffix'] = fmts[0].split('{}')
    names['noOutpath'] = str(None)
    if any(not isinstance(v, str) or not re.fullmatch(r'[A-Za-z0-9_.\-]*', v) for v in names.values()):
        raise ValueError('unexpected characters in the extracted names: %r' % (names,))
    return names


def names_lean(names):
    order = ['goAtomtypes', 'goNonbond', 'vsAtomtypes', 'vsNonbond', 'goWriteConst', 'defaultMolname', 'itpSuffix',
             'ssdPrefix', 'ssdSuffix', 'noOutpath']
    body = '\n'.join('    %s := "%s"' % (k, names[k]) for k in order)
    return ('import VermouthModel.C07_Cli\n'
            '/-! GENERATED by harness/c07.py on every run of the C07 check from bin/martinize2 (`itp_paths` dictionaries of\n'
            '`entry`, `const=` of -go-write-file, `default=` of -name), vermouth/gmx/topology.py (`"{}.itp".format(moltype)`)\n'
            "and vermouth/dssp/dssp.py (`'chain_{}.ssd'`).  Do not edit. -/\n"
            'namespace C07\n\ndef generatedNames : Names :=\n  {' + body[3:] + ' }\n\nend C07\n')


names_err = None
try:
    NAMES = extract_names()
    chk.extra['extracted_names'] = NAMES
    chk.lean(["VermouthProps.C07", "VermouthProps.C07_Cli"], "driver_c07", generated={'C07Names.lean': names_lean(NAMES)})
except Exception as e:  # noqa  (the sources no longer have the shape the extraction expects)
    names_err = 'cannot extract the output file names from the sources: %r' % (e,)
    chk.lean(["VermouthProps.C07", "VermouthProps.C07_Cli"], "driver_c07")
chk.trusted.append('harness/c07.py: name <-> Path parser (#name.N# pattern), crash injection shims in the '
                   'vermouth.file_writer namespace, audit hook, oracle')
chk.trusted.append('harness/c07_static.py: AST classification of file-writing calls and name-based reachability; the table '
                   'ALLOWED_UNDEFERRED of accounted-for undeferred sites; the stand-in DSSP executable and the observation hooks '
                   '(gate, write_gmx_topology, run_dssp) of the CLI runs')
chk.assumptions.append('file-system steps (rename, create, append, unlink) are atomic; temp directory disjoint from '
                       'destinations; one directory; text-mode data is ASCII (CR included)')

import vermouth.file_writer as FW
from vermouth.file_writer import DeferredFileWriter

SCRATCH = tempfile.mkdtemp(prefix='verif_c07_')
BAK_RE = re.compile(r'^#(.+)\.([1-9][0-9]*)#$', re.S)
MODES = ['r', 'w', 'a', 'r+', 'w+', 'a+', 'x']


def enc_list(items):
    return '[ ' + ' '.join(items) + ' ]' if items else '[ ]'


def parse_name(s):
    """real file name -> protocol Path (mirror of Drivers/C07.lean `render`)"""
    m = BAK_RE.match(s)
    if m:
        return [1, parse_name(m.group(1)), int(m.group(2))]
    return [0, s]


def mode_kind(mode):
    return MODES.index(mode.replace('b', '').replace('t', ''))


def b2s(b):
    return b.decode('latin-1')


# ----------------------------------------------------------------------------
# A. static check of the call sites
# ----------------------------------------------------------------------------
WRITER_MODULES = ['vermouth/gmx/topology.py', 'vermouth/pdb/pdb.py', 'vermouth/gmx/gro.py',
                  'vermouth/dssp/dssp.py', 'vermouth/rcsu/contact_map.py']


def static_open_sites(relpath):
    """Return [(lineno, verdict, detail)] for every call `open(...)`/`*.open(...)`/`os.fdopen`
    that opens a file for writing in the module.  verdict in
    deferred | guarded (local `open = deferred_open` under `if defer_writing`) | read | tempfile | BYPASS"""
    src = open(os.path.join(REPO, relpath)).read()
    tree = ast.parse(src)
    imported_deferred = any(isinstance(n, ast.ImportFrom) and n.module and n.module.endswith('file_writer')
                            and any(a.name == 'deferred_open' for a in n.names) for n in ast.walk(tree))
    out = []

    def mode_of(call):
        mode = None
        if len(call.args) >= 2:
            mode = call.args[1]
        for kw in call.keywords:
            if kw.arg == 'mode':
                mode = kw.value
        if mode is None:
            return 'r'
        if isinstance(mode, ast.Constant) and isinstance(mode.value, str):
            return mode.value
        return '?'

    for fn in [n for n in ast.walk(tree) if isinstance(n, (ast.FunctionDef, ast.Module))]:
        body_nodes = list(ast.walk(fn)) if isinstance(fn, ast.FunctionDef) else []
        if isinstance(fn, ast.Module):
            # module level statements only (functions handled on their own)
            body_nodes = []
            for st in fn.body:
                if not isinstance(st, (ast.FunctionDef, ast.ClassDef)):
                    body_nodes += list(ast.walk(st))
            for cls in [n for n in fn.body if isinstance(n, ast.ClassDef)]:
                for st in cls.body:
                    if not isinstance(st, ast.FunctionDef):
                        body_nodes += list(ast.walk(st))
        # does the function rebind `open` to deferred_open under `if defer_writing:` ?
        guarded = False
        has_param = isinstance(fn, ast.FunctionDef) and any(a.arg == 'defer_writing' for a in fn.args.args + fn.args.kwonlyargs)
        default_true = False
        if has_param:
            args = fn.args.args
            defaults = fn.args.defaults
            for a, d in zip(args[len(args) - len(defaults):], defaults):
                if a.arg == 'defer_writing' and isinstance(d, ast.Constant) and d.value is True:
                    default_true = True
        for n in body_nodes:
            if isinstance(n, ast.If) and isinstance(n.test, ast.Name) and n.test.id == 'defer_writing':
                for st in n.body:
                    if (isinstance(st, ast.Assign) and len(st.targets) == 1 and isinstance(st.targets[0], ast.Name)
                            and st.targets[0].id == 'open' and isinstance(st.value, ast.Name)
                            and st.value.id == 'deferred_open'):
                        guarded = True
        other_open_assign = any(isinstance(n, ast.Assign) and any(isinstance(t, ast.Name) and t.id == 'open' for t in n.targets)
                                and not (isinstance(n.value, ast.Name) and n.value.id == 'deferred_open') for n in body_nodes)
        for n in body_nodes:
            if not isinstance(n, ast.Call):
                continue
            f = n.func
            name = f.id if isinstance(f, ast.Name) else (f.attr if isinstance(f, ast.Attribute) else None)
            if name == 'fdopen':
                out.append((n.lineno, 'tempfile', 'os.fdopen'))
                continue
            if name not in ('open', 'deferred_open', '_open'):
                continue
            mode = mode_of(n)
            writing = any(c in mode for c in 'wax+?')
            if not writing:
                out.append((n.lineno, 'read', mode))
            elif name == 'deferred_open' and isinstance(f, ast.Name) and imported_deferred:
                out.append((n.lineno, 'deferred', mode))
            elif (name == 'open' and isinstance(f, ast.Name) and guarded and has_param and default_true
                  and not other_open_assign):
                out.append((n.lineno, 'guarded', mode))
            else:
                out.append((n.lineno, 'BYPASS', '%s(..., %r)' % (name, mode)))
    # de-duplicate (nested functions are walked twice)
    return sorted(set(out))


static_errs = [names_err] if names_err else []
static_summary = {}
for rel in WRITER_MODULES:
    try:
        sites = static_open_sites(rel)
    except Exception as e:  # noqa
        static_errs.append('%s: cannot analyse (%r)' % (rel, e))
        continue
    static_summary[rel] = ['%d:%s' % (l, v) for l, v, d in sites]
    for l, v, d in sites:
        chk.count('static_' + v)
        if v == 'BYPASS':
            static_errs.append('%s:%d opens a file for writing with %s, not through deferred_open' % (rel, l, d))
    if not any(v in ('deferred', 'guarded') for l, v, d in sites):
        static_errs.append('%s: no deferred write site found (anchor moved?)' % rel)
# the module-level binding itself
if getattr(FW.deferred_open, '__self__', None) is not DeferredFileWriter() or FW.deferred_open.__func__ is not DeferredFileWriter.open:
    static_errs.append('vermouth.file_writer.deferred_open is not DeferredFileWriter().open')
chk.extra['static_open_sites'] = static_summary
chk.case('static-open-sites', line('static', [[k, ' '.join(v)] for k, v in sorted(static_summary.items())]),
         'ok' if not static_errs else 'bypass', None, static_errs, True)


# ---- A2. every call under vermouth/ and bin/ that can create, change or remove a file ------------------------
import c07_static

# The sites that write without the deferred writer, by (file, what is called, mode): how many there are and why
# that is no violation.  No line numbers, no function or variable names: moving code or renaming does not matter.
ALLOWED_UNDEFERRED = {
    ('vermouth/file_writer.py', 'tempfile.mkstemp', '-'): (1, 'temp: the writer\'s temporary file (in the system temp directory)'),
    ('vermouth/file_writer.py', 'os.fdopen', '?'): (1, 'temp: handle of the temporary'),
    ('vermouth/file_writer.py', 'shutil.copy2', '-'): (1, 'temp: r+ copies the destination INTO the temporary'),
    ('vermouth/file_writer.py', 'open', '?'): (2, 'temp: reopen of a pending temporary; pass-through of a read-only open'),
    ('vermouth/file_writer.py', 'os.remove', '-'): (3, 'temp: removes temporaries (failed r+, after append, close())'),
    ('vermouth/file_writer.py', 'shutil.move', '-'): (2, 'finalisation: backup move and move into place'),
    ('vermouth/file_writer.py', 'open', 'ab'): (1, 'finalisation: append'),
    ('vermouth/dssp/dssp.py', 'tempfile.mkstemp', '-'): (2, 'temp: DSSP/MDTraj input dump dssp_in_*.pdb in the working directory (F-C07-2)'),
    ('vermouth/dssp/dssp.py', 'os.fdopen', 'w'): (2, 'temp: handle of the DSSP input dump'),
    ('vermouth/dssp/dssp.py', 'os.remove', '-'): (2, 'temp: removes the DSSP input dump'),
    ('vermouth/dssp/dssp.py', 'subprocess.run', '-'): (2, 'external: the DSSP executable (--version, -i <dump>)'),
}
sites_errs = []
try:
    SITES, scan_stats = c07_static.scan(REPO)
except Exception as e:  # noqa
    SITES, scan_stats = [], {}
    sites_errs.append('cannot analyse the sources: %r' % (e,))
by_key = {}
for st in SITES:
    chk.count('site_%s%s' % (st['cls'], '' if st['reachable'] else '_unreachable'))
    by_key.setdefault((st['file'], st['callee'], st['mode'], st['cls']), []).append(st)
inventory = []
for (f, callee, mode, cls), lst in sorted(by_key.items()):
    inventory.append([f, callee, mode, cls, len(lst), sum(1 for x in lst if x['reachable'])])
    if cls != 'undeferred':
        continue
    allowed, why = ALLOWED_UNDEFERRED.get((f, callee, mode), (0, None))
    if len(lst) > allowed:
        where = ', '.join('%s:%d in %s()%s' % (x['file'], x['line'], x['function'], '' if x['reachable'] else ' [not reachable from the CLI]')
                          for x in sorted(lst, key=lambda x: x['line']))
        msg = ('%d call(s) of %s%s in %s write without the deferred writer, %d accounted for%s: %s'
               % (len(lst), callee, '' if mode == '-' else '(mode %r)' % mode, f, allowed,
                  ' (%s)' % why if why else '', where))
        if any(x['reachable'] for x in lst):
            sites_errs.append(msg)
        else:
            chk.notes.append('static: ' + msg)
if not any(st['cls'] == 'debug' for st in SITES) and not sites_errs:
    sites_errs.append('no explicitly undeferred debug dump found in bin/martinize2 (anchor moved?)')
chk.extra['write_sites'] = {'stats': scan_stats, 'inventory': inventory}
chk.case('static-write-sites', line('sites', [[a, b, c, d, str(e)] for a, b, c, d, e, g in inventory]),
         'ok' if not sites_errs else 'undeferred-write-site', None, sites_errs, True)

# ----------------------------------------------------------------------------
# B. deferred writer histories
# ----------------------------------------------------------------------------
class Crash(Exception):
    pass


class Injector:
    """Counts the mutating system calls made by DeferredFileWriter.write() and raises
    before call number fuel+1.  Installed in the namespace of vermouth.file_writer."""

    def __init__(self):
        self.active = False
        self.fuel = None
        self.calls = 0
        self.real_os, self.real_shutil, self.real_open = FW.os, FW.shutil, FW._open
        inj = self

        class OsProxy:
            def __getattr__(self, name):
                return getattr(inj.real_os, name)

            def remove(self, path):
                inj.tick()
                return inj.real_os.remove(path)

        class ShutilProxy:
            def __getattr__(self, name):
                return getattr(inj.real_shutil, name)

            def move(self, *a, **k):
                inj.tick()
                return inj.real_shutil.move(*a, **k)

        def open_proxy(*a, **k):
            if inj.active:
                inj.tick()
            return inj.real_open(*a, **k)

        self.os_proxy, self.shutil_proxy, self.open_proxy = OsProxy(), ShutilProxy(), open_proxy

    def tick(self):
        if not self.active:
            return
        if self.fuel is not None and self.calls >= self.fuel:
            raise Crash()
        self.calls += 1

    def install(self):
        FW.os, FW.shutil, FW._open = self.os_proxy, self.shutil_proxy, self.open_proxy

    def uninstall(self):
        FW.os, FW.shutil, FW._open = self.real_os, self.real_shutil, self.real_open


INJ = Injector()


def snapshot_dir(d):
    return {n: open(os.path.join(d, n), 'rb').read() for n in os.listdir(d) if os.path.isfile(os.path.join(d, n))}


def run_history(files, ops):
    """Execute on the real code.  files: {name: bytes}; ops: list of tuples
    ('open', name, modestring, bytes) | ('fin', fuel or None) | ('close',).
    Returns per op: (res, pending, user snapshot, tmp snapshot, crashed)."""
    d = tempfile.mkdtemp(dir=SCRATCH)
    td = os.path.join(d, '_tmp')
    os.mkdir(td)
    for n, c in files.items():
        with open(os.path.join(d, n), 'wb') as f:
            f.write(c)
    W = type.__call__(DeferredFileWriter)
    W._tmpdir = td
    tmpno = {}
    out = []
    INJ.install()
    try:
        for op in ops:
            res = 'ok'
            crashed = False
            if op[0] == 'open':
                _, name, mode, data = op
                try:
                    h = W.open(os.path.join(d, name), mode)
                except FileNotFoundError:
                    res = 'notfound'
                except FileExistsError:
                    res = 'exists'
                except KeyError:
                    res = 'keyerror'
                except Exception as e:  # noqa
                    res = 'exception:' + type(e).__name__
                else:
                    with h:
                        if mode_kind(mode) == 0:
                            got = h.read()
                            res = 'content:' + enc(got if isinstance(got, str) else b2s(got))
                        else:
                            h.write(data if 'b' in mode else data.decode('ascii'))
            elif op[0] == 'fin':
                INJ.active, INJ.fuel, INJ.calls = True, op[1], 0
                try:
                    W.write()
                except Crash:
                    crashed = True
                except Exception as e:  # noqa  (anything but the injected crash is a failure of write() itself)
                    res = 'exception:' + type(e).__name__
                    crashed = True
                finally:
                    INJ.active = False
            else:
                W.close()
            for tp, fp, m in W.open_files:
                if tp not in tmpno:
                    tmpno[tp] = len(tmpno)
            pending = [[tmpno[tp], os.path.basename(str(fp)), mode_kind(m)] for tp, fp, m in W.open_files]
            user = snapshot_dir(d)
            tmps = {}
            for n in os.listdir(td):
                p = os.path.join(td, n)
                tmps['tmp/%d' % tmpno[p]] = open(p, 'rb').read()
            out.append((res, pending, user, tmps, crashed))
    finally:
        INJ.uninstall()
        W.open_files.clear()
        shutil.rmtree(d, ignore_errors=True)
    return out


def canon_result(out):
    items = []
    for res, pending, user, tmps, crashed in out:
        snap = dict((k, b2s(v)) for k, v in user.items())
        snap.update((k, b2s(v)) for k, v in tmps.items())
        items.append(enc_list([res, enc(pending), enc([[k, snap[k]] for k in sorted(snap)])]))
    return enc_list(items)


def proto_history(files, ops):
    fl = [[parse_name(n), b2s(c)] for n, c in files.items()]
    ol = []
    for op in ops:
        if op[0] == 'open':
            ol.append([0, parse_name(op[1]), mode_kind(op[2]), b2s(op[3])])
        elif op[0] == 'fin':
            ol.append([1, op[1]])
        else:
            ol.append([2])
    return line('run', fl, ol)


# ---- oracle -----------------------------------------------------------------
def closure_names(name, listing):
    """names in `listing` that are `name` or an iterated backup name of it"""
    res = []
    for n in listing:
        m = n
        while True:
            if m == name:
                res.append(n)
                break
            mm = BAK_RE.match(m)
            if not mm:
                break
            m = mm.group(1)
    return res


def first_free_backup(name, listing):
    i = 1
    while '#%s.%d#' % (name, i) in listing:
        i += 1
    return '#%s.%d#' % (name, i)


def oracle_history(files, ops, out):
    """Independent statement of the property on the observed directory contents."""
    errs = []
    prev_user = dict(files)
    # direct-write bookkeeping since the last finalise/close: name -> ('w', bytes) | ('a', bytes) ; None = not plain
    written = {}
    aplus_first, trunc_after_aplus = set(), set()   # signature of F-C07-4
    dirty = False  # a crashed finalisation happened: later content clauses are not applied
    for i, (op, (res, pending, user, tmps, crashed)) in enumerate(zip(ops, out)):
        if res.startswith('exception:'):
            errs.append('op %d %r raised %s' % (i, op[:3], res[10:]))
        if op[0] == 'open':
            if user != prev_user:
                errs.append('op %d %r changed the destination directory before finalisation: %s'
                            % (i, op[:3], sorted(set(user.items()) ^ set(prev_user.items()))[:3]))
            _, name, mode, data = op
            k = mode_kind(mode)
            if res == 'ok' and k != 0:
                if k == 1 or k == 4:
                    if name in aplus_first:
                        trunc_after_aplus.add(name)
                    written[name] = ('w', data) if written.get(name, 1) is not None else None
                elif k == 2 or k == 5:
                    if k == 5 and name not in written:
                        aplus_first.add(name)
                    if name in written:
                        if written[name] is not None:
                            written[name] = (written[name][0], written[name][1] + data)
                    else:
                        written[name] = ('a', data)
                else:
                    written[name] = None       # update modes: content clause not applied
            # a failed open (r+ on a missing file, x) registers nothing: the name stays out of `written`,
            # so the 'unrelated file changed' clause applies to it
        elif op[0] == 'close':
            if user != prev_user:
                errs.append('op %d close() changed the destination directory' % i)
            if tmps and not dirty:
                errs.append('op %d close() left temporary files behind: %s' % (i, sorted(tmps)))
            written = {}
            aplus_first.clear()
        else:
            dests = list(written)
            # no pre-existing file is lost, whether or not the finalisation was interrupted
            for n, c in prev_user.items():
                cands = closure_names(n, user)
                ok = any(user[m] == c for m in cands)
                if not ok:
                    # an append destination may have grown; c must remain a prefix
                    ok = any(user[m].startswith(c) and (m in dests) and (written.get(m) is None or written[m][0] == 'a')
                             for m in cands)
                if not ok:
                    errs.append('op %d finalise(%s): pre-existing file %r (%d bytes) is no longer found intact under '
                                'its own or a backup name' % (i, 'crash@%s' % op[1] if crashed else 'complete', n, len(c)))
            adversarial = any(BAK_RE.match(n) and closure_names(BAK_RE.match(n).group(1), dests) for n in dests)
            if not crashed and not dirty:
                for n, w in written.items():
                    if w is None:
                        continue
                    kind, data = w
                    if kind == 'w':
                        if user.get(n) != data:
                            errs.append('op %d finalise: %r holds %r..., written for it: %r...' % (i, n, user.get(n, b'<missing>')[:20], data[:20]))
                        if n in prev_user and not adversarial:
                            bk = first_free_backup(n, prev_user)
                            if user.get(bk) != prev_user[n]:
                                errs.append('op %d finalise: old %r not found byte for byte at first free backup %r' % (i, n, bk))
                    else:
                        want = (prev_user.get(n, b'') if not adversarial else None)
                        if want is not None and user.get(n) != want + data:
                            errs.append('op %d finalise: appended %r holds %r..., expected old+written %r...'
                                        % (i, n, user.get(n, b'<missing>')[:20], (want + data)[:20]))
                if not adversarial:
                    allowed = set(dests) | {first_free_backup(n, prev_user) for n in dests if n in prev_user}
                    for n in set(user) | set(prev_user):
                        if n not in allowed and user.get(n) != prev_user.get(n):
                            errs.append('op %d finalise: unrelated file %r changed' % (i, n))
                if tmps:
                    errs.append('op %d finalise: temporary files left: %s' % (i, sorted(tmps)))
            if crashed:
                dirty = True
            # entries that were not reached stay pending; forget the bookkeeping for finalised ones
            still = {p[1] for p in pending}
            written = {n: (w if not crashed else None) for n, w in written.items() if n in still}
            aplus_first &= still
        prev_user = user
    return errs, bool(trunc_after_aplus)


# ---- generator ----------------------------------------------------------------
BASES = ['a.txt', 'b.itp', 'c', 'x.y.z', 'a.txt.1', 'molecule_0.itp']


def gen_history(rng, maxops):
    base = rng.choice(BASES)
    pool = [base]
    k = rng.random()
    if k < 0.75:
        pool += ['#%s.1#' % base, '#%s.2#' % base]
    if k < 0.25:
        pool += ['##%s.1#.1#' % base, '#%s.3#' % base, '#%s.0#' % base, '#%s.01#' % base]
    pool += rng.sample([b for b in BASES if b != base], rng.randint(0, 2))
    binary = {n: rng.random() < 0.4 for n in pool}
    # destinations: mostly plain names; backup-shaped destinations are the adversarial minority
    dests = [n for n in pool if not BAK_RE.match(n)]
    if rng.random() < 0.2:
        dests += [n for n in pool if BAK_RE.match(n)][:2]

    def blob(binary_ok, lo=0, hi=12):
        n = rng.randint(lo, hi)
        if binary_ok and rng.random() < 0.5:
            return bytes(rng.randrange(256) for _ in range(n))
        return ''.join(rng.choice('abcXYZ 019\n\r;[]') for _ in range(n)).encode()

    files = {}
    for n in pool:
        if rng.random() < (0.6 if not BAK_RE.match(n) else 0.35):
            files[n] = blob(True, 0, 10)
    if rng.random() < 0.01:
        # rare: the destination exists together with ALL backups 1..N (first free index N+1, beyond any cap)
        nbak = rng.choice([99, 100, 130])
        files[base] = blob(True, 1, 10)
        for j in range(1, nbak + 1):
            files['#%s.%d#' % (base, j)] = b'bk%d' % j
        dests = [base] + [n for n in dests if n != base][:1]
    ops = []
    nops = rng.randint(1, maxops)
    plain_only = rng.random() < 0.6
    for _ in range(nops):
        r = rng.random()
        if r < 0.8:
            n = rng.choice(dests)
            if plain_only:
                m = rng.choice(['w', 'w', 'w', 'a', 'a', 'r'])
            else:
                m = rng.choice(['w', 'w', 'w', 'a', 'a', 'a', 'r', 'r+', 'w+', 'a+', 'x'])
            isbin = binary[n] if rng.random() < 0.85 else not binary[n]   # mixed handles on one path
            if isbin or m == 'r':
                m += 'b'
            elif rng.random() < 0.1:
                m += 't'
            ops.append(('open', n, m, blob(isbin)))
        elif r < 0.88:
            ops.append(('fin', None))
        elif r < 0.96:
            ops.append(('fin', rng.randint(0, 7)))
        else:
            ops.append(('close',))
    r = rng.random()
    if r < 0.45:
        ops.append(('fin', None))
    elif r < 0.85:
        ops.append(('fin', rng.randint(0, 2 * len(dests) + 2)))
    if rng.random() < 0.3:
        ops.append(('fin', None))
    return files, ops


def hist_from_json(obj):
    files = {n: bytes.fromhex(c) for n, c in obj['files'].items()}
    ops = []
    for o in obj['ops']:
        if o[0] == 'open':
            ops.append(('open', o[1], o[2], bytes.fromhex(o[3])))
        elif o[0] == 'fin':
            ops.append(('fin', o[1]))
        else:
            ops.append(('close',))
    return files, ops


histories = []
for fn in sorted(os.listdir(os.path.join(VERIF, 'corpus'))):
    if fn.startswith('c07_') and fn.endswith('.json'):
        obj = json.load(open(os.path.join(VERIF, 'corpus', fn)))
        for j, h in enumerate(obj.get('histories', [])):
            histories.append(('corpus-%s-%d' % (fn[4:-5], j),) + hist_from_json(h))
rng = chk.rng('writer')
NH = 25000 if chk.thorough else 1500
for i in range(NH):
    files, ops = gen_history(rng, 40 if chk.thorough and i % 10 == 0 else 12)
    histories.append(('hist-%d' % i, files, ops))

lines, impls, meta = [], [], []
for cid, files, ops in histories:
    out = run_history(files, ops)
    lines.append(proto_history(files, ops))
    impls.append(canon_result(out))
    meta.append((cid, files, ops, out))
models = chk.drv.ask(lines) if chk.lean_ok else [None] * len(lines)
for ln, impl, mo, (cid, files, ops, out) in zip(lines, impls, models, meta):
    errs, sig4 = oracle_history(files, ops, out)
    if sig4:
        chk.count('hist_truncating_reopen_of_pending_a+')
    dests = {o[1] for o in ops if o[0] == 'open' and mode_kind(o[2]) != 0}
    pre = any(n in files for n in dests)
    inner = any(o[0] == 'fin' and r[4] and (o[1] or 0) > 0 for o, r in zip(ops, out))
    chk.count('hist_ops=%d' % (10 * (len(ops) // 10)))
    chk.count('hist_preexisting_dest' if pre else 'hist_fresh_dests_only')
    for o, r in zip(ops, out):
        if o[0] == 'open':
            chk.count('open_' + MODES[mode_kind(o[2])] + ('_' + r[0].split(':')[0] if r[0] != 'ok' else ''))
        elif o[0] == 'fin':
            chk.count('finalise_crashed' if r[4] else 'finalise_complete')
        else:
            chk.count('close')
    if any(BAK_RE.match(n) for n in dests):
        chk.count('hist_backup_shaped_destination')
    if len(files) >= 99:
        chk.count('hist_all_backups_1..N_taken')
    chk.case(cid, ln, impl, mo, errs, pre or inner, finding='F-C07-4' if (errs and sig4) else None)

# ---- B2. white box: a pending table written by hand -------------------------------------------------------------
# write() has two branches that no history of open() reaches (`write_error_branches_unreachable`): a stored mode
# with none of a, w, + raises AssertionError ('r' in it) or KeyError; close() tolerates a temporary that has vanished.
# Here the table is filled in directly and the result compared with `finalizeFuel` / `closeFs` on the same table.
def run_raw(files, table, missing, do_close):
    """files: {name: bytes}; table: [(name, mode, bytes)]; missing: indices whose temporary is deleted before the call"""
    d = tempfile.mkdtemp(dir=SCRATCH)
    td = os.path.join(d, '_tmp')
    os.mkdir(td)
    for n, c in files.items():
        with open(os.path.join(d, n), 'wb') as f:
            f.write(c)
    W = type.__call__(DeferredFileWriter)
    tmpno = {}
    import pathlib
    for k, (n, mode, data) in enumerate(table):
        tp = os.path.join(td, 't%d' % k)
        with open(tp, 'wb') as f:
            f.write(data)
        tmpno[tp] = k
        W.open_files.append([tp, pathlib.Path(d) / n, mode])
    for k in missing:
        os.remove(os.path.join(td, 't%d' % k))
    res = 'ok'
    try:
        if do_close:
            W.close()
        else:
            W.write()
    except AssertionError:
        res = 'assertion'
    except KeyError:
        res = 'keyerror'
    except Exception as e:  # noqa
        res = 'exception:' + type(e).__name__
    pending = [[tmpno[tp], os.path.basename(str(fp)), mode_kind(m)] for tp, fp, m in W.open_files]
    user = snapshot_dir(d)
    tmps = {'tmp/%d' % tmpno[os.path.join(td, n)]: open(os.path.join(td, n), 'rb').read() for n in os.listdir(td)}
    W.open_files.clear()
    shutil.rmtree(d, ignore_errors=True)
    return res, pending, user, tmps


rng = chk.rng('raw')
raw_rows = []
for i in range(400 if chk.thorough else 60):
    base = rng.choice(BASES)
    names = [base] + rng.sample([b for b in BASES if b != base], rng.randint(0, 2))
    files = {n: bytes(rng.choice(b'abc\n') for _ in range(rng.randint(0, 6))) for n in names + ['#%s.1#' % base]
             if rng.random() < 0.6}
    do_close = rng.random() < 0.4
    table = []
    for n in rng.sample(names, rng.randint(1, len(names))):
        if do_close or rng.random() < 0.6:
            mode = rng.choice(['w', 'a', 'w+', 'a+', 'r+', 'wb', 'ab'])
        else:
            mode = rng.choice(['r', 'rb', 'x', 'xb', 'rt'])
        table.append((n, mode, bytes(rng.choice(b'XYZ\n') for _ in range(rng.randint(0, 5)))))
    missing = [k for k in range(len(table)) if do_close and rng.random() < 0.5]
    res, pending, user, tmps = run_raw(files, table, missing, do_close)
    fl = [[parse_name(n), b2s(c)] for n, c in files.items()]
    fl += [[[2, k], b2s(data)] for k, (n, mode, data) in enumerate(table) if k not in missing]
    pl = [[k, parse_name(n), mode_kind(mode)] for k, (n, mode, data) in enumerate(table)]
    snap = dict((k, b2s(v)) for k, v in user.items())
    snap.update((k, b2s(v)) for k, v in tmps.items())
    snap_enc = enc([[k, snap[k]] for k in sorted(snap)])
    errs = []
    if do_close:
        ln = line('rawclose', fl, pl)
        impl = snap_enc if res == 'ok' else res
        chk.count('raw_close' + ('_tmp_vanished' if missing else ''))
        if res != 'ok':
            errs.append('close() raised %s on a pending table with vanished temporaries %s' % (res, missing))
        if user != files:
            errs.append('close() changed the destination directory')
        if tmps or pending:
            errs.append('close() left temporaries %s / pending entries %s' % (sorted(tmps), pending))
    else:
        ln = line('rawfin', fl, pl, None)
        impl = enc_list([enc(res), enc(pending), snap_enc])
        bad = [k for k, (n, mode, data) in enumerate(table) if not any(c in mode for c in 'wa+')]
        chk.count('raw_write_' + res)
        want = 'ok' if not bad else ('assertion' if 'r' in table[bad[0]][1] else 'keyerror')
        if res != want:
            errs.append('write() on a table whose entry %s has mode %r: %s, expected %s'
                        % (bad[:1], table[bad[0]][1] if bad else None, res, want))
        # whatever happened: no pre-existing file is lost, entries behind the offending one stay pending with their data
        for n, c in files.items():
            cands = closure_names(n, user)
            if not any(user[m] == c or (user[m].startswith(c) and any(t[0] == m and 'a' in t[1] for t in table)) for m in cands):
                errs.append('pre-existing file %r lost by write() (%s)' % (n, res))
        if bad:
            for k in range(bad[0] + 1, len(table)):
                if [k, table[k][0], mode_kind(table[k][1])] not in pending or tmps.get('tmp/%d' % k) != table[k][2]:
                    errs.append('entry %d behind the offending one is no longer pending with its data' % k)
    raw_rows.append(('raw-%d' % i, ln, impl, errs, bool(files)))
raw_models = chk.drv.ask([r[1] for r in raw_rows]) if chk.lean_ok else [None] * len(raw_rows)
for (cid, ln, impl, errs, nontriv), mo in zip(raw_rows, raw_models):
    chk.case(cid, ln, impl, mo, errs, nontriv)

# ----------------------------------------------------------------------------
# C. the CLI: gate and set of output files
# ----------------------------------------------------------------------------
import hashlib as _hl
import multiprocessing
import stat
import vermouth.log_helpers as LH
import vermouth.gmx.topology as GT
import vermouth.dssp.dssp as DS
from vermouth.log_helpers import CountingHandler

AUDIT = {'on': False, 'events': [], 'finalising': False}


def _audit(ev, args):
    if ev != 'open' or not AUDIT['on']:
        return
    try:
        path, mode, flags = args
    except Exception:  # noqa
        return
    if not isinstance(path, (str, bytes, os.PathLike)):
        return
    w = False
    if isinstance(mode, str):
        w = any(c in mode for c in 'wax+')
    elif isinstance(flags, int):
        w = bool(flags & (os.O_WRONLY | os.O_RDWR | os.O_CREAT | os.O_APPEND | os.O_TRUNC))
    if w:
        AUDIT['events'].append((os.fsdecode(path), mode if isinstance(mode, str) else 'flags=%o' % (flags or 0),
                                AUDIT['finalising']))


sys.addaudithook(_audit)
M2PATH = os.path.join(REPO, 'bin', 'martinize2')
M2 = runpy.run_path(M2PATH, run_name='verif_m2')
logging.getLogger('vermouth').handlers[:] = []
T0 = os.path.join(REPO, 'vermouth', 'tests', 'data', 'integration_tests', 'tier-0')
DSSP_TMP_RE = re.compile(r'dssp_in_.*\.pdb')
try:
    import mdtraj  # noqa
    HAVE_MDTRAJ = True
except Exception:  # noqa
    HAVE_MDTRAJ = False
    chk.notes.append('mdtraj not importable: the -dssp (mdtraj) runs, F-C07-2 included, were not made')


def sha(b):
    return _hl.sha1(b).hexdigest()[:16]


def run_cli(argv, pre):
    """Run bin/martinize2 in-process in a fresh directory holding the files `pre` (name -> bytes).
    Observation hooks (none of them changes a result): DeferredFileWriter.open/.write, the gate's call of
    ignore_warnings_and_count, the entry of write_gmx_topology, run_dssp and run_mdtraj, and the audit hook."""
    d = tempfile.mkdtemp(dir=SCRATCH, prefix='run_')
    for n, c in pre.items():
        with open(os.path.join(d, n), 'wb') as f:
            f.write(c)
    W = DeferredFileWriter()
    W.close()
    rec = {'opens': [], 'gate': None, 'gate_leftover': None, 'gate_specs': None, 'gate_entries': None, 'top': None, 'dssp': [], 'gate_calls': 0}
    orig_open, orig_write = DeferredFileWriter.open, DeferredFileWriter.write
    orig_iwc, orig_top, orig_rd, orig_rm = LH.ignore_warnings_and_count, GT.write_gmx_topology, DS.run_dssp, DS.run_mdtraj

    def pending_snapshot():
        return [(os.path.relpath(str(fp), d), mode_kind(m), sha(open(tp, 'rb').read())) for tp, fp, m in W.open_files]

    def open_rec(self, filename, mode='r', *a, **k):
        if any(c in mode for c in 'wax+'):
            rec['opens'].append((os.path.relpath(os.path.abspath(str(filename)), d), mode))
        return orig_open(self, filename, mode, *a, **k)

    def write_rec(self):
        rec['gate'] = pending_snapshot()
        AUDIT['finalising'] = True
        return orig_write(self)

    def iwc_rec(counter, specifications, *a, **k):
        res = orig_iwc(counter, specifications, *a, **k)
        rec['gate_calls'] += 1
        rec['gate_leftover'] = res
        try:
            rec['gate_specs'] = [[[t, c] for t, c in g] for g in specifications]
        except Exception:  # noqa
            rec['gate_specs'] = repr(specifications)[:200]
        rec['gate_entries'] = [[lvl, typ, cnt] for lvl, dd in counter.counts.items() for typ, cnt in dd.items()]
        return res

    def top_rec(system, top_path, *a, **k):
        keys = [key for key in ('atomtypes', 'nonbond_params') if key in system.gmx_topology_params]
        rec['top'] = {'moltypes': [str(m.meta.get('moltype')) for m in system.molecules], 'keys': keys,
                      'itp_paths': k.get('itp_paths')}
        return orig_top(system, top_path, *a, **k)

    def chains_of(system):
        out = []
        for molecule in system.molecules:
            first = next(iter(molecule.nodes), None)
            ch = molecule.nodes[first].get('chain') if first is not None else None
            if ch is not None and ch not in out:
                out.append(ch)
        return out

    def rd_rec(system, *a, **k):
        rec['dssp'].append(['exe', chains_of(system)])
        return orig_rd(system, *a, **k)

    def rm_rec(system, *a, **k):
        rec['dssp'].append(['mdtraj', chains_of(system)])
        return orig_rm(system, *a, **k)

    lg = logging.getLogger('vermouth')
    lg.handlers[:] = []
    old = (sys.argv, sys.stderr, sys.stdout, os.getcwd())
    sys.argv, sys.stderr, sys.stdout = ['martinize2'] + argv, io.StringIO(), io.StringIO()
    os.chdir(d)
    DeferredFileWriter.open, DeferredFileWriter.write = open_rec, write_rec
    LH.ignore_warnings_and_count, GT.write_gmx_topology, DS.run_dssp, DS.run_mdtraj = iwc_rec, top_rec, rd_rec, rm_rec
    AUDIT['events'], AUDIT['finalising'], AUDIT['on'] = [], False, True
    code, exited, raw_code, exc = 0, False, None, ''
    try:
        runpy.run_path(M2PATH, run_name='__main__')
    except SystemExit as e:
        # the exit status as the operating system sees it (POSIX): an int is truncated to its low byte,
        # None is 0, any other object is printed and gives 1
        exited, raw_code = True, e.code
        code = (e.code & 0xFF) if isinstance(e.code, int) else (0 if e.code is None else 1)
    except BaseException as e:  # noqa
        code = 'exception:%s' % type(e).__name__
        exc = str(e)[:300]
    finally:
        AUDIT['on'] = False
        DeferredFileWriter.open, DeferredFileWriter.write = orig_open, orig_write
        LH.ignore_warnings_and_count, GT.write_gmx_topology, DS.run_dssp, DS.run_mdtraj = orig_iwc, orig_top, orig_rd, orig_rm
        log_err = sys.stderr.getvalue()
        sys.argv, sys.stderr, sys.stdout = old[:3]
        os.chdir(old[3])
    if rec['gate'] is None:
        rec['gate'] = pending_snapshot()
        finalised = False
    else:
        finalised = True
    counters = [h for h in lg.handlers if isinstance(h, CountingHandler)]
    entries = [[lvl, typ, cnt] for h in counters[:1] for lvl, dd in h.counts.items() for typ, cnt in dd.items()]
    lg.handlers[:] = []
    left_pending = len(W.open_files)
    W.close()
    after = snapshot_dir(d)
    subdirs = sorted(n for n in os.listdir(d) if os.path.isdir(os.path.join(d, n)))
    events = [(os.path.realpath(p) if os.path.isabs(p) else os.path.realpath(os.path.join(d, p)), m, fin)
              for p, m, fin in AUDIT['events']]
    inside = [(os.path.relpath(p, os.path.realpath(d)), m, fin) for p, m, fin in events
              if p.startswith(os.path.realpath(d) + os.sep)]
    shutil.rmtree(d, ignore_errors=True)
    rec.update({'code': code, 'exited': exited, 'raw_code': raw_code, 'after': after, 'entries': entries,
                'finalised': finalised, 'inside': inside, 'counter': counters[0] if counters else None,
                'log': log_err, 'exc': exc, 'subdirs': subdirs, 'left_pending': left_pending})
    return rec


def own_parse(text):
    """The documented grammar of one -maxwarn token, read by the harness itself (copy of `own_parse` of harness/c08.py;
    bin/martinize2 is not consulted): NUMBER | TYPE | TYPE:NUMBER, where TYPE may be empty (':3' limits the type ''
    - which no warning has - to 3; it is NOT a blanket allowance).  None: not a token of the grammar (usage error)."""
    if text.count(':') == 1:
        t, c = text.split(':')
        try:
            return (t, int(c))
        except ValueError:
            return None
    if ':' in text:
        return None
    try:
        return (None, int(text))
    except ValueError:
        return (text, None)


def token_shapes(groups, warn):
    """which shapes of -maxwarn tokens a run exercised, relative to the warnings it logged (warn: type -> count)"""
    total = sum(warn.values())
    out = set()
    for g in groups:
        for tok in g:
            sp = own_parse(tok)
            if sp is None:
                out.add('malformed')
                continue
            t, c = sp
            if t is None:
                out.add('number<0' if c < 0 else 'number<count' if c < total else 'number=count' if c == total else 'number>count')
            elif c is None:
                out.add('type/occurred' if warn.get(t) else 'type/absent')
            elif t == '':
                out.add('empty-type:N')
            elif not warn.get(t):
                out.add('type:N/absent')
            elif c < 0:
                out.add('type:N<0')
            else:
                out.add('type:N/occurred/' + ('N<count' if c < warn[t] else 'N=count' if c == warn[t] else 'N>count'))
        if len(g) >= 2:
            out.add('several-tokens-in-one-flag')
    if len(groups) >= 2:
        out.add('repeated-flags')
    return sorted(out)


MW_SHAPES = ['empty-type:N', 'type:N/occurred/N<count', 'type:N/occurred/N=count', 'type:N/occurred/N>count', 'type:N/absent',
             'type:N<0', 'type/occurred', 'type/absent', 'number<0', 'number<count', 'number=count', 'number>count',
             'several-tokens-in-one-flag', 'repeated-flags']


def leftover_oracle(entries, specs, level=logging.WARNING):
    """independent closed form of the leftover count (same statement as the C08 oracle)"""
    above = sum(c for l, t, c in entries if l > level)
    warn = {}
    for l, t, c in entries:
        if l == level:
            warn[t] = warn.get(t, 0) + c
    flat = [sp for g in specs for sp in g]
    named = {t for t, c in flat if c is None}
    limits = {}
    for t, c in flat:
        if c is not None:
            limits[t] = max(limits.get(t, 0), c, 0)
    blanket = limits.pop(None, 0)
    total, rest = above, 0
    for t, c in warn.items():
        if t in limits:
            total += max(0, c - limits[t])
        elif t not in named:
            rest += c
    return total + max(0, rest - blanket)


# ---- inputs -------------------------------------------------------------------------------------
INPUTS = os.path.join(SCRATCH, 'inputs')
os.makedirs(INPUTS, exist_ok=True)
PROTS = ['mini-protein1_betasheet', 'dipro-termini', 'mini-protein2_helix', 'mini-protein3_trp-cage']


def aa(prot):
    return os.path.join(T0, prot, 'aa.pdb')


def altloc_input(prot, n=1):
    """copy of the test structure with `n` alternate-location-B records, each of which gives one
    'pdb-alternate' warning, logged before every other warning of the run (n = 1: after the first CA;
    otherwise spread evenly over all ATOM records)"""
    lines = open(aa(prot)).readlines()
    out = []
    if n == 1:
        done = False
        for l in lines:
            out.append(l)
            if not done and l.startswith('ATOM') and l[12:16].strip() == 'CA':
                out.append(l[:16] + 'B' + l[17:])
                done = True
    else:
        natoms = sum(1 for l in lines if l.startswith('ATOM'))
        k = 0
        for l in lines:
            out.append(l)
            if l.startswith('ATOM'):
                copies = n // natoms + (1 if k < n % natoms else 0)
                out.extend([l[:16] + 'B' + l[17:]] * copies)
                k += 1
    path = os.path.join(INPUTS, 'altloc%d_%s.pdb' % (n, prot))
    if not os.path.exists(path):
        with open(path, 'w') as f:
            f.writelines(out)
    return path


def error_input(prot, n=1):
    """copy of the test structure with `n` extra one-atom residues GLY (element ZN, far from everything else): the
    residue has no atom in common with its reference block, for which repair_graph logs 'Can't find isomorphism ...' at
    ERROR level (type 'inconsistent-data') WITHOUT raising; the run goes on to the gate (each such atom also gives one
    'unmapped-atom' WARNING later on).  Records above warning level can not be waived with -maxwarn."""
    lines = [l for l in open(aa(prot)).readlines() if l.startswith('ATOM')]
    last_resid = max(int(l[22:26]) for l in lines)
    for k in range(n):
        lines.append('ATOM  %5d  ZN  GLY  %4d    %8.3f%8.3f%8.3f  1.00  0.00          ZN  \n'
                     % (len(lines) + 1, last_resid + 1 + k, 140.0 + 30 * k, 140.0, 140.0))
    lines.append('END\n')
    path = os.path.join(INPUTS, 'error%d_%s.pdb' % (n, prot))
    if not os.path.exists(path):
        with open(path, 'w') as f:
            f.writelines(lines)
    return path


def chains_input(prot, chains='AB', shift=60.0):
    """the test structure repeated once per chain letter, translated along x: several identical molecules"""
    lines = [l for l in open(aa(prot)) if l.startswith('ATOM')]
    out = []
    for ci, ch in enumerate(chains):
        for l in lines:
            out.append(l[:21] + ch + l[22:30] + '%8.3f' % (float(l[30:38]) + shift * ci) + l[38:])
        out.append('TER\n')
    out.append('END\n')
    path = os.path.join(INPUTS, 'chains%s_%s.pdb' % (chains, prot))
    if not os.path.exists(path):
        with open(path, 'w') as f:
            f.writelines(out)
    return path


FAKE_DSSP = '''#!@PY@
# stand-in for the DSSP executable (C07 check): coil/helix/strand by position, DSSP 2/3 output layout
import sys
VERSION = '@VERSION@'
if '--version' in sys.argv:
    print('mkdssp version ' + VERSION)
    sys.exit(0)
path = sys.argv[sys.argv.index('-i') + 1]
seen = []
for l in open(path):
    if l.startswith(('ATOM', 'HETATM')):
        key = (l[21], l[22:27])
        if key not in seen:
            seen.append(key)
print('==== Secondary Structure Definition by the program DSSP (stand-in) ==== .')
print('  #  RESIDUE AA STRUCTURE BP1 BP2  ACC')
for i, (ch, rid) in enumerate(seen, 1):
    print('%5d%5s %s A  %s' % (i, rid.strip()[:4].rjust(4), ch, ' HE'[i % 3 if len(seen) > 6 else 0]) + ' ' * 20)
'''


def fake_dssp(version):
    path = os.path.join(INPUTS, 'dssp_' + version.replace('.', '_'))
    if not os.path.exists(path):
        with open(path, 'w') as f:
            f.write(FAKE_DSSP.replace('@PY@', sys.executable).replace('@VERSION@', version))
        os.chmod(path, 0o755)
    return path


def ffwarn_dir():
    """-ff-dir with a link for martini3001 whose `[ warning ]` section fires on two consecutive prolines; the
    warning is stored in molecule.log_entries by DoLinks and only reaches the logger (and the counter) in the
    replay loop right before the output is written"""
    d = os.path.join(INPUTS, 'ffdir')
    os.makedirs(os.path.join(d, 'martini3001'), exist_ok=True)
    with open(os.path.join(d, 'martini3001', 'extra.ff'), 'w') as f:
        f.write('[ link ]\nresname "PRO"\n[ atoms ]\nBB { }\n+BB { }\n[ edges ]\nBB +BB\n[ warning ]\n'
                'Consecutive prolines {BB[resname]}{BB[resid]} and {+BB[resname]}{+BB[resid]}\n')
    return d


DSSP_OK, DSSP_OLD = fake_dssp('3.0.0'), fake_dssp('9.9.9')   # 9.9.9: one 'DSSP-version' warning per call
GO_MAP = os.path.join(VERIF, 'corpus', 'c07_trpcage_contacts.map')   # contact map of mini-protein3_trp-cage
EMPTY_DIR = os.path.join(INPUTS, 'emptydir')
os.makedirs(EMPTY_DIR, exist_ok=True)
NOT_A_DIR = os.path.join(INPUTS, 'not_a_dir')
open(NOT_A_DIR, 'w').write('x\n')


# ---- B3. the library writers called directly -----------------------------------------------------------------------
# write_gro is not reachable from the CLI (entry always calls write_pdb, whatever the extension of -x); the branches
# of write_atomtypes / write_nonbond_params for conditionals, groups, comments and C6C12 and the error paths of
# run_dssp are not reached by the CLI runs either.  Each writer is called on a small system in a scratch directory:
# the directory must be unchanged after the call and hold exactly what was written after write(); the history
# (one open in mode w with what was written, then finalise) is compared with the Lean model.
import vermouth
import vermouth.gmx.gro as GRO
import vermouth.gmx.topology as GT
import vermouth.dssp.dssp as DS
import vermouth.pdb.pdb as PDB
from vermouth.gmx.topology import Atomtype, NonbondParam
quiet_vermouth_logs()


def small_system(velocities=False, force_field=True):
    system = vermouth.System()
    vermouth.PDBInput(os.path.join(REPO, 'vermouth', 'tests', 'data', 'integration_tests', 'tier-0', 'dipro-termini', 'aa.pdb')).run_system(system)
    system.meta['header'] = ['written by the C07 check']
    for mol in system.molecules:
        mol.meta['moltype'] = 'lib_0'
        mol.nrexcl = 1
        for idx in mol.nodes:
            mol.nodes[idx]['chain'] = 'A'
            mol.nodes[idx].update(atype='P1', charge=0.0, mass=72, charge_group=1)
            if velocities:
                mol.nodes[idx]['velocity'] = [0.1, 0.2, 0.3]
        if not force_field:
            mol._force_field = None
    return system


def with_params(system):
    mol = system.molecules[0]
    n0 = next(iter(mol.nodes))
    system.gmx_topology_params['atomtypes'] += [
        Atomtype(molecule=mol, node=n0, sigma=0.47, epsilon=3.5, meta={}),
        Atomtype(molecule=mol, node=n0, sigma=0.5, epsilon=1.0, meta={'ifdef': 'FLEX', 'group': 'grp', 'comment': ['c1', 'c2']}),
        Atomtype(molecule=mol, node=n0, sigma=0.5, epsilon=1.0, meta={'ifndef': 'STIFF'})]
    system.gmx_topology_params['nonbond_params'] += [
        NonbondParam(atoms=('P1', 'P2'), sigma=0.47, epsilon=3.5, meta={'comment': ['x']}),
        NonbondParam(atoms=('P1',), sigma=0.5, epsilon=1.0, meta={'ifdef': 'FLEX', 'group': 'self'}),
        NonbondParam(atoms=('P3', 'P1'), sigma=0.5, epsilon=1.0, meta={'ifndef': 'STIFF'})]
    return system


DSSP_FAIL = os.path.join(SCRATCH, 'dssp_fail')
with open(DSSP_FAIL, 'w') as f:
    f.write("#!/bin/sh\ncase \"$1\" in --version) echo 'mkdssp version 3.0.0';; *) echo broken >&2; exit 3;; esac\n")
os.chmod(DSSP_FAIL, 0o755)
DSSP_NOVERSION = os.path.join(SCRATCH, 'dssp_noversion')
with open(DSSP_NOVERSION, 'w') as f:
    f.write("#!/bin/sh\necho 'no version here'\n")
os.chmod(DSSP_NOVERSION, 0o755)


def lib_case(cid, call, dest, pre_names=(), expect_exc=None, keeps=None, undeferred=False):
    """call(dest_path) writes `dest` (a name in a fresh directory)"""
    d = tempfile.mkdtemp(dir=SCRATCH)
    pre = {n: ('old %s\n' % n).encode() for n in pre_names}
    for n, c in pre.items():
        with open(os.path.join(d, n), 'wb') as f:
            f.write(c)
    W = DeferredFileWriter()
    W.close()
    cwd = os.getcwd()
    os.chdir(d)
    errs, exc = [], None
    try:
        call(dest)
    except Exception as e:  # noqa
        exc = type(e).__name__
    finally:
        os.chdir(cwd)
    mid = snapshot_dir(d)
    pend = [(os.path.basename(str(fp)), mode_kind(m), open(tp, 'rb').read()) for tp, fp, m in W.open_files]
    dests = [dest] if isinstance(dest, str) else list(dest)
    if exc != expect_exc:
        errs.append('%s: raised %r, expected %r' % (cid, exc, expect_exc))
    new_mid = sorted(set(mid) - set(pre))
    if undeferred:
        if dests[0] not in mid:
            errs.append('defer_writing=False did not write %r at once' % dest)
    else:
        if [n for n in new_mid if not (keeps and re.fullmatch(keeps, n))] or any(mid.get(n) != pre[n] for n in pre):
            errs.append('the writer changed the directory before finalisation: new %s' % new_mid)
        if expect_exc is None and [p[0] for p in pend] != dests:
            errs.append('pending table after the call: %s, expected %r' % ([p[0] for p in pend], dests))
    W.write()
    after = snapshot_dir(d)
    shutil.rmtree(d, ignore_errors=True)
    for n, k, c in pend:
        if after.get(n) != c:
            errs.append('%r does not hold what was written for it' % n)
        if n in pre and after.get(first_free_backup(n, pre)) != pre[n]:
            errs.append('old %r not kept at its first free backup name' % n)
    chk.count('lib_' + cid.split('/')[0])
    files = [[parse_name(n), b2s(c)] for n, c in pre.items()]
    ops = [[0, parse_name(n), k, b2s(c)] for n, k, c in pend] + [[1, None]]
    ln = line('run', files, ops)
    snaps = []
    acc = dict((n, b2s(c)) for n, c in pre.items())
    pl = []
    for i, (n, k, c) in enumerate(pend):
        acc['tmp/%d' % i] = b2s(c)
        pl.append([i, n, k])
        snaps.append(enc_list(['ok', enc(pl), enc([[x, acc[x]] for x in sorted(acc)])]))
    fin = dict((n, b2s(c)) for n, c in after.items() if not (keeps and re.fullmatch(keeps, n)))
    snaps.append(enc_list(['ok', enc([]), enc([[x, fin[x]] for x in sorted(fin)])]))
    return cid, ln, enc_list(snaps), errs, undeferred or exc is not None


lib_rows = []
SYS, SYSV, SYSP = small_system(), small_system(velocities=True), with_params(small_system())
lib_rows.append(lib_case('write_gro', lambda p: GRO.write_gro(SYS, p, box=(1, 2, 3)), 'out.gro', ['out.gro', '#out.gro.1#']))
lib_rows.append(lib_case('write_gro/velocities', lambda p: GRO.write_gro(SYSV, p, precision=4, title='t'), 'v.gro'))
lib_rows.append(lib_case('write_gro/undeferred', lambda p: GRO.write_gro(SYS, p, defer_writing=False), 'now.gro', undeferred=True))
lib_rows.append(lib_case('write_pdb', lambda p: PDB.write_pdb(SYS, p), 'out.pdb', ['out.pdb']))
lib_rows.append(lib_case('write_pdb/undeferred', lambda p: PDB.write_pdb(SYS, p, defer_writing=False), 'now.pdb', undeferred=True))
lib_rows.append(lib_case('write_atomtypes', lambda p: GT.write_atomtypes(SYSP, p), 'at.itp', ['at.itp']))
lib_rows.append(lib_case('write_atomtypes/C6C12', lambda p: GT.write_atomtypes(SYSP, p, C6C12=True), 'at6.itp'))
lib_rows.append(lib_case('write_nonbond_params', lambda p: GT.write_nonbond_params(SYSP, p), 'nb.itp', ['nb.itp', '#nb.itp.1#']))
lib_rows.append(lib_case('write_nonbond_params/C6C12', lambda p: GT.write_nonbond_params(SYSP, p, C6C12=True), 'nb6.itp'))
lib_rows.append(lib_case('write_contacts', lambda p: __import__('vermouth.rcsu.contact_map', fromlist=['x'])._write_contacts(p, [], [], None), 'c.out', ['c.out']))
lib_rows.append(lib_case('run_dssp/savefile', lambda p: DS.run_dssp(SYS, executable=DSSP_OK, savedir='.'), 'chain_A.ssd', ['chain_A.ssd']))
for cid_, exe_, exc_, keeps_ in (('run_dssp/no-savedir', DSSP_OK, None, None), ('run_dssp/missing-exe', os.path.join(SCRATCH, 'absent'), 'DSSPError', None),
                                 ('run_dssp/no-version', DSSP_NOVERSION, 'DSSPError', None),
                                 # "If an error is encountered ... preserve the DSSP input file": kept on purpose
                                 ('run_dssp/failing-exe', DSSP_FAIL, 'DSSPError', r'dssp_in_.*\.pdb')):
    r_ = lib_case(cid_, lambda p, exe_=exe_: DS.run_dssp(SYS, executable=exe_, savedir=None), 'unused', expect_exc=exc_, keeps=keeps_)
    # nothing is pending in these calls
    lib_rows.append(r_[:3] + ([e for e in r_[3] if 'pending table' not in e],) + r_[4:])
lib_rows.append(lib_case('write_gmx_topology/no-force-field',
                         lambda p: GT.write_gmx_topology(small_system(force_field=False), 'lib.top', itp_paths=[]), ['lib_0.itp', 'lib.top']))
lib_rows.append(lib_case('write_gmx_topology/empty', lambda p: GT.write_gmx_topology(vermouth.System(), p), 'e.top', expect_exc='ValueError'))
lib_models = chk.drv.ask([r[1] for r in lib_rows]) if chk.lean_ok else [None] * len(lib_rows)
for (cid, ln, impl, errs, special), mo in zip(lib_rows, lib_models):
    chk.case('lib-' + cid, ln, impl, None if special else mo, errs, True)



# ---- one CLI job ----------------------------------------------------------------------------------
def mkjob(cid, branch, inp, extra=(), x='cg.pdb', o='topol.top', maxwarn=(), pre=(), name=None, sep=False,
          go='off', go_write=None, water_bias=False, dssp='off', v=0, graph=None, repair=None, canon=None,
          abort=None, need_warn=False, want_left=None, need_above=0, cost=1.0):
    """A CLI run.  The options that decide WHICH files are written are structured (they are the input of the
    Lean model `outputs`); everything else is in `extra`.  abort: None, or 'usage' (argparse error, exit 2 before
    anything is read), 'info' (-list-*: exit 0, nothing written), 'raise' (uncaught exception)."""
    return dict(cid=cid, branch=branch, inp=inp, extra=list(extra), x=x, o=o, maxwarn=[list(g) for g in maxwarn],
                pre=list(pre), name=name, sep=sep, go=go, go_write=go_write, water_bias=water_bias, dssp=dssp, v=v,
                graph=graph, repair=repair, canon=canon, abort=abort, need_warn=need_warn, want_left=want_left,
                need_above=need_above,
                cost=cost)


def build_argv(j):
    argv = []
    if j['inp'] is not None:
        argv += ['-f', j['inp']]
    if j['x'] is not None:
        argv += ['-x', j['x']]
    if j['o'] is not None:
        argv += ['-o', j['o']]
    argv += j['extra']
    if j['name'] is not None:
        argv += ['-name', j['name']]
    if j['sep']:
        argv.append('-sep')
    if j['go'] == 'internal':
        argv.append('-go')
    elif j['go'] != 'off':
        argv += ['-go', j['go']]
    if j['go_write'] is True:
        argv.append('-go-write-file')
    elif j['go_write']:
        argv += ['-go-write-file', j['go_write']]
    if j['dssp'] == 'mdtraj':
        argv.append('-dssp')
    elif j['dssp'] != 'off':
        argv += ['-dssp', j['dssp']]
    argv += ['-v'] * j['v']
    for opt, key in (('-write-graph', 'graph'), ('-write-repair', 'repair'), ('-write-canon', 'canon')):
        if j[key] is not None:
            argv += [opt, j[key]]
    if j['water_bias']:
        argv += ['-water-bias', '-water-bias-eps', 'C:2.1', 'H:3.6']
    for g in j['maxwarn']:
        argv += ['-maxwarn'] + g
    return argv


def cli_eval(j):
    try:
        return cli_eval_(j)
    except BaseException:  # noqa  (a failure of the harness itself in a worker must end in a verdict, not in a hang)
        import traceback
        return {'cid': j['cid'], 'ln': line('cli-harness-failure', j['cid']), 'impl': 'harness-failure', 'errs':
                ['harness: worker failed: ' + traceback.format_exc()[-1500:]], 'nontrivial': False, 'finding': None,
                'counts': ['cli_worker_failure'], 'use_model': False, 'facts': None, 'kind': 'failed',
                'branch': j['branch'], 'argv': [], 'shapes': [], 'above_only': False, 'ln2': None, 'impl2': None, 'cov': {}}


def cli_eval_(j):
    """run one job and judge it; executed in a forked worker.  Returns plain data."""
    argv = build_argv(j)
    pre = {n: ('old %s\n' % n).encode() * 3 for n in j['pre']}
    r = run_cli(argv, pre)
    counts = []
    # the -maxwarn tokens as the HARNESS reads them from the documented grammar; the parser of bin/martinize2 is not
    # asked: expected leftover, gate model and `outputs` model all start from this reading
    own = [[own_parse(s) for s in g] for g in j['maxwarn']]
    malformed = [s for g in j['maxwarn'] for s in g if own_parse(s) is None]
    specs = [[sp for sp in g if sp is not None] for g in own]
    flat_ = [sp for g in specs for sp in g]
    overlap = {t for t, c in flat_ if c is None} & {t for t, c in flat_ if c is not None}
    dumps = [j[k] for k in ('graph', 'repair', 'canon') if j[k] is not None]
    reached = r['gate_calls'] > 0
    # counter as the gate saw it; fallback (gate hook not called): the final counter minus the gate's own error record
    if r['gate_entries'] is not None:
        ent_gate = [e for e in r['gate_entries'] if e[2]]
    else:
        gate_err = 1 if (r['exited'] and not r['finalised'] and r['code'] == 2 and not j['abort']) else 0
        ent_gate = []
        for l, t, c in r['entries']:
            if l == logging.ERROR and t == 'general' and gate_err:
                c -= 1
                gate_err = 0
            if c:
                ent_gate.append([l, t, c])
    left = leftover_oracle(ent_gate, specs)
    nwarn = sum(c for l, t, c in ent_gate if l >= logging.WARNING)
    nabove = sum(c for l, t, c in ent_gate if l > logging.WARNING)
    new = sorted(set(r['after']) - set(pre))
    changed = sorted(n for n in pre if r['after'].get(n) != pre[n])
    artefacts = [n for n in new if DSSP_TMP_RE.fullmatch(n)]
    # ---- model input (`cli`: the gate on the history reconstructed from the pending table at the gate)
    opens = [[parse_name(n), k, h] for n, k, h in r['gate']]
    hidden = set(dumps) | set(artefacts)
    files = [[parse_name(n), sha(c)] for n, c in pre.items() if n not in hidden]
    ln = line('cli', logging.WARNING, ent_gate, [[[t, c] for t, c in g] for g in specs], files, opens)
    after_user = {n: sha(c) for n, c in r['after'].items() if n not in hidden}
    impl = enc_list([enc(r['code']) if isinstance(r['code'], int) else enc(str(r['code'])), enc(left),
                     enc([[n, after_user[n]] for n in sorted(after_user)])])
    use_model = j['abort'] is None and reached and not isinstance(r['code'], str) and r['gate_calls'] == 1
    # ---- oracle
    errs, finding = [], None
    if r['subdirs']:
        errs.append('the run created directories %s' % r['subdirs'])
    if malformed and j['abort'] != 'usage':
        errs.append('harness: -maxwarn tokens %r are outside the documented grammar but the job does not expect a usage error' % (malformed,))
    if overlap:
        errs.append('harness: the job names the warning types %r both with and without a number (left open by the property)' % sorted(overlap, key=str))
    if r['gate_leftover'] is not None and r['gate_leftover'] != left:
        errs.append('the gate computed %r leftover warnings; the documented -maxwarn grammar (NUMBER | TYPE | TYPE:NUMBER) read '
                    'independently of bin/martinize2 gives %d for the warnings logged (-maxwarn %s read as %s; the code '
                    'handed %s to the gate; counter at the gate: %s)'
                    % (r['gate_leftover'], left, j['maxwarn'], specs, r['gate_specs'], ent_gate))
    if j['abort'] is None:
        if isinstance(r['code'], str):
            errs.append('martinize2 raised %s %s (martinize2 %s)' % (r['code'], r['exc'], ' '.join(argv)))
        elif not reached and not r['finalised'] and r['code'] != 0:
            errs.append('martinize2 exited with %s before the -maxwarn gate: %s' % (r['code'], r['log'][-300:]))
    else:
        kind = 'aborted'
        if j['abort'] == 'raise' and not isinstance(r['code'], str):
            errs.append('harness: the run was expected to stop on an exception, exit %r' % (r['code'],))
        if j['abort'] == 'usage' and r['code'] != 2:
            errs.append('harness: the run was expected to stop on a usage error (exit 2), got %r' % (r['code'],))
        if j['abort'] == 'info' and r['code'] != 0:
            errs.append('harness: the information-only run was expected to exit 0, got %r' % (r['code'],))
    unexpected = [n for n in new if n not in dumps]
    bad_changed = [n for n in changed if n not in dumps]
    if j['abort'] is not None or (not reached and not r['finalised']):
        kind = 'aborted'
        if r['finalised']:
            errs.append('a run that stopped before the gate finalised the deferred writer')
        if unexpected or bad_changed:
            errs.append('run stopped before the gate (exit %s) left new files %s / changed files %s'
                        % (r['code'], unexpected, bad_changed))
    elif left:
        kind = 'blocked'
        if r['code'] == 0:
            errs.append('%d warnings left after -maxwarn but exit status 0 (sys.exit(%r))' % (left, r['raw_code']))
        if r['finalised']:
            errs.append('%d warnings left after -maxwarn but DeferredFileWriter.write() was called' % left)
        if unexpected or bad_changed:
            if (j['v'] and r['code'] == 2 and not bad_changed and unexpected
                    and all(DSSP_TMP_RE.fullmatch(n) for n in unexpected)):
                finding = 'F-C07-2'
            errs.append('run with %d unwaived warnings (exit %s) left new files %s / changed files %s; requested '
                        'debug dumps: %s' % (left, r['code'], unexpected, bad_changed, dumps))
    else:
        kind = 'passed'
        if r['code'] != 0:
            errs.append('no warnings left after -maxwarn but exit code %s' % (r['code'],))
        if not r['finalised']:
            errs.append('no warnings left after -maxwarn but DeferredFileWriter.write() was not called')
        if r['left_pending']:
            errs.append('%d entries still pending after finalisation' % r['left_pending'])
        last = {}
        for n, k, h in r['gate']:
            last[n] = h
        for n, h in last.items():
            if n not in r['after'] or sha(r['after'][n]) != h:
                errs.append('output %r does not hold what was written for it' % n)
            if n in pre and n not in dumps:
                bk = first_free_backup(n, pre)
                if r['after'].get(bk) != pre[n]:
                    errs.append('pre-existing %r not kept byte for byte at %r' % (n, bk))
        for n in pre:
            if n not in last and n not in dumps and r['after'].get(n) != pre[n]:
                errs.append('pre-existing unrelated file %r changed' % n)
        allowed_new = set(last) | {first_free_backup(n, pre) for n in last if n in pre} | set(dumps)
        extra_new = [n for n in new if n not in allowed_new and not (j['v'] and DSSP_TMP_RE.fullmatch(n))]
        if extra_new:
            errs.append('files %s appeared that were not written through the deferred writer' % extra_new)
        if not r['gate']:
            errs.append('successful run wrote nothing through the deferred writer')
    for pth, m, fin in r['inside']:
        if fin:
            continue
        if DSSP_TMP_RE.fullmatch(pth) or pth in dumps:
            continue
        errs.append('file %r in the run directory opened for writing (%s) before the gate: a writer bypasses the '
                    'deferred writer' % (pth, m))
    if j['need_warn'] and not nwarn:
        errs.append('harness: the run was built to produce a counted warning and produced none (the case no longer '
                    'exercises what it was made for)')
    if j['need_above'] and (nabove != j['need_above'] or not reached):
        errs.append('harness: the run was built to reach the gate with %d records above warning level in the counter, '
                    'it has %d (gate reached: %s)' % (j['need_above'], nabove, reached))
    if j['want_left'] is not None and left != j['want_left']:
        errs.append('harness: the run was built to leave exactly %d warnings, it leaves %d' % (j['want_left'], left))
    # CountingHandler.number_of_counts_by against the plain sums over its table
    if r['counter'] is not None:
        ent = r['entries']
        for lvl in (None, logging.WARNING, logging.ERROR, logging.CRITICAL + 1):
            for typ in [None] + sorted({t for l, t, c in ent}) + ['no-such-type']:
                want = sum(c for l, t, c in ent if (lvl is None or l >= lvl) and (typ is None or t == typ))
                got = r['counter'].number_of_counts_by(level=lvl, type=typ)
                counts.append('counts_by_queries')
                if got != want:
                    errs.append('number_of_counts_by(level=%r, type=%r) = %r, table sums to %d' % (lvl, typ, got, want))
    above_only = bool(j['abort'] is None and reached and nabove and left == nabove)
    if above_only:
        counts.append('cli_leftover_only_above_warning_level')
    counts += ['cli_exit=%s' % (r['code'],), 'cli_warnings=%d' % min(nwarn, 3), 'cli_above_warning=%d' % min(nabove, 3),
               'cli_leftover=%d' % (left if left % 256 == 0 else min(left, 3)),
               'cli_deferred_outputs=%d' % len(r['gate']), 'cli_%s' % kind, 'branch:%s/%s' % (j['branch'], kind)]
    shapes = []
    if j['abort'] is None and reached:
        warn_by_type = {}
        for l, t, c in ent_gate:
            if l == logging.WARNING:
                warn_by_type[t] = warn_by_type.get(t, 0) + c
        if warn_by_type:
            shapes = token_shapes(j['maxwarn'], warn_by_type)
            counts += ['maxwarn_token:%s/%s' % (sh, kind) for sh in shapes]
    if pre:
        counts.append('cli_preexisting_files')
    if dumps:
        counts.append('cli_debug_dumps_requested=%d' % len(dumps))
    for n, k, h in r['gate']:
        if n.endswith('.itp'):
            cls = n if re.match(r'(go_|virtual_sites_)', n) else 'MOLTYPE.itp'
        elif n.endswith('.ssd'):
            cls = 'chain_X.ssd'
        else:
            cls = n
        counts.append('deferred:' + cls)
    # ---- model input (`cliout`: the files the run writes, decided by the model from the options + observed facts)
    ln2 = impl2 = None
    if use_model:
        def optp(n):
            return parse_name(n) if n is not None else None
        go_no = 0 if j['go'] == 'off' else (1 if j['go'] == 'internal' else 2)
        gw = [0] if not j['go_write'] else ([1] if j['go_write'] is True else [2, parse_name(j['go_write'])])
        ds_no = 0 if j['dssp'] == 'off' else (1 if j['dssp'] == 'mdtraj' else 2)
        options = [optp(j['x']), optp(j['o']), j['name'], j['sep'], go_no, gw, j['water_bias'], ds_no, HAVE_MDTRAJ, j['v'],
                   optp(j['graph']), optp(j['repair']), optp(j['canon'])]
        top = r['top'] or {'moltypes': [], 'keys': []}
        mol_class = []
        if go_no == 0:
            for mt in top['moltypes']:
                m = re.search(r'_(\d+)$', mt)
                mol_class.append(int(m.group(1)) if m else 0)
        else:
            mol_class = [0] * len(top['moltypes'])
        tmp_names = []
        for pth, m, fin in r['inside']:
            if DSSP_TMP_RE.fullmatch(pth) and pth not in tmp_names:
                tmp_names.append(pth)
        fct = [mol_class, 'atomtypes' in top['keys'], 'nonbond_params' in top['keys'],
               [[str(c) for c in d[1]] for d in r['dssp']], [parse_name(n) for n in tmp_names]]
        conts = {}
        for n in dumps + artefacts:
            if n in r['after']:
                conts[n] = sha(r['after'][n])
        for n, k, h in r['gate']:
            conts[n] = h
        ln2 = line('cliout', logging.WARNING, ent_gate, [[[t, c] for t, c in g] for g in specs],
                   [[parse_name(n), sha(c)] for n, c in pre.items()], options, fct,
                   [[parse_name(n), h] for n, h in sorted(conts.items())])
        impl2 = enc_list([enc(r['code']), enc(left), enc([[n, k] for n, k, h in r['gate']]),
                          enc([[n, sha(r['after'][n])] for n in sorted(r['after'])])])
    facts = {'top': r['top'], 'dssp': r['dssp'], 'artefacts': artefacts, 'gate': r['gate'], 'kind': kind,
             'after': {n: sha(c) for n, c in r['after'].items()}, 'pre': {n: sha(c) for n, c in pre.items()},
             'ent_gate': ent_gate, 'specs': specs, 'left': left, 'code': r['code']}
    return {'cid': j['cid'], 'ln': ln, 'impl': impl, 'errs': errs, 'nontrivial': nwarn >= 1 or bool(dumps),
            'finding': finding, 'counts': counts, 'use_model': use_model and not finding, 'facts': facts,
            'kind': kind, 'branch': j['branch'], 'argv': argv, 'shapes': shapes, 'above_only': above_only, 'ln2': ln2, 'impl2': impl2, 'cov': chk.worker_lines()}


# ---- the plan ---------------------------------------------------------------------------------------
M3 = ['-ff', 'martini3001', '-ss', 'C']
M22 = ['-ff', 'martini22', '-ss', 'C']
TRP, BETA, DIPRO, HELIX = aa('mini-protein3_trp-cage'), aa('mini-protein1_betasheet'), aa('dipro-termini'), aa('mini-protein2_helix')
WARN_OPTS = {
    'none': (M22 + ['-noscfix'], 0),
    'scfix': (M22 + ['-scfix'], 2),            # general + missing-feature
    'mutate': (M22 + ['-noscfix', '-mutate', 'A-GLY999:ALA'], 1),   # general
    'modify': (M3 + ['-noscfix', '-modify', 'XXX99:N-ter'], 1),
    'both': (M22 + ['-scfix', '-mutate', 'A-GLY999:ALA'], 3),
    # two warning types with different counts: a blanket allowance must be consumed across them
    'mutate2': (M22 + ['-noscfix', '-mutate', 'A-GLY998:ALA', '-mutate', 'A-GLY999:ALA'], 2),
    'both2': (M22 + ['-scfix', '-mutate', 'A-GLY998:ALA', '-mutate', 'A-GLY999:ALA'], 4),
}
jobs = []


def J(branch, inp, extra=(), **k):
    cid = 'cli-%d-%s' % (len(jobs), branch)
    jobs.append(mkjob(cid, branch, inp, extra, **k))


# (1) the gate: warning-raising options x -maxwarn on the default outputs (as before)
for kind, mw, pre, kw in [
    ('none', [], ['cg.pdb', '#cg.pdb.1#', 'molecule_0.itp', 'other.txt'], {}),
    ('scfix', [], ['cg.pdb', 'topol.top'], {}),
    ('scfix', [['1']], [], {}),                                    # leftover exactly 1
    ('scfix', [['2']], ['topol.top', '#topol.top.1#', '#topol.top.2#'], {}),
    ('scfix', [['general'], ['missing-feature:1']], [], {}),
    ('mutate', [['missing-feature']], ['cg.pdb'], {}),           # waiver of another type: leftover 1
    ('both', [['2']], ['cg.pdb'], {}),                            # blanket smaller than the total over two types
    ('both2', [['3']], [], {}),
]:
    J('gate-' + kind, BETA, WARN_OPTS[kind][0], maxwarn=mw, pre=pre, need_warn=WARN_OPTS[kind][1] > 0, **kw)
# first-counted type smaller than the blanket allowance, total above it (1 pdb-alternate + 2 general, -maxwarn 2)
J('gate-altloc', altloc_input(PROTS[0], 1), WARN_OPTS['mutate2'][0], maxwarn=[['2']], need_warn=True, want_left=1)
# exactly 256 warnings left (300 pdb-alternate, -maxwarn 44): an exit status derived from the count wraps to 0
J('gate-altloc256', altloc_input('dipro-termini', 300), ['-ff', 'martini3001', '-nt', '-noscfix', '-ss', 'C'],
  maxwarn=[['44']], pre=['cg.pdb'], need_warn=True, want_left=256)
# a warning declared in a force-field `[ warning ]` section (type 'model'): counted only after the replay of
# molecule.log_entries, i.e. the gate must be evaluated after that loop
FFW = ['-ff', 'martini3001', '-nt', '-noscfix', '-ss', 'C', '-ff-dir', ffwarn_dir()]
J('gate-ffwarn', DIPRO, FFW, pre=['cg.pdb'], need_warn=True)
J('gate-ffwarn', DIPRO, FFW, maxwarn=[['1']], pre=['cg.pdb'], need_warn=True)

# records ABOVE warning level that are logged without raising (repair_graph: 'Can't find isomorphism', ERROR): they count
# at the gate and no -maxwarn waives them.  In these runs every WARNING-level record is waived, so the leftover consists
# of the ERROR records alone: exit 2 and no output (leftover_oracle counts the captured per-level table).
ERR1, ERR2 = error_input('dipro-termini', 1), error_input('dipro-termini', 2)
ERR_OPTS = ['-ff', 'martini3001', '-noscfix', '-ss', 'C']
J('gate-error-level', ERR1, ERR_OPTS, maxwarn=[['unmapped-atom']], pre=['cg.pdb', 'topol.top'], need_warn=True, need_above=1, want_left=1)
J('gate-error-level', ERR1, ERR_OPTS, maxwarn=[['99']], need_warn=True, need_above=1, want_left=1)          # a blanket allowance does not reach them
J('gate-error-level', ERR2, ERR_OPTS, maxwarn=[['unmapped-atom:9', 'inconsistent-data:9']], pre=['molecule_0.itp'],
  need_warn=True, need_above=2, want_left=2)                                                                 # nor one naming their type
J('gate-error-level', ERR1, ERR_OPTS, need_warn=True, need_above=1, want_left=2)                             # unwaived warning + error

# (1b) every shape of -maxwarn token with warnings present.  The expected leftover (want_left, worked out by hand) and the
#      gate model start from the harness's own reading of the documented grammar, never from the parser of bin/martinize2.
#      The run logs 5 warnings of three types: pdb-alternate 1 (logged first), general 3, missing-feature 1.
MW_IN, MW_OPTS = altloc_input('dipro-termini', 1), WARN_OPTS['both2'][0]
for mw, want, pre in [
    ([[':7']], 5, ['cg.pdb']),                     # empty type: an allowance for the type '' that no warning has, NOT a blanket 7
    ([['2', ':9']], 3, []),                        # ... also next to a real blanket allowance (2 of 5 waived)
    ([['general:2']], 3, []),                      # type that occurred, fewer than its count
    ([['general:3', 'missing-feature:1', 'pdb-alternate:1']], 0, ['topol.top', 'cg.pdb']),   # exactly its count, three tokens in one flag
    ([['general:99', '2']], 0, []),                # more than its count; the surplus is not carried over to other types
    ([['general:99', '1']], 1, []),
    ([['never-seen:10']], 5, []),                  # type that did not occur
    ([['missing-feature:0', '4']], 1, []),         # zero is a number, not "all"
    ([['general']], 2, []),                        # bare type that occurred
    ([['never-seen']], 5, []),                     # bare type that did not occur
    ([['general', 'missing-feature', 'pdb-alternate']], 0, []),
    ([['', '4']], 1, []),                          # the empty string is a (never occurring) type
    ([['4']], 1, ['topol.top']),                   # bare number: smaller than / equal to / larger than the count
    ([['5']], 0, ['topol.top']),
    ([['6']], 0, []),
    ([['2'], ['3']], 2, []),                       # repeated flags: the larger number counts, not the sum
    ([['general'], ['2']], 0, []),
    ([['-5']], 5, []),                             # negative numbers waive nothing (5 = the number of warnings)
    ([['general:-1', '5']], 3, []),
]:
    J('maxwarn-shapes', MW_IN, MW_OPTS, maxwarn=mw, pre=pre, need_warn=True, want_left=want, cost=0.9)
# tokens outside the grammar: usage error before anything is read
J('abort-maxwarn-three-parts', DIPRO, M3, maxwarn=[['general:1:2']], abort='usage', pre=['cg.pdb'])
J('abort-maxwarn-no-number', DIPRO, M3, maxwarn=[['general:']], abort='usage')

# (2) every file-writing branch of `entry`, once with an unwaived warning (-scfix: one 'general' warning with
#     martini3001) and once with the warning waived or absent
W1 = ['-scfix']            # + M3: exactly one warning


def both_ways(branch, inp, extra=(), clean_pre=(), warn_pre=(), waive=True, **k):
    J(branch, inp, list(extra) + W1, pre=warn_pre, need_warn=True, **k)
    if waive:
        J(branch, inp, list(extra) + W1, maxwarn=[['1']], pre=clean_pre, need_warn=True, **k)
    else:
        J(branch, inp, list(extra), pre=clean_pre, **k)


CH2 = chains_input('dipro-termini', 'AB')
both_ways('x-gro', DIPRO, M3, x='out.gro', clean_pre=['out.gro'])
both_ways('no-x', DIPRO, M3, x=None, waive=False)                         # the structure goes to the file 'None'
both_ways('no-o', DIPRO, M3, o=None, clean_pre=['molecule_0.itp'], warn_pre=['cg.pdb'])
both_ways('x-equals-o', DIPRO, M3, x='same.out', o='same.out', waive=False)
both_ways('go-internal-write', TRP, M3, go='internal', go_write=True, clean_pre=['contact_map_martinize.out', 'go_nbparams.itp'],
          warn_pre=['go_atomtypes.itp'], cost=1.6)
both_ways('go-internal-write-named', TRP, M3, go='internal', go_write='cm.out', name='prot', waive=False, cost=1.6)
both_ways('go-internal', TRP, M3, go='internal', cost=1.4)
both_ways('go-file', TRP, M3, go=GO_MAP, clean_pre=['molecule.itp', '#molecule.itp.1#'], cost=1.2)
both_ways('go-water-bias', TRP, M3, go=GO_MAP, water_bias=True, waive=False, cost=1.3)
both_ways('water-bias', TRP, M3, water_bias=True, clean_pre=['virtual_sites_atomtypes.itp'], warn_pre=['virtual_sites_nonbond_params.itp'])
both_ways('chains', CH2, M3, waive=False)
both_ways('sep', CH2, M3, sep=True, name='pp', clean_pre=['pp_1.itp'])
both_ways('merge', CH2, M3 + ['-merge', 'A,B'])
both_ways('merge-all', CH2, M3 + ['-merge', 'all'], waive=False)
both_ways('dumps-all', DIPRO, M3, graph='g.pdb', repair='r.pdb', canon='c.pdb', clean_pre=['g.pdb'], warn_pre=['r.pdb', 'cg.pdb'])
both_ways('dump-graph', DIPRO, M3, graph='graph_dump.pdb', waive=False)
both_ways('dump-repair', DIPRO, M3, repair='rep.pdb', waive=False)
both_ways('dump-canon', DIPRO, M3, canon='can.pdb')
both_ways('dssp-exe', TRP, ['-ff', 'martini3001'], dssp=DSSP_OK, clean_pre=['chain_A.ssd'], warn_pre=['chain_A.ssd'])
both_ways('dssp-exe-chains', chains_input('mini-protein3_trp-cage', 'AB'), ['-ff', 'martini3001'], dssp=DSSP_OK, waive=False, cost=1.5)
both_ways('dssp-exe-verbose', TRP, ['-ff', 'martini3001'], dssp=DSSP_OK, v=1)
# the warning comes from run_dssp itself (unsupported version), after which its savefile is opened
J('dssp-exe-version-warning', TRP, ['-ff', 'martini3001'], dssp=DSSP_OLD, need_warn=True, want_left=1)
J('dssp-exe-version-warning', TRP, ['-ff', 'martini3001'], dssp=DSSP_OLD, maxwarn=[['DSSP-version']], need_warn=True, want_left=0)
if HAVE_MDTRAJ:
    both_ways('dssp-mdtraj', TRP, ['-ff', 'martini3001'], dssp='mdtraj')
    both_ways('dssp-mdtraj-verbose', BETA, ['-ff', 'martini3001'], dssp='mdtraj', v=1, warn_pre=['cg.pdb'])   # F-C07-2
# options that change what is IN the files, not which files are written: one run each (for the lines of `entry`),
# alternately blocked and passed
J('cov-cys', TRP, M3 + ['-cys', '0.5'] + W1, need_warn=True)
J('cov-cys-none', TRP, M3 + ['-cys', 'none', '-resid', 'input'])
J('cov-posres', DIPRO, M3 + ['-p', 'backbone', '-pf', '500'] + W1, need_warn=True)
J('cov-posres-all', DIPRO, M3 + ['-p', 'all', '-ignore', ','.join('X%03d' % k for k in range(900))])   # > 4000 characters of command line
J('cov-elastic', TRP, M3 + ['-elastic', '-eunit', 'chain'] + W1, need_warn=True)
J('cov-elastic-all', CH2, M3 + ['-elastic', '-eunit', 'all', '-eb', 'BB'])
J('cov-elastic-region', TRP, M3 + ['-elastic', '-eunit', '1:10,11:20'] + W1, maxwarn=[['general']], need_warn=True)
J('cov-elnedyn', TRP, ['-ff', 'elnedyn22', '-ss', 'C'], need_warn=True)        # no scfix feature: missing-feature warning
J('cov-extdih', TRP, ['-ff', 'martini3001', '-ss', 'E', '-ed'], maxwarn=[['missing-feature']], need_warn=True)
J('cov-collagen', DIPRO, ['-ff', 'martini3001', '-collagen'], need_warn=True)
J('cov-idr-tune', TRP, M22 + ['-noscfix', '-idr-tune', '-id-regions', '1:5'], maxwarn=[['missing-feature:1']], need_warn=True)
J('cov-termini-ignore', DIPRO, M3 + ['-nter', 'N-ter', '-cter', 'C-ter', '-ignore', 'HOH', '-map-dir', EMPTY_DIR,
                                  '-ff-dir', EMPTY_DIR] + W1, need_warn=True)
# (3) runs that stop before the gate: nothing may appear (requested dumps aside)
J('abort-merge-conflict', CH2, M3 + ['-merge', 'all', '-merge', 'A,B'], abort='raise', graph='g.pdb', pre=['cg.pdb'])
J('abort-elastic-go', TRP, M3 + ['-elastic'], go='internal', abort='usage', pre=['cg.pdb'])
J('abort-unknown-ff', DIPRO, ['-ff', 'no-such-ff', '-ss', 'C'], abort='raise', graph='g.pdb')
J('abort-unknown-from', DIPRO, ['-from', 'no-such-ff', '-ss', 'C'], abort='raise')
J('abort-bad-ff-dir', DIPRO, M3 + ['-ff-dir', NOT_A_DIR], abort='raise')
J('abort-missing-ff-dir', DIPRO, M3 + ['-ff-dir', os.path.join(INPUTS, 'no-such-dir')], abort='raise')
J('abort-gro-model', os.path.join(INPUTS, 'absent.gro'), M3 + ['-model', '2'], abort='usage', pre=['topol.top'])
J('abort-bad-map-dir', DIPRO, M3 + ['-map-dir', NOT_A_DIR], abort='raise')
J('abort-bad-eunit', TRP, M3 + ['-elastic', '-eunit', '1:2:3'], abort='raise', canon='c.pdb')
J('abort-list-ff', None, ['-list-ff'], abort='info', x=None, o=None, pre=['cg.pdb'])
J('abort-list-blocks', None, ['-list-blocks'], abort='info', x=None, o=None)

rng = chk.rng('cli')


def random_job(i):
    """a random combination of the options that decide the set of files, of a warning source and of -maxwarn"""
    ff = rng.choice(['martini3001', 'martini22'])
    inp = aa(rng.choice(PROTS))
    k = {}
    r = rng.random()
    if r < 0.2:
        inp, ff = TRP, 'martini3001'
        k['go'] = rng.choice(['internal', GO_MAP])
        if k['go'] == 'internal' and rng.random() < 0.6:
            k['go_write'] = rng.choice([True, 'contacts.out'])
        k['water_bias'] = rng.random() < 0.3
        k['cost'] = 1.5
    elif r < 0.3:
        inp, ff = TRP, 'martini3001'
        k['water_bias'] = True
    elif r < 0.45:
        inp = chains_input(rng.choice(['dipro-termini', 'mini-protein3_trp-cage']), rng.choice(['AB', 'ABC']))
        k['sep'] = rng.random() < 0.5
    extra = ['-ff', ff]
    if inp.startswith(INPUTS) and rng.random() < 0.4:
        extra += ['-merge', rng.choice(['A,B', 'all'])]
    src = rng.choice(['none', 'scfix', 'mutate', 'mutate2', 'scfix+mutate'])
    if 'scfix' in src:
        extra.append('-scfix')
    elif ff == 'martini22':
        extra.append('-noscfix')
    if 'mutate' in src:
        extra += ['-mutate', 'A-GLY999:ALA']
    if src == 'mutate2':
        extra += ['-mutate', 'A-GLY998:ALA']
    if rng.random() < 0.15:
        k['dssp'] = rng.choice([DSSP_OK, DSSP_OLD] + (['mdtraj'] if HAVE_MDTRAJ else []))
        k['v'] = int(rng.random() < 0.3)
        if k['dssp'] == 'mdtraj' and not inp.startswith(INPUTS):
            # (mdtraj answers 'NA' for some residues of mini-protein2_helix, which stops martinize2 on a KeyError in
            # convert_dssp_to_martini: not a matter of C07)
            inp = rng.choice([TRP, BETA])
    else:
        extra += ['-ss', 'C']
    if rng.random() < 0.3:
        k['name'] = rng.choice(['prot', 'mol.x', 'm'])
    if rng.random() < 0.25:
        k['x'] = rng.choice([None, 'out.gro', 'structure'])
    if rng.random() < 0.2:
        k['o'] = rng.choice([None, 'sys.top'])
    for key in ('graph', 'repair', 'canon'):
        if rng.random() < 0.15:
            k[key] = rng.choice(['dump_%s.pdb' % key, 'd.pdb'])
    mw = rng.choice([[], [[str(rng.randint(0, 3))]], [['general']], [['general:%d' % rng.randint(0, 2)]],
                     [['missing-feature'], [str(rng.randint(0, 2))]], [['general', 'missing-feature']],
                     [[':%d' % rng.randint(0, 9)]], [[str(rng.randint(0, 2)), ':%d' % rng.randint(1, 9)]],
                     [['-%d' % rng.randint(1, 3)]], [['general:-1', str(rng.randint(0, 2))]],
                     [['never-seen:%d' % rng.randint(0, 9)], ['missing-feature:%d' % rng.randint(0, 1)]],
                     [['', 'general'], [str(rng.randint(0, 1)), str(rng.randint(0, 1))]]])
    names = ['cg.pdb', 'topol.top', 'molecule_0.itp', '#cg.pdb.1#', '#topol.top.1#', 'x.dat', 'go_nbparams.itp',
             'molecule.itp', 'chain_A.ssd', 'd.pdb']
    J('random', inp, extra, maxwarn=mw, pre=rng.sample(names, rng.randint(0, 4)), **k)


for i in range(60 if chk.thorough else 2):
    random_job(i)

# ---- execute in forked workers (each run has a scratch directory of its own) -----------------------
NWORKERS = max(1, int(os.environ.get('VERIF_C07_WORKERS', '8')))
order = sorted(range(len(jobs)), key=lambda i: -jobs[i]['cost'])
ctx = multiprocessing.get_context('fork')
t_cli = time.time()
results = {}
with ctx.Pool(min(NWORKERS, len(jobs))) as pool:
    for res in pool.imap_unordered(cli_eval, [jobs[i] for i in order], chunksize=1):
        results[res['cid']] = res
chk.extra['cli_wall_s'] = round(time.time() - t_cli, 1)
chk.extra['cli_workers'] = NWORKERS
cli_rows = [results[j['cid']] for j in jobs]
for r in cli_rows:
    chk.merge_worker_lines(r['cov'])
    for key in r['counts']:
        chk.count(key)
cli_models = chk.drv.ask([r['ln'] for r in cli_rows]) if chk.lean_ok else [None] * len(cli_rows)
for r, mo in zip(cli_rows, cli_models):
    chk.case(r['cid'], r['ln'], r['impl'], mo if r['use_model'] else None, r['errs'], r['nontrivial'], finding=r['finding'])
# the set of files: `outputs` of the model against the pending table at the gate and the directory after the run
out_rows = [r for r in cli_rows if r['ln2'] is not None]
out_models = chk.drv.ask([r['ln2'] for r in out_rows]) if chk.lean_ok else [None] * len(out_rows)
for r, mo in zip(out_rows, out_models):
    chk.count('cliout_compared')
    chk.case(r['cid'] + '/files', r['ln2'], r['impl2'], mo, [], r['nontrivial'])

# every file-writing branch must have been seen both blocked by the gate and passed
seen = {}
for r in cli_rows:
    seen.setdefault(r['branch'], set()).add(r['kind'])
matrix_errs = []
for b, kinds in sorted(seen.items()):
    if b.startswith(('abort-', 'gate-', 'cov-')) or b == 'random':
        continue
    if not {'blocked', 'passed'} <= kinds:
        matrix_errs.append('harness: branch %s was only seen %s (needs a blocked and a passed run)' % (b, sorted(kinds)))
chk.extra['cli_branches'] = {b: sorted(k) for b, k in sorted(seen.items())}
chk.case('cli-branch-matrix', line('branches', sorted(seen)), 'ok' if not matrix_errs else 'incomplete', None, matrix_errs, True)

# every shape of -maxwarn token must have been passed to a run that logged warnings
shape_seen = {}
for r in cli_rows:
    for sh in r['shapes']:
        shape_seen.setdefault(sh, set()).add(r['kind'])
shape_errs = ['harness: no run with warnings was given a -maxwarn token of shape %s' % sh for sh in MW_SHAPES if sh not in shape_seen]
if not any('blocked' in shape_seen.get(sh, ()) for sh in ('empty-type:N',)):
    shape_errs.append('harness: no blocked run with a -maxwarn token of the shape :N')
chk.extra['cli_maxwarn_token_shapes'] = {sh: sorted(k) for sh, k in sorted(shape_seen.items())}
chk.case('cli-maxwarn-token-shapes', line('shapes', sorted(shape_seen)), 'ok' if not shape_errs else 'incomplete', None, shape_errs, True)

# the gate must have been reached with a leftover that consists of records above warning level only
n_above_only = sum(1 for r in cli_rows if r.get('above_only') and r['kind'] == 'blocked')
chk.case('cli-leftover-above-warning-level', line('aboveonly', n_above_only), 'ok' if n_above_only >= 2 else 'incomplete', None,
         [] if n_above_only >= 2 else ['harness: %d blocked runs whose leftover consists of records above warning level only '
                                       '(needs 2)' % n_above_only], True)

shutil.rmtree(SCRATCH, ignore_errors=True)
# ---- destinations that are symbolic links (oracle only; the file-system model has one directory, no links) ----
# The backup name is formed next to the DESTINATION NAME: a destination that is a symbolic link to a file in another
# directory is itself kept under '#name.1#' (the link, still pointing to the old file, which stays untouched), and the
# new file takes the destination name.  (Seeded change C07m resolved the link: backup and replacement happened in
# the other directory.)
import tempfile as _tf, shutil as _sh
for _k, (_mode, _old, _new) in enumerate([('w', b'old contents\n', b'new contents\n'), ('wb', b'A' * 10, b'B' * 3),
                                          ('w', b'', b'x\n')]):
    _root = _tf.mkdtemp(prefix='c07link_')
    try:
        _here, _else, _td = (os.path.join(_root, n) for n in ('here', 'elsewhere', 'tmp'))
        for _d in (_here, _else, _td):
            os.mkdir(_d)
        _target = os.path.join(_else, 'real.dat')
        with open(_target, 'wb') as _f:
            _f.write(_old)
        _dest = os.path.join(_here, 'out.dat')
        os.symlink(_target, _dest)
        _W = type.__call__(DeferredFileWriter)
        _W._tmpdir = _td
        _errs = []
        try:
            _h = _W.open(_dest, _mode)
            _h.write(_new if 'b' in _mode else _new.decode())
            _h.close()
            _W.write()
        except Exception as _e:
            _errs.append('finalising a symbolic-link destination raised %s: %s' % (type(_e).__name__, str(_e)[:120]))
        _names_here, _names_else = sorted(os.listdir(_here)), sorted(os.listdir(_else))
        if not _errs:
            if open(_target, 'rb').read() != _old or _names_else != ['real.dat']:
                _errs.append('the file the link pointed to was changed or got company: elsewhere/ holds %r' % (_names_else,))
            if '#out.dat.1#' not in _names_here:
                _errs.append('no backup #out.dat.1# next to the destination: here/ holds %r' % (_names_here,))
            elif open(os.path.join(_here, '#out.dat.1#'), 'rb').read() != _old:
                _errs.append('the backup next to the destination does not hold the old contents')
            if not os.path.exists(_dest) or open(_dest, 'rb').read() != _new:
                _errs.append('the destination name does not hold what was written for it')
        chk.count('symlink_destination_cases')
        chk.case('symlink-dest-%d' % _k, 'symlinked destination, mode %s, old %d bytes, new %d bytes' % (_mode, len(_old), len(_new)),
                 'here=%r elsewhere=%r' % (_names_here, _names_else), None, _errs, True)
    finally:
        _sh.rmtree(_root, ignore_errors=True)


chk.finish()
