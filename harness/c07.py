#!/venv/bin/python
"""C07 - no output from a run with unwaived warnings; existing files are never lost.
Model: lean/VermouthModel/C07.lean; theorems: lean/VermouthProps/C07.lean.

Three parts:
  A. static: every `open(` in the writer modules named by the property resolves to the
     deferred open unless defer_writing=False (AST walk of the live sources);
  B. deferred writer: random histories of open/write/reopen/finalise/close with injected
     crashes on a fresh DeferredFileWriter in a scratch directory, compared op by op with
     the Lean model (driver_c07 `run`) and judged by an independent oracle;
  C. CLI: bin/martinize2 in-process on tier-0 inputs with warning-raising options and
     -maxwarn combinations; audit hook on every open-for-writing; exit code and directory
     contents compared with the model of the gate (driver_c07 `cli`) and judged by the oracle.
"""
import ast
import io
import logging
import runpy
import shutil
import tempfile
from common import *

chk = Check('C07')
chk.extra['rule'] = ('writer histories: random sequences of deferred opens (modes r,w,a,r+,w+,a+,x; text and binary) '
                     'with writes, reopen, finalise (optionally interrupted before the k-th mutating system call) and '
                     'close over 1-5 names incl. backup-shaped names and pre-existing backups; CLI: martinize2 runs on '
                     'tier-0 inputs x warning-raising options x -maxwarn. A case is non-trivial if a destination '
                     'pre-exists, or a crash point lies strictly inside finalisation, or it is a CLI run with >= 1 '
                     'warning; distinct = distinct protocol line')
chk.lean(["VermouthProps.C07"], "driver_c07")
chk.trusted.append('harness/c07.py: name <-> Path parser (#name.N# pattern), crash injection shims in the '
                   'vermouth.file_writer namespace, audit hook, oracle')
chk.assumptions.append('file-system steps (rename, create, append, unlink) are atomic; temp directory disjoint from '
                       'destinations; one directory; text-mode data is ASCII (CR included)')

import vermouth.file_writer as FW
from vermouth.file_writer import DeferredFileWriter

SCRATCH = tempfile.mkdtemp(prefix='verif_c07_')
BAK_RE = re.compile(r'^#(.+)\.([1-9][0-9]*)#$', re.S)
MODES = ['r', 'w', 'a', 'r+', 'w+', 'a+', 'x']


def enc_list(items):
    return '[ ' + ' '.join(items) + ' ]' if items else '[ ]'


def parse_name(s):
    """real file name -> protocol Path (mirror of Drivers/C07.lean `render`)"""
    m = BAK_RE.match(s)
    if m:
        return [1, parse_name(m.group(1)), int(m.group(2))]
    return [0, s]


def mode_kind(mode):
    return MODES.index(mode.replace('b', '').replace('t', ''))


def b2s(b):
    return b.decode('latin-1')


# ----------------------------------------------------------------------------
# A. static check of the call sites
# ----------------------------------------------------------------------------
WRITER_MODULES = ['vermouth/gmx/topology.py', 'vermouth/pdb/pdb.py', 'vermouth/gmx/gro.py',
                  'vermouth/dssp/dssp.py', 'vermouth/rcsu/contact_map.py']


def static_open_sites(relpath):
    """Return [(lineno, verdict, detail)] for every call `open(...)`/`*.open(...)`/`os.fdopen`
    that opens a file for writing in the module.  verdict in
    deferred | guarded (local `open = deferred_open` under `if defer_writing`) | read | tempfile | BYPASS"""
    src = open(os.path.join(REPO, relpath)).read()
    tree = ast.parse(src)
    imported_deferred = any(isinstance(n, ast.ImportFrom) and n.module and n.module.endswith('file_writer')
                            and any(a.name == 'deferred_open' for a in n.names) for n in ast.walk(tree))
    out = []

    def mode_of(call):
        mode = None
        if len(call.args) >= 2:
            mode = call.args[1]
        for kw in call.keywords:
            if kw.arg == 'mode':
                mode = kw.value
        if mode is None:
            return 'r'
        if isinstance(mode, ast.Constant) and isinstance(mode.value, str):
            return mode.value
        return '?'

    for fn in [n for n in ast.walk(tree) if isinstance(n, (ast.FunctionDef, ast.Module))]:
        body_nodes = list(ast.walk(fn)) if isinstance(fn, ast.FunctionDef) else []
        if isinstance(fn, ast.Module):
            # module level statements only (functions handled on their own)
            body_nodes = []
            for st in fn.body:
                if not isinstance(st, (ast.FunctionDef, ast.ClassDef)):
                    body_nodes += list(ast.walk(st))
            for cls in [n for n in fn.body if isinstance(n, ast.ClassDef)]:
                for st in cls.body:
                    if not isinstance(st, ast.FunctionDef):
                        body_nodes += list(ast.walk(st))
        # does the function rebind `open` to deferred_open under `if defer_writing:` ?
        guarded = False
        has_param = isinstance(fn, ast.FunctionDef) and any(a.arg == 'defer_writing' for a in fn.args.args + fn.args.kwonlyargs)
        default_true = False
        if has_param:
            args = fn.args.args
            defaults = fn.args.defaults
            for a, d in zip(args[len(args) - len(defaults):], defaults):
                if a.arg == 'defer_writing' and isinstance(d, ast.Constant) and d.value is True:
                    default_true = True
        for n in body_nodes:
            if isinstance(n, ast.If) and isinstance(n.test, ast.Name) and n.test.id == 'defer_writing':
                for st in n.body:
                    if (isinstance(st, ast.Assign) and len(st.targets) == 1 and isinstance(st.targets[0], ast.Name)
                            and st.targets[0].id == 'open' and isinstance(st.value, ast.Name)
                            and st.value.id == 'deferred_open'):
                        guarded = True
        other_open_assign = any(isinstance(n, ast.Assign) and any(isinstance(t, ast.Name) and t.id == 'open' for t in n.targets)
                                and not (isinstance(n.value, ast.Name) and n.value.id == 'deferred_open') for n in body_nodes)
        for n in body_nodes:
            if not isinstance(n, ast.Call):
                continue
            f = n.func
            name = f.id if isinstance(f, ast.Name) else (f.attr if isinstance(f, ast.Attribute) else None)
            if name == 'fdopen':
                out.append((n.lineno, 'tempfile', 'os.fdopen'))
                continue
            if name not in ('open', 'deferred_open', '_open'):
                continue
            mode = mode_of(n)
            writing = any(c in mode for c in 'wax+?')
            if not writing:
                out.append((n.lineno, 'read', mode))
            elif name == 'deferred_open' and isinstance(f, ast.Name) and imported_deferred:
                out.append((n.lineno, 'deferred', mode))
            elif (name == 'open' and isinstance(f, ast.Name) and guarded and has_param and default_true
                  and not other_open_assign):
                out.append((n.lineno, 'guarded', mode))
            else:
                out.append((n.lineno, 'BYPASS', '%s(..., %r)' % (name, mode)))
    # de-duplicate (nested functions are walked twice)
    return sorted(set(out))


static_errs = []
static_summary = {}
for rel in WRITER_MODULES:
    try:
        sites = static_open_sites(rel)
    except Exception as e:  # noqa
        static_errs.append('%s: cannot analyse (%r)' % (rel, e))
        continue
    static_summary[rel] = ['%d:%s' % (l, v) for l, v, d in sites]
    for l, v, d in sites:
        chk.count('static_' + v)
        if v == 'BYPASS':
            static_errs.append('%s:%d opens a file for writing with %s, not through deferred_open' % (rel, l, d))
    if not any(v in ('deferred', 'guarded') for l, v, d in sites):
        static_errs.append('%s: no deferred write site found (anchor moved?)' % rel)
# the module-level binding itself
if getattr(FW.deferred_open, '__self__', None) is not DeferredFileWriter() or FW.deferred_open.__func__ is not DeferredFileWriter.open:
    static_errs.append('vermouth.file_writer.deferred_open is not DeferredFileWriter().open')
chk.extra['static_open_sites'] = static_summary
chk.case('static-open-sites', line('static', [[k, ' '.join(v)] for k, v in sorted(static_summary.items())]),
         'ok' if not static_errs else 'bypass', None, static_errs, True)


# ----------------------------------------------------------------------------
# B. deferred writer histories
# ----------------------------------------------------------------------------
class Crash(Exception):
    pass


class Injector:
    """Counts the mutating system calls made by DeferredFileWriter.write() and raises
    before call number fuel+1.  Installed in the namespace of vermouth.file_writer."""

    def __init__(self):
        self.active = False
        self.fuel = None
        self.calls = 0
        self.real_os, self.real_shutil, self.real_open = FW.os, FW.shutil, FW._open
        inj = self

        class OsProxy:
            def __getattr__(self, name):
                return getattr(inj.real_os, name)

            def remove(self, path):
                inj.tick()
                return inj.real_os.remove(path)

        class ShutilProxy:
            def __getattr__(self, name):
                return getattr(inj.real_shutil, name)

            def move(self, *a, **k):
                inj.tick()
                return inj.real_shutil.move(*a, **k)

        def open_proxy(*a, **k):
            if inj.active:
                inj.tick()
            return inj.real_open(*a, **k)

        self.os_proxy, self.shutil_proxy, self.open_proxy = OsProxy(), ShutilProxy(), open_proxy

    def tick(self):
        if not self.active:
            return
        if self.fuel is not None and self.calls >= self.fuel:
            raise Crash()
        self.calls += 1

    def install(self):
        FW.os, FW.shutil, FW._open = self.os_proxy, self.shutil_proxy, self.open_proxy

    def uninstall(self):
        FW.os, FW.shutil, FW._open = self.real_os, self.real_shutil, self.real_open


INJ = Injector()


def snapshot_dir(d):
    return {n: open(os.path.join(d, n), 'rb').read() for n in os.listdir(d) if os.path.isfile(os.path.join(d, n))}


def run_history(files, ops):
    """Execute on the real code.  files: {name: bytes}; ops: list of tuples
    ('open', name, modestring, bytes) | ('fin', fuel or None) | ('close',).
    Returns per op: (res, pending, user snapshot, tmp snapshot, crashed)."""
    d = tempfile.mkdtemp(dir=SCRATCH)
    td = os.path.join(d, '_tmp')
    os.mkdir(td)
    for n, c in files.items():
        with open(os.path.join(d, n), 'wb') as f:
            f.write(c)
    W = type.__call__(DeferredFileWriter)
    W._tmpdir = td
    tmpno = {}
    out = []
    INJ.install()
    try:
        for op in ops:
            res = 'ok'
            crashed = False
            if op[0] == 'open':
                _, name, mode, data = op
                try:
                    h = W.open(os.path.join(d, name), mode)
                except FileNotFoundError:
                    res = 'notfound'
                except FileExistsError:
                    res = 'exists'
                except KeyError:
                    res = 'keyerror'
                except Exception as e:  # noqa
                    res = 'exception:' + type(e).__name__
                else:
                    with h:
                        if mode_kind(mode) == 0:
                            got = h.read()
                            res = 'content:' + enc(got if isinstance(got, str) else b2s(got))
                        else:
                            h.write(data if 'b' in mode else data.decode('ascii'))
            elif op[0] == 'fin':
                INJ.active, INJ.fuel, INJ.calls = True, op[1], 0
                try:
                    W.write()
                except Crash:
                    crashed = True
                except Exception as e:  # noqa  (anything but the injected crash is a failure of write() itself)
                    res = 'exception:' + type(e).__name__
                    crashed = True
                finally:
                    INJ.active = False
            else:
                W.close()
            for tp, fp, m in W.open_files:
                if tp not in tmpno:
                    tmpno[tp] = len(tmpno)
            pending = [[tmpno[tp], os.path.basename(str(fp)), mode_kind(m)] for tp, fp, m in W.open_files]
            user = snapshot_dir(d)
            tmps = {}
            for n in os.listdir(td):
                p = os.path.join(td, n)
                tmps['tmp/%d' % tmpno[p]] = open(p, 'rb').read()
            out.append((res, pending, user, tmps, crashed))
    finally:
        INJ.uninstall()
        W.open_files.clear()
        shutil.rmtree(d, ignore_errors=True)
    return out


def canon_result(out):
    items = []
    for res, pending, user, tmps, crashed in out:
        snap = dict((k, b2s(v)) for k, v in user.items())
        snap.update((k, b2s(v)) for k, v in tmps.items())
        items.append(enc_list([res, enc(pending), enc([[k, snap[k]] for k in sorted(snap)])]))
    return enc_list(items)


def proto_history(files, ops):
    fl = [[parse_name(n), b2s(c)] for n, c in files.items()]
    ol = []
    for op in ops:
        if op[0] == 'open':
            ol.append([0, parse_name(op[1]), mode_kind(op[2]), b2s(op[3])])
        elif op[0] == 'fin':
            ol.append([1, op[1]])
        else:
            ol.append([2])
    return line('run', fl, ol)


# ---- oracle -----------------------------------------------------------------
def closure_names(name, listing):
    """names in `listing` that are `name` or an iterated backup name of it"""
    res = []
    for n in listing:
        m = n
        while True:
            if m == name:
                res.append(n)
                break
            mm = BAK_RE.match(m)
            if not mm:
                break
            m = mm.group(1)
    return res


def first_free_backup(name, listing):
    i = 1
    while '#%s.%d#' % (name, i) in listing:
        i += 1
    return '#%s.%d#' % (name, i)


def oracle_history(files, ops, out):
    """Independent statement of the property on the observed directory contents."""
    errs = []
    prev_user = dict(files)
    # direct-write bookkeeping since the last finalise/close: name -> ('w', bytes) | ('a', bytes) ; None = not plain
    written = {}
    aplus_first, trunc_after_aplus = set(), set()   # signature of F-C07-4
    dirty = False  # a crashed finalisation happened: later content clauses are not applied
    for i, (op, (res, pending, user, tmps, crashed)) in enumerate(zip(ops, out)):
        if res.startswith('exception:'):
            errs.append('op %d %r raised %s' % (i, op[:3], res[10:]))
        if op[0] == 'open':
            if user != prev_user:
                errs.append('op %d %r changed the destination directory before finalisation: %s'
                            % (i, op[:3], sorted(set(user.items()) ^ set(prev_user.items()))[:3]))
            _, name, mode, data = op
            k = mode_kind(mode)
            if res == 'ok' and k != 0:
                if k == 1 or k == 4:
                    if name in aplus_first:
                        trunc_after_aplus.add(name)
                    written[name] = ('w', data) if written.get(name, 1) is not None else None
                elif k == 2 or k == 5:
                    if k == 5 and name not in written:
                        aplus_first.add(name)
                    if name in written:
                        if written[name] is not None:
                            written[name] = (written[name][0], written[name][1] + data)
                    else:
                        written[name] = ('a', data)
                else:
                    written[name] = None       # update modes: content clause not applied
            # a failed open (r+ on a missing file, x) registers nothing: the name stays out of `written`,
            # so the 'unrelated file changed' clause applies to it
        elif op[0] == 'close':
            if user != prev_user:
                errs.append('op %d close() changed the destination directory' % i)
            if tmps and not dirty:
                errs.append('op %d close() left temporary files behind: %s' % (i, sorted(tmps)))
            written = {}
            aplus_first.clear()
        else:
            dests = list(written)
            # no pre-existing file is lost, whether or not the finalisation was interrupted
            for n, c in prev_user.items():
                cands = closure_names(n, user)
                ok = any(user[m] == c for m in cands)
                if not ok:
                    # an append destination may have grown; c must remain a prefix
                    ok = any(user[m].startswith(c) and (m in dests) and (written.get(m) is None or written[m][0] == 'a')
                             for m in cands)
                if not ok:
                    errs.append('op %d finalise(%s): pre-existing file %r (%d bytes) is no longer found intact under '
                                'its own or a backup name' % (i, 'crash@%s' % op[1] if crashed else 'complete', n, len(c)))
            adversarial = any(BAK_RE.match(n) and closure_names(BAK_RE.match(n).group(1), dests) for n in dests)
            if not crashed and not dirty:
                for n, w in written.items():
                    if w is None:
                        continue
                    kind, data = w
                    if kind == 'w':
                        if user.get(n) != data:
                            errs.append('op %d finalise: %r holds %r..., written for it: %r...' % (i, n, user.get(n, b'<missing>')[:20], data[:20]))
                        if n in prev_user and not adversarial:
                            bk = first_free_backup(n, prev_user)
                            if user.get(bk) != prev_user[n]:
                                errs.append('op %d finalise: old %r not found byte for byte at first free backup %r' % (i, n, bk))
                    else:
                        want = (prev_user.get(n, b'') if not adversarial else None)
                        if want is not None and user.get(n) != want + data:
                            errs.append('op %d finalise: appended %r holds %r..., expected old+written %r...'
                                        % (i, n, user.get(n, b'<missing>')[:20], (want + data)[:20]))
                if not adversarial:
                    allowed = set(dests) | {first_free_backup(n, prev_user) for n in dests if n in prev_user}
                    for n in set(user) | set(prev_user):
                        if n not in allowed and user.get(n) != prev_user.get(n):
                            errs.append('op %d finalise: unrelated file %r changed' % (i, n))
                if tmps:
                    errs.append('op %d finalise: temporary files left: %s' % (i, sorted(tmps)))
            if crashed:
                dirty = True
            # entries that were not reached stay pending; forget the bookkeeping for finalised ones
            still = {p[1] for p in pending}
            written = {n: (w if not crashed else None) for n, w in written.items() if n in still}
            aplus_first &= still
        prev_user = user
    return errs, bool(trunc_after_aplus)


# ---- generator ----------------------------------------------------------------
BASES = ['a.txt', 'b.itp', 'c', 'x.y.z', 'a.txt.1', 'molecule_0.itp']


def gen_history(rng, maxops):
    base = rng.choice(BASES)
    pool = [base]
    k = rng.random()
    if k < 0.75:
        pool += ['#%s.1#' % base, '#%s.2#' % base]
    if k < 0.25:
        pool += ['##%s.1#.1#' % base, '#%s.3#' % base, '#%s.0#' % base, '#%s.01#' % base]
    pool += rng.sample([b for b in BASES if b != base], rng.randint(0, 2))
    binary = {n: rng.random() < 0.4 for n in pool}
    # destinations: mostly plain names; backup-shaped destinations are the adversarial minority
    dests = [n for n in pool if not BAK_RE.match(n)]
    if rng.random() < 0.2:
        dests += [n for n in pool if BAK_RE.match(n)][:2]

    def blob(binary_ok, lo=0, hi=12):
        n = rng.randint(lo, hi)
        if binary_ok and rng.random() < 0.5:
            return bytes(rng.randrange(256) for _ in range(n))
        return ''.join(rng.choice('abcXYZ 019\n\r;[]') for _ in range(n)).encode()

    files = {}
    for n in pool:
        if rng.random() < (0.6 if not BAK_RE.match(n) else 0.35):
            files[n] = blob(True, 0, 10)
    if rng.random() < 0.01:
        # rare: the destination exists together with ALL backups 1..N (first free index N+1, beyond any cap)
        nbak = rng.choice([99, 100, 130])
        files[base] = blob(True, 1, 10)
        for j in range(1, nbak + 1):
            files['#%s.%d#' % (base, j)] = b'bk%d' % j
        dests = [base] + [n for n in dests if n != base][:1]
    ops = []
    nops = rng.randint(1, maxops)
    plain_only = rng.random() < 0.6
    for _ in range(nops):
        r = rng.random()
        if r < 0.8:
            n = rng.choice(dests)
            if plain_only:
                m = rng.choice(['w', 'w', 'w', 'a', 'a', 'r'])
            else:
                m = rng.choice(['w', 'w', 'w', 'a', 'a', 'a', 'r', 'r+', 'w+', 'a+', 'x'])
            isbin = binary[n] if rng.random() < 0.85 else not binary[n]   # mixed handles on one path
            if isbin or m == 'r':
                m += 'b'
            elif rng.random() < 0.1:
                m += 't'
            ops.append(('open', n, m, blob(isbin)))
        elif r < 0.88:
            ops.append(('fin', None))
        elif r < 0.96:
            ops.append(('fin', rng.randint(0, 7)))
        else:
            ops.append(('close',))
    r = rng.random()
    if r < 0.45:
        ops.append(('fin', None))
    elif r < 0.85:
        ops.append(('fin', rng.randint(0, 2 * len(dests) + 2)))
    if rng.random() < 0.3:
        ops.append(('fin', None))
    return files, ops


def hist_from_json(obj):
    files = {n: bytes.fromhex(c) for n, c in obj['files'].items()}
    ops = []
    for o in obj['ops']:
        if o[0] == 'open':
            ops.append(('open', o[1], o[2], bytes.fromhex(o[3])))
        elif o[0] == 'fin':
            ops.append(('fin', o[1]))
        else:
            ops.append(('close',))
    return files, ops


histories = []
for fn in sorted(os.listdir(os.path.join(VERIF, 'corpus'))):
    if fn.startswith('c07_') and fn.endswith('.json'):
        obj = json.load(open(os.path.join(VERIF, 'corpus', fn)))
        for j, h in enumerate(obj.get('histories', [])):
            histories.append(('corpus-%s-%d' % (fn[4:-5], j),) + hist_from_json(h))
rng = chk.rng('writer')
NH = 25000 if chk.thorough else 1500
for i in range(NH):
    files, ops = gen_history(rng, 40 if chk.thorough and i % 10 == 0 else 12)
    histories.append(('hist-%d' % i, files, ops))

lines, impls, meta = [], [], []
for cid, files, ops in histories:
    out = run_history(files, ops)
    lines.append(proto_history(files, ops))
    impls.append(canon_result(out))
    meta.append((cid, files, ops, out))
models = chk.drv.ask(lines) if chk.lean_ok else [None] * len(lines)
for ln, impl, mo, (cid, files, ops, out) in zip(lines, impls, models, meta):
    errs, sig4 = oracle_history(files, ops, out)
    if sig4:
        chk.count('hist_truncating_reopen_of_pending_a+')
    dests = {o[1] for o in ops if o[0] == 'open' and mode_kind(o[2]) != 0}
    pre = any(n in files for n in dests)
    inner = any(o[0] == 'fin' and r[4] and (o[1] or 0) > 0 for o, r in zip(ops, out))
    chk.count('hist_ops=%d' % (10 * (len(ops) // 10)))
    chk.count('hist_preexisting_dest' if pre else 'hist_fresh_dests_only')
    for o, r in zip(ops, out):
        if o[0] == 'open':
            chk.count('open_' + MODES[mode_kind(o[2])] + ('_' + r[0].split(':')[0] if r[0] != 'ok' else ''))
        elif o[0] == 'fin':
            chk.count('finalise_crashed' if r[4] else 'finalise_complete')
        else:
            chk.count('close')
    if any(BAK_RE.match(n) for n in dests):
        chk.count('hist_backup_shaped_destination')
    if len(files) >= 99:
        chk.count('hist_all_backups_1..N_taken')
    chk.case(cid, ln, impl, mo, errs, pre or inner, finding='F-C07-4' if (errs and sig4) else None)

# ----------------------------------------------------------------------------
# C. the CLI gate
# ----------------------------------------------------------------------------
import hashlib as _hl
from vermouth.log_helpers import CountingHandler, ignore_warnings_and_count

AUDIT = {'on': False, 'events': [], 'finalising': False}


def _audit(ev, args):
    if ev != 'open' or not AUDIT['on']:
        return
    try:
        path, mode, flags = args
    except Exception:  # noqa
        return
    if not isinstance(path, (str, bytes, os.PathLike)):
        return
    w = False
    if isinstance(mode, str):
        w = any(c in mode for c in 'wax+')
    elif isinstance(flags, int):
        w = bool(flags & (os.O_WRONLY | os.O_RDWR | os.O_CREAT | os.O_APPEND | os.O_TRUNC))
    if w:
        AUDIT['events'].append((os.fsdecode(path), mode if isinstance(mode, str) else 'flags=%o' % (flags or 0),
                                AUDIT['finalising']))


sys.addaudithook(_audit)
M2PATH = os.path.join(REPO, 'bin', 'martinize2')
M2 = runpy.run_path(M2PATH, run_name='verif_m2')
logging.getLogger('vermouth').handlers[:] = []
T0 = os.path.join(REPO, 'vermouth', 'tests', 'data', 'integration_tests', 'tier-0')


def sha(b):
    return _hl.sha1(b).hexdigest()[:16]


def run_cli(argv, pre):
    """Run bin/martinize2 in-process in a fresh directory holding the files `pre` (name -> bytes)."""
    d = tempfile.mkdtemp(dir=SCRATCH, prefix='run_')
    for n, c in pre.items():
        with open(os.path.join(d, n), 'wb') as f:
            f.write(c)
    W = DeferredFileWriter()
    W.close()
    rec = {'opens': [], 'gate': None}
    orig_open, orig_write = DeferredFileWriter.open, DeferredFileWriter.write

    def pending_snapshot():
        return [(os.path.relpath(str(fp), d), mode_kind(m), sha(open(tp, 'rb').read())) for tp, fp, m in W.open_files]

    def open_rec(self, filename, mode='r', *a, **k):
        if any(c in mode for c in 'wax+'):
            rec['opens'].append((os.path.relpath(os.path.abspath(str(filename)), d), mode))
        return orig_open(self, filename, mode, *a, **k)

    def write_rec(self):
        rec['gate'] = pending_snapshot()
        AUDIT['finalising'] = True
        return orig_write(self)

    lg = logging.getLogger('vermouth')
    lg.handlers[:] = []
    old = (sys.argv, sys.stderr, sys.stdout, os.getcwd())
    sys.argv, sys.stderr, sys.stdout = ['martinize2'] + argv, io.StringIO(), io.StringIO()
    os.chdir(d)
    DeferredFileWriter.open, DeferredFileWriter.write = open_rec, write_rec
    AUDIT['events'], AUDIT['finalising'], AUDIT['on'] = [], False, True
    code, exited, raw_code = 0, False, None
    try:
        runpy.run_path(M2PATH, run_name='__main__')
    except SystemExit as e:
        # the exit status as the operating system sees it (POSIX): an int is truncated to its low byte,
        # None is 0, any other object is printed and gives 1
        exited, raw_code = True, e.code
        code = (e.code & 0xFF) if isinstance(e.code, int) else (0 if e.code is None else 1)
    except BaseException as e:  # noqa
        code = 'exception:%s' % type(e).__name__
    finally:
        AUDIT['on'] = False
        DeferredFileWriter.open, DeferredFileWriter.write = orig_open, orig_write
        log_err = sys.stderr.getvalue()
        sys.argv, sys.stderr, sys.stdout = old[:3]
        os.chdir(old[3])
    if rec['gate'] is None:
        rec['gate'] = pending_snapshot()
        finalised = False
    else:
        finalised = True
    counters = [h for h in lg.handlers if isinstance(h, CountingHandler)]
    entries = [[lvl, typ, cnt] for h in counters[:1] for lvl, dd in h.counts.items() for typ, cnt in dd.items()]
    lg.handlers[:] = []
    W.close()
    after = snapshot_dir(d)
    events = [(os.path.realpath(p) if os.path.isabs(p) else os.path.realpath(os.path.join(d, p)), m, fin)
              for p, m, fin in AUDIT['events']]
    inside = [(os.path.relpath(p, os.path.realpath(d)), m, fin) for p, m, fin in events
              if p.startswith(os.path.realpath(d) + os.sep)]
    shutil.rmtree(d, ignore_errors=True)
    return {'code': code, 'exited': exited, 'raw_code': raw_code, 'after': after, 'entries': entries, 'opens': rec['opens'], 'gate': rec['gate'],
            'finalised': finalised, 'inside': inside, 'counter': counters[0] if counters else None, 'log': log_err}


def leftover_oracle(entries, specs, level=logging.WARNING):
    """independent closed form of the leftover count (same statement as the C08 oracle)"""
    above = sum(c for l, t, c in entries if l > level)
    warn = {}
    for l, t, c in entries:
        if l == level:
            warn[t] = warn.get(t, 0) + c
    flat = [sp for g in specs for sp in g]
    named = {t for t, c in flat if c is None}
    limits = {}
    for t, c in flat:
        if c is not None:
            limits[t] = max(limits.get(t, 0), c, 0)
    blanket = limits.pop(None, 0)
    total, rest = above, 0
    for t, c in warn.items():
        if t in limits:
            total += max(0, c - limits[t])
        elif t not in named:
            rest += c
    return total + max(0, rest - blanket)


def altloc_input(prot, n=1):
    """copy of the test structure with `n` alternate-location-B records, each of which gives one
    'pdb-alternate' warning, logged before every other warning of the run (n = 1: after the first CA;
    otherwise spread evenly over all ATOM records)"""
    lines = open(os.path.join(T0, prot, 'aa.pdb')).readlines()
    out = []
    if n == 1:
        done = False
        for l in lines:
            out.append(l)
            if not done and l.startswith('ATOM') and l[12:16].strip() == 'CA':
                out.append(l[:16] + 'B' + l[17:])
                done = True
    else:
        natoms = sum(1 for l in lines if l.startswith('ATOM'))
        k = 0
        for l in lines:
            out.append(l)
            if l.startswith('ATOM'):
                copies = n // natoms + (1 if k < n % natoms else 0)
                out.extend([l[:16] + 'B' + l[17:]] * copies)
                k += 1
    path = os.path.join(SCRATCH, 'altloc%d_%s.pdb' % (n, prot))
    with open(path, 'w') as f:
        f.writelines(out)
    return path


def cli_case(cid, prot, opts, maxwarn_groups, pre_names, verbose=False, write_dump=None, altloc=False):
    aa = altloc_input(prot, int(altloc)) if altloc else os.path.join(T0, prot, 'aa.pdb')
    argv = ['-f', aa, '-x', 'cg.pdb', '-o', 'topol.top'] + opts
    for g in maxwarn_groups:
        argv += ['-maxwarn'] + g
    if verbose:
        argv.append('-v')
    if write_dump:
        argv += ['-write-graph', write_dump]
    pre = {n: ('old %s\n' % n).encode() * 3 for n in pre_names}
    r = run_cli(argv, pre)
    specs = [[M2['maxwarn'](s) for s in g] for g in maxwarn_groups]
    impl_left = ignore_warnings_and_count(r['counter'], specs) if r['counter'] is not None else None
    # the error record logged by the gate itself is counted after the decision; remove it for the model input
    entries = r['entries']
    gate_err = 1 if (r['exited'] and not r['finalised']) else 0
    ent_gate = []
    for l, t, c in entries:
        if l == logging.ERROR and t == 'general' and gate_err:
            c -= 1
            gate_err = 0
        if c:
            ent_gate.append([l, t, c])
    impl_left_gate = leftover_oracle(ent_gate, specs)
    # `deferred_open` is a bound method created at import time, so the individual calls cannot be
    # intercepted without touching every writer module; the history given to the model is reconstructed
    # from the pending table observed at the gate (one open per entry, stored mode, final contents)
    opens = [[parse_name(n), k, h] for n, k, h in r['gate']]
    files = [[parse_name(n), sha(c)] for n, c in pre.items()]
    ln = line('cli', logging.WARNING, ent_gate, [[[t, c] for t, c in g] for g in specs], files, opens)
    allowed_extra = set()
    if write_dump:
        allowed_extra.add(write_dump)
    after_user = {n: sha(c) for n, c in r['after'].items() if n not in allowed_extra and not re.fullmatch(r'dssp_in_.*\.pdb', n)}
    impl = enc_list([enc(r['code']) if isinstance(r['code'], int) else enc(str(r['code'])), enc(impl_left_gate),
                     enc([[n, after_user[n]] for n in sorted(after_user)])])
    # ---- oracle
    errs, finding = [], None
    new = sorted(set(r['after']) - set(pre))
    changed = sorted(n for n in pre if r['after'].get(n) != pre[n])
    if isinstance(r['code'], str):
        errs.append('martinize2 raised %s' % r['code'])
    if impl_left_gate:
        if r['code'] == 0:
            errs.append('%d warnings left after -maxwarn but exit status 0 (sys.exit(%r))' % (impl_left_gate, r['raw_code']))
        if r['finalised']:
            errs.append('%d warnings left after -maxwarn but DeferredFileWriter.write() was called' % impl_left_gate)
        unexpected = [n for n in new if n not in allowed_extra]
        if unexpected or changed:
            if (verbose and r['code'] == 2 and not changed and unexpected
                    and all(re.fullmatch(r'dssp_in_.*\.pdb', n) for n in unexpected)):
                finding = 'F-C07-2'
            errs.append('run with %d unwaived warnings (exit %s) left new files %s / changed files %s'
                        % (impl_left_gate, r['code'], unexpected, changed))
    else:
        if r['code'] != 0:
            errs.append('no warnings left after -maxwarn but exit code %s' % (r['code'],))
        for n, k, h in r['gate']:
            if n not in r['after'] or sha(r['after'][n]) != h:
                errs.append('output %r does not hold what was written for it' % n)
            if n in pre:
                bk = first_free_backup(n, pre)
                if r['after'].get(bk) != pre[n]:
                    errs.append('pre-existing %r not kept byte for byte at %r' % (n, bk))
        dests = {n for n, k, h in r['gate']}
        for n in pre:
            if n not in dests and r['after'].get(n) != pre[n]:
                errs.append('pre-existing unrelated file %r changed' % n)
        if not r['gate']:
            errs.append('successful run wrote nothing through the deferred writer')
    for pth, m, fin in r['inside']:
        if fin:
            continue
        if re.fullmatch(r'dssp_in_.*\.pdb', pth) or pth in allowed_extra:
            continue
        errs.append('file %r in the run directory opened for writing (%s) before the gate: a writer bypasses the '
                    'deferred writer' % (pth, m))
    nwarn = sum(c for l, t, c in ent_gate if l >= logging.WARNING)
    chk.count('cli_exit=%s' % (r['code'],))
    chk.count('cli_warnings=%d' % min(nwarn, 3))
    chk.count('cli_leftover=%d' % (impl_left_gate if impl_left_gate % 256 == 0 else min(impl_left_gate, 3)))
    chk.count('cli_deferred_outputs=%d' % len(r['gate']))
    if pre:
        chk.count('cli_preexisting_outputs')
    return cid, ln, impl, errs, nwarn >= 1, finding


def ffwarn_dir():
    """-ff-dir with a link for martini3001 whose `[ warning ]` section fires on two consecutive prolines; the
    warning is stored in molecule.log_entries by DoLinks and only reaches the logger (and the counter) in the
    replay loop right before the output is written"""
    d = os.path.join(SCRATCH, 'ffdir')
    os.makedirs(os.path.join(d, 'martini3001'), exist_ok=True)
    with open(os.path.join(d, 'martini3001', 'extra.ff'), 'w') as f:
        f.write('[ link ]\nresname "PRO"\n[ atoms ]\nBB { }\n+BB { }\n[ edges ]\nBB +BB\n[ warning ]\n'
                'Consecutive prolines {BB[resname]}{BB[resid]} and {+BB[resname]}{+BB[resid]}\n')
    return d


PROTS = ['mini-protein1_betasheet', 'dipro-termini', 'mini-protein2_helix', 'mini-protein3_trp-cage']
WARN_OPTS = {
    'none': (['-ff', 'martini22', '-ss', 'C', '-noscfix'], 0),
    'scfix': (['-ff', 'martini22', '-ss', 'C', '-scfix'], 2),            # general + missing-feature
    'mutate': (['-ff', 'martini22', '-ss', 'C', '-noscfix', '-mutate', 'A-GLY999:ALA'], 1),   # general
    'modify': (['-ff', 'martini3001', '-ss', 'C', '-noscfix', '-modify', 'XXX99:N-ter'], 1),
    'both': (['-ff', 'martini22', '-ss', 'C', '-scfix', '-mutate', 'A-GLY999:ALA'], 3),
    # two warning types with different counts: a blanket allowance must be consumed across them
    'mutate2': (['-ff', 'martini22', '-ss', 'C', '-noscfix', '-mutate', 'A-GLY998:ALA', '-mutate', 'A-GLY999:ALA'], 2),
    'both2': (['-ff', 'martini22', '-ss', 'C', '-scfix', '-mutate', 'A-GLY998:ALA', '-mutate', 'A-GLY999:ALA'], 4),
}
cli_plan = [
    ('none', [], ['cg.pdb', '#cg.pdb.1#', 'molecule_0.itp', 'other.txt'], {}),
    ('scfix', [], ['cg.pdb', 'topol.top'], {}),
    ('scfix', [['1']], [], {}),                                    # leftover exactly 1
    ('scfix', [['2']], ['topol.top', '#topol.top.1#', '#topol.top.2#'], {}),
    ('scfix', [['general'], ['missing-feature:1']], [], {}),
    ('mutate', [['missing-feature']], ['cg.pdb'], {}),           # waiver of another type: leftover 1
    ('scfix', [], [], {'write_dump': 'graph_dump.pdb'}),
    ('both', [['2']], ['cg.pdb'], {}),                            # blanket smaller than the total over two types
    ('both2', [['3']], [], {}),
    # first-counted type smaller than the blanket allowance, total above it (1 pdb-alternate + 2 general, -maxwarn 2)
    ('mutate2', [['2']], [], {'altloc': True}),
    # a warning declared in a force-field `[ warning ]` section (type 'model'): counted only after the replay of
    # molecule.log_entries, i.e. the gate must be evaluated after that loop
    # exactly 256 warnings left (300 pdb-alternate, -maxwarn 44): an exit status derived from the count wraps to 0
    ('altloc256', [['44']], ['cg.pdb'], {'prot': 'dipro-termini', 'altloc': 300}),
    ('ffwarn', [], ['cg.pdb'], {'prot': 'dipro-termini'}),
    ('ffwarn', [['1']], ['cg.pdb'], {'prot': 'dipro-termini'}),
]
rng = chk.rng('cli')
if chk.thorough:
    for i in range(20):
        kind = rng.choice(list(WARN_OPTS))
        nw = WARN_OPTS[kind][1]
        mw = rng.choice([[], [[str(rng.randint(0, 3))]], [['general']], [['general:%d' % rng.randint(0, 2)]],
                         [['missing-feature'], [str(rng.randint(0, 2))]], [['general', 'missing-feature']]])
        pre = rng.sample(['cg.pdb', 'topol.top', 'molecule_0.itp', '#cg.pdb.1#', '#topol.top.1#', 'x.dat'], rng.randint(0, 4))
        cli_plan.append((kind, mw, pre, {'prot': rng.choice(PROTS)}))
else:
    # one seeded extra run so that different seeds exercise different combinations
    kind = rng.choice(['scfix', 'mutate', 'both'])
    cli_plan.append((kind, rng.choice([[[str(rng.randint(0, 3))]], [['general:%d' % rng.randint(0, 2)]], [['general']]]),
                     rng.sample(['cg.pdb', 'topol.top', 'molecule_0.itp', '#cg.pdb.1#'], 2), {'prot': rng.choice(PROTS)}))
try:
    import mdtraj  # noqa
    cli_plan.append(('dssp-v', [], ['cg.pdb'], {}))
except Exception:  # noqa
    chk.notes.append('mdtraj not importable: the -dssp -v combination (F-C07-2) was not run')

cli_rows = []
for i, (kind, mw, pre, kw) in enumerate(cli_plan):
    kw = dict(kw)
    prot = kw.pop('prot', PROTS[0])
    if kind == 'dssp-v':
        row = cli_case('cli-%d-dssp-v' % i, prot, ['-ff', 'martini22', '-dssp', '-scfix'], mw, pre, verbose=True)
    elif kind == 'altloc256':
        row = cli_case('cli-%d-altloc256' % i, prot, ['-ff', 'martini3001', '-nt', '-noscfix', '-ss', 'C'], mw, pre, **kw)
        left = re.match(r'\[ \S+ (\S+) ', row[2])
        if not left or left.group(1) != '256':
            row = row[:3] + (row[3] + ['the altloc256 CLI case does not leave exactly 256 warnings any more (got %s)'
                                       % (left.group(1) if left else '?')],) + row[4:]
    elif kind == 'ffwarn':
        row = cli_case('cli-%d-ffwarn' % i, prot, ['-ff', 'martini3001', '-nt', '-noscfix', '-ss', 'C',
                                                  '-ff-dir', ffwarn_dir()], mw, pre, **kw)
        if not row[4]:
            row = row[:3] + (row[3] + ['the force-field [ warning ] section did not produce a counted warning '
                                       '(the ffwarn CLI case no longer exercises the log-entry replay)'],) + row[4:]
    else:
        row = cli_case('cli-%d-%s' % (i, kind), prot, WARN_OPTS[kind][0], mw, pre, **kw)
    cli_rows.append(row)
cli_models = chk.drv.ask([r[1] for r in cli_rows]) if chk.lean_ok else [None] * len(cli_rows)
for (cid, ln, impl, errs, nontriv, finding), mo in zip(cli_rows, cli_models):
    if finding:
        # the model has no DSSP dump; the known finding is judged by the oracle only
        mo = None
    chk.case(cid, ln, impl, mo, errs, nontriv, finding=finding)

shutil.rmtree(SCRATCH, ignore_errors=True)
chk.finish()
