"""
Common machinery of the /verif checks (see DESIGN.md sections 1-3, appendix A).

A check script (harness/cXX.py) does, in this order:

    chk = Check('C08')                       # tier/seed from argv or VERIF_TIER / VERIF_SEED
    chk.lean(['VermouthProps.C08'], 'driver_c08')   # regenerate, build, audit axioms, grep for sorry
    ... run real code and model on corpus + seeded cases, call chk.case(...) per case
    chk.finish()                             # evidence, VIOLATION / KNOWN-FINDING lines, exit code

The real code is imported from VERIF_REPO (default /repo), which is put first on
sys.path, so the checks always run against the current working tree.
"""
import argparse
import fcntl
import hashlib
import json
import os
import random
import re
import signal
import subprocess
import sys
import time
import warnings

VERIF = os.path.dirname(os.path.dirname(os.path.abspath(__file__)))
REPO = os.path.abspath(os.environ.get('VERIF_REPO', '/repo'))
LEAN_DIR = os.path.join(VERIF, 'lean')
ALLOWED_AXIOMS = {'propext', 'Classical.choice', 'Quot.sound'}
FORBIDDEN = re.compile(r'\bsorry\b|\badmit\b|^\s*axiom\s|native_decide|bv_decide|implemented_by|\bunsafe\s|maxHeartbeats\s+0')

os.environ.pop('PYTHONHASHSEED', None)
warnings.filterwarnings('ignore')
if REPO not in sys.path[:1]:
    sys.path.insert(0, REPO)
os.environ['VERMOUTH_VERIF'] = '1'


# ----------------------------------------------------------------------------
# signal handlers that raise (per-case time-outs of the harnesses) versus coverage.py
# ----------------------------------------------------------------------------
# Several harnesses interrupt a long-running call of the real code with a handler that RAISES (SIGVTALRM /
# SIGALRM).  When the signal arrives while the interpreter is inside a coverage.py callback (anchor line
# coverage, see Check._start_anchor_coverage) the exception unwinds through coverage's non-reentrant data lock,
# the lock stays taken and the next traced call blocks for ever (observed: "TIMEOUT after 1200 s" of a check that
# normally takes a minute).  Every handler registered through signal.signal is therefore wrapped: while a
# coverage frame is on the stack the handler is postponed by 50 ms instead of being run.
_real_signal = signal.signal
_ITIMER_OF = {signal.SIGALRM: signal.ITIMER_REAL, signal.SIGVTALRM: signal.ITIMER_VIRTUAL,
              signal.SIGPROF: signal.ITIMER_PROF}


def _inside_coverage(frame, depth=12):
    while frame is not None and depth:
        if '/coverage/' in frame.f_code.co_filename:
            return True
        frame = frame.f_back
        depth -= 1
    return False


def _safe_signal(signum, handler):
    if not callable(handler) or signum not in _ITIMER_OF:
        return _real_signal(signum, handler)

    def wrapped(sig, frame, _h=handler):
        if _inside_coverage(frame):
            cur, interval = signal.getitimer(_ITIMER_OF[sig])
            if cur == 0:      # one-shot timer that has fired: fire again shortly (a repeating timer fires by itself)
                signal.setitimer(_ITIMER_OF[sig], 0.05, interval)
            return None
        return _h(sig, frame)
    wrapped.__wrapped__ = handler
    return _real_signal(signum, wrapped)


signal.signal = _safe_signal


# ----------------------------------------------------------------------------
# protocol encoding (mirror of lean/VermouthModel/Proto.lean)
# ----------------------------------------------------------------------------
def enc(obj):
    """Canonical protocol encoding of ints, None, str, bool and (nested) lists."""
    if obj is None:
        return '-'
    if obj is True:
        return '1'
    if obj is False:
        return '0'
    if isinstance(obj, int):
        return str(obj)
    if isinstance(obj, str):
        return 'x' + obj.encode('utf-8').hex()
    if isinstance(obj, (list, tuple)):
        if not obj:
            return '[ ]'
        return '[ ' + ' '.join(enc(o) for o in obj) + ' ]'
    if hasattr(obj, 'item'):  # numpy scalars
        return enc(obj.item())
    raise TypeError('cannot encode %r' % (obj,))


def line(op, *args):
    return ' '.join([enc(op)] + [enc(a) for a in args])


def dec(text):
    """Decode a protocol line into python objects (list of tokens)."""
    toks = text.split()
    stack = [[]]
    for t in toks:
        if t == '[':
            stack.append([])
        elif t == ']':
            top = stack.pop()
            stack[-1].append(top)
        elif t == '-':
            stack[-1].append(None)
        elif t.startswith('x'):
            stack[-1].append(bytes.fromhex(t[1:]).decode('utf-8'))
        else:
            try:
                stack[-1].append(int(t))
            except ValueError:
                stack[-1].append(t)
    return stack[0]


# ----------------------------------------------------------------------------
# Lean side
# ----------------------------------------------------------------------------
class LeanLock:
    def __enter__(self):
        self.f = open(os.path.join(LEAN_DIR, '.verif-lock'), 'w')
        fcntl.flock(self.f, fcntl.LOCK_EX)

    def __exit__(self, *a):
        fcntl.flock(self.f, fcntl.LOCK_UN)
        self.f.close()


def _run(cmd, cwd=LEAN_DIR, timeout=3000, input=None):
    p = subprocess.run(cmd, cwd=cwd, stdout=subprocess.PIPE, stderr=subprocess.STDOUT,
                       text=True, timeout=timeout, input=input)
    return p.returncode, p.stdout


def write_if_changed(path, content):
    try:
        if open(path).read() == content:
            return False
    except OSError:
        pass
    os.makedirs(os.path.dirname(path), exist_ok=True)
    with open(path, 'w') as f:
        f.write(content)
    return True


def strip_lean_comments(src):
    src = re.sub(r'/-.*?-/', '', src, flags=re.S)
    return '\n'.join(l.split('--')[0] for l in src.split('\n'))


def lean_sources_for(modules):
    """Transitive closure of project-local imports of the given modules."""
    seen, todo = {}, list(modules)
    while todo:
        m = todo.pop()
        if m in seen:
            continue
        path = os.path.join(LEAN_DIR, m.replace('.', '/') + '.lean')
        if not os.path.exists(path):
            continue
        src = open(path).read()
        seen[m] = src
        for imp in re.findall(r'^import\s+(\S+)', src, flags=re.M):
            todo.append(imp)
    return seen


class Driver:
    """Batch interface to a model driver (native exe; interpreter fallback)."""

    def __init__(self, name, root):
        self.name, self.root = name, root
        self.exe = os.path.join(LEAN_DIR, '.lake', 'build', 'bin', name)

    def ask(self, lines):
        if not lines:
            return []
        data = '\n'.join(lines) + '\n'
        if os.path.exists(self.exe) and not os.environ.get('VERIF_LEAN_INTERP'):
            cmd = [self.exe]
        else:
            cmd = ['lake', 'env', 'lean', '--run', self.root.replace('.', '/') + '.lean']
        p = subprocess.run(cmd, cwd=LEAN_DIR, input=data, stdout=subprocess.PIPE,
                           stderr=subprocess.PIPE, text=True, timeout=3000)
        out = p.stdout.split('\n')
        if out and out[-1] == '':
            out.pop()
        if len(out) != len(lines):
            out = out + ['driver-died'] * (len(lines) - len(out))
        return out[:len(lines)]


# ----------------------------------------------------------------------------
# the check object
# ----------------------------------------------------------------------------
class Timeout(Exception):
    pass


class Check:
    def __init__(self, pid, level='proof', argv=None):
        ap = argparse.ArgumentParser()
        ap.add_argument('--tier', default=os.environ.get('VERIF_TIER', 'quick'))
        ap.add_argument('--seed', type=int, default=int(os.environ.get('VERIF_SEED', '0')))
        ap.add_argument('--replay', default=None)
        ap.add_argument('--budget', type=int, default=None, help='wall-clock budget in seconds')
        a = ap.parse_args(argv)
        self.pid, self.level = pid, level
        self.tier = a.tier if a.tier in ('quick', 'thorough') else 'quick'
        self.seed, self.replay = a.seed, a.replay
        self.replay_case = None
        if self.replay:
            # --replay <file>: re-run the stream that produced the file (same seed and tier) and
            # report the verdict of the recorded case.
            if not os.path.exists(self.replay):
                self.replay = os.path.join(VERIF, self.replay)
            rp = json.load(open(self.replay))
            self.seed = rp.get('seed', self.seed)
            self.tier = rp.get('tier', self.tier)
            self.replay_case = rp.get('case')
        self.t0 = time.time()
        self.thorough = self.tier == 'thorough'
        self.budget = a.budget or (3000 if self.thorough else 1200)
        signal.signal(signal.SIGALRM, self._on_alarm)
        # an uncaught exception in the harness must still end in a verdict: the property is then no longer
        # shown to hold on this tree (the real code raised something the harness did not foresee)
        sys.excepthook = self._on_crash
        signal.alarm(self.budget)
        self.evaluations = 0
        self.agreed = 0
        self.nontrivial = set()
        self.samples = []
        self.dist = {}
        self.failures = []        # oracle failures on the real code: (case_id, input, msg, finding)
        self.disagreements = []   # model != impl
        self.obligations = []     # theorem names
        self.discharged = []
        self.broken = []          # (theorem, reason)
        self.checker_cmds = []
        self.trusted = [
            'Lean 4.33.0 kernel/elaborator; axioms allowed: propext, Classical.choice, Quot.sound',
            'harness/common.py protocol encoder, evidence writer; CPython, numpy, networkx as containers',
            'Lean compiler/runtime for the model driver executable',
        ]
        self.assumptions = []
        self.notes = []
        self.known = [k for k in json.load(open(os.path.join(VERIF, 'known_findings.json')))['findings']
                      if k['property'] == pid]
        self.extra = {}
        self.lean_ok = True
        self._cov = None
        self._xlines = {}
        if os.environ.get('VERIF_ANCHOR_COV', '1') != '0':
            self._start_anchor_coverage()

    # -- how much of the anchored code the correspondence stream executes ------
    def _start_anchor_coverage(self):
        """Line coverage (coverage.py, in-process only) of the functions the property is anchored in
        (harness/anchor_functions.json, resolved once from properties.jsonl at the pinned commit; matched
        by qualified name on the current tree). Reported in the evidence; never affects the verdict."""
        try:
            import coverage
            fns = json.load(open(os.path.join(VERIF, 'harness', 'anchor_functions.json')))['functions'].get(self.pid, {})
            self._cov_fns = fns
            files = [os.path.join(REPO, f) for f in fns]
            if not files:
                return
            self._cov = coverage.Coverage(data_file=None, include=files, config_file=False)
            self._cov.start()
        except Exception as e:  # measuring is optional
            self._cov = None
            self.notes.append('anchor coverage not measured: %r' % (e,))

    def worker_lines(self):
        """Call inside a forked worker (after its task): lines executed so far in the anchored files, to be
        sent back with the task result and given to merge_worker_lines() in the parent."""
        if self._cov is None:
            return {}
        d = self._cov.get_data()
        return {f: sorted(d.lines(f) or []) for f in d.measured_files()}

    def merge_worker_lines(self, m):
        for f, ls in (m or {}).items():
            self._xlines.setdefault(f, set()).update(ls)

    def _anchor_coverage(self):
        import ast
        self._cov.stop()
        out, tot, hit_tot = {}, 0, 0
        for rel, names in self._cov_fns.items():
            path = os.path.join(REPO, rel)
            try:
                _, executable, _, missing, _ = self._cov.analysis2(path)
            except Exception:
                executable, missing = [], []
                # never imported by this harness
                out[rel] = {'note': 'file not executed by this harness'}
                if self._xlines.get(path):
                    # executed only in workers: statements from the parser, all missing but the workers' lines
                    try:
                        from coverage.python import PythonParser
                        pp = PythonParser(filename=path)
                        pp.parse_source()
                        executable = sorted(pp.statements)
                        missing = executable
                        del out[rel]
                    except Exception:
                        pass
            spans = {}

            def walk(node, prefix):
                for ch in ast.iter_child_nodes(node):
                    if isinstance(ch, (ast.FunctionDef, ast.AsyncFunctionDef, ast.ClassDef)):
                        q = prefix + ch.name
                        spans[q] = (ch.lineno, ch.end_lineno)
                        walk(ch, q + '.')
            try:
                walk(ast.parse(open(path).read()), '')
            except Exception:
                continue
            per = {}
            for q in names:
                if q not in spans:
                    per[q] = 'not found on this tree'
                    continue
                lo, hi = spans[q]
                ex = [l for l in executable if lo < l <= hi]   # body, not the def line
                ms = [l for l in ex if l in set(missing) and l not in self._xlines.get(path, ())]
                if not executable:
                    ms = ex = []
                tot += len(ex)
                hit_tot += len(ex) - len(ms)
                per[q] = {'executable': len(ex), 'hit': len(ex) - len(ms), 'missing_lines': ms[:40]}
            if rel in out and 'note' in out[rel]:
                per['_note'] = out[rel]['note']
            out[rel] = per
        return {'tool': 'coverage.py line coverage, in-process (forked workers / CLI subprocesses are not traced)',
                'executable_lines': tot, 'hit_lines': hit_tot,
                'percent': round(100.0 * hit_tot / tot, 1) if tot else None, 'functions': out}

    # -- infrastructure -----------------------------------------------------
    def _on_alarm(self, *a):
        # the time budget is used up.  If the cases judged so far already contain a failing input on the real
        # code (one that is not a listed known finding) the verdict is reached and must not be lost; otherwise
        # there is no verdict: exit 2.
        try:
            known_ids = {k['id'] for k in self.known if k.get('status') == 'known'}
            real = [f for f in self.failures if not (f['finding'] and f['finding'] in known_ids)]
            if real:
                f = real[0]
                p = self._replay_path({'property': self.pid, 'kind': 'failing-input', 'seed': self.seed, 'tier': self.tier,
                                       'case': f['case'], 'input': f['input'], 'impl_output': f['impl'],
                                       'oracle_clause': f['oracle'], 'others': [x['case'] for x in real[1:20]],
                                       'note': 'reported when the time budget of %d s ran out; the run did not finish' % self.budget})
                print('VIOLATION property=%s replay=%s' % (self.pid, p), flush=True)
                print('TIMEOUT after %d s (verdict from the %d cases judged so far)' % (self.budget, self.evaluations), flush=True)
                os._exit(1)
        except Exception:
            pass
        print('TIMEOUT after %d s' % self.budget, flush=True)
        os._exit(2)

    def _on_crash(self, etype, value, tb):
        import traceback
        text = ''.join(traceback.format_exception(etype, value, tb))
        sys.stderr.write(text)
        try:
            p = self._replay_path({'property': self.pid, 'kind': 'harness-crash', 'seed': self.seed, 'tier': self.tier,
                                   'traceback': text[-4000:],
                                   'note': 'the harness stopped on an exception it does not expect from the real code; '
                                           'no verdict on the remaining cases'})
            print('VIOLATION property=%s replay=%s no-failing-input-found' % (self.pid, p), flush=True)
        finally:
            os._exit(1)

    def rng(self, name=''):
        h = hashlib.sha256(('%s|%d|%s' % (self.pid, self.seed, name)).encode()).digest()
        return random.Random(int.from_bytes(h[:8], 'big'))

    def count(self, key, n=1):
        self.dist[key] = self.dist.get(key, 0) + n

    def elapsed(self):
        return time.time() - self.t0

    # -- lean ----------------------------------------------------------------
    def lean(self, modules, driver=None, generated=None):
        """Build the property modules (+driver), audit axioms of the theorems listed in
        lean/theorems/<pid>.txt, grep the sources. `generated` maps file name -> content
        for lean/Generated (rewritten from the repo on every run by the caller)."""
        with LeanLock():
            if generated:
                for name, content in generated.items():
                    write_if_changed(os.path.join(LEAN_DIR, 'Generated', name), content)
            thms = []
            tfile = os.path.join(LEAN_DIR, 'theorems', self.pid + '.txt')
            for l in open(tfile):
                l = l.split('#')[0].strip()
                if l:
                    parts = l.split()
                    thms.append((parts[0], parts[1] if len(parts) > 1 else modules[0]))
            self.obligations = [t for t, _ in thms]
            by_mod = {}
            for t, m in thms:
                by_mod.setdefault(m, []).append(t)
            targets = list(modules) + ([driver] if driver else [])
            cmd = ['lake', 'build'] + targets
            self.checker_cmds.append('cd lean && ' + ' '.join(cmd))
            rc, out = _run(cmd)
            built = {}
            if rc != 0:
                # find out which modules are broken, build them one by one
                for m in list(by_mod) + ([driver] if driver else []):
                    rc1, out1 = _run(['lake', 'build', m])
                    built[m] = (rc1 == 0, out1)
            else:
                for m in list(by_mod) + ([driver] if driver else []):
                    built[m] = (True, '')
            if driver and not built.get(driver, (True, ''))[0]:
                self.lean_ok = False
                self.broken.append(('driver:' + driver, tail(built[driver][1])))
            # axiom audit
            for m, names in by_mod.items():
                if not built[m][0]:
                    for t in names:
                        self.broken.append((t, 'module %s does not build: %s' % (m, tail(built[m][1]))))
                    continue
                src = 'import %s\n' % m + ''.join('#print axioms %s\n' % t for t in names)
                apath = os.path.join(LEAN_DIR, '.audit_%s_%s.lean' % (self.pid, m.replace('.', '_')))
                with open(apath, 'w') as f:
                    f.write(src)
                self.checker_cmds.append('lake env lean <audit: import %s; #print axioms ...>' % m)
                rc2, out2 = _run(['lake', 'env', 'lean', apath])
                os.remove(apath)
                ax = parse_axioms(out2)
                for t in names:
                    if t not in ax:
                        self.broken.append((t, 'not found in compiled environment: ' + tail(out2)))
                    elif not set(ax[t]) <= ALLOWED_AXIOMS:
                        self.broken.append((t, 'depends on axioms %s' % ax[t]))
                    else:
                        self.discharged.append(t)
            # source grep
            srcs = lean_sources_for(list(by_mod) + modules)
            for m, src in srcs.items():
                for i, l in enumerate(strip_lean_comments(src).split('\n')):
                    if FORBIDDEN.search(l):
                        self.broken.append(('source:' + m, 'forbidden construct at line %d: %s' % (i + 1, l.strip())))
            if self.thorough and not self.broken and os.environ.get('VERIF_NO_LEANCHECKER') != '1':
                mods = sorted(m for m in srcs if m.startswith('VermouthProps'))
                cmd = ['lake', 'env', 'leanchecker'] + mods
                self.checker_cmds.append('cd lean && ' + ' '.join(cmd))
                try:
                    rc3, out3 = _run(cmd, timeout=1500)
                    if rc3 != 0:
                        self.broken.append(('leanchecker', tail(out3)))
                except subprocess.TimeoutExpired:
                    self.notes.append('leanchecker timed out; skipped')
        self.drv = Driver(driver, 'Drivers.' + driver.split('_')[1].upper()) if driver else None
        return not self.broken

    # -- cases ---------------------------------------------------------------
    def case(self, cid, inp, impl_out, model_out=None, oracle_errs=(), nontrivial=True, finding=None):
        """Register one evaluated case.
        impl_out/model_out: canonical strings (model_out None = oracle-only case).
        oracle_errs: list of messages from the independent property oracle on the REAL code.
        finding: id of a known finding whose signature this failing case satisfies (or None)."""
        self.evaluations += 1
        key = hashlib.sha1(repr(inp).encode()).hexdigest()
        if nontrivial:
            self.nontrivial.add(key)
        if model_out is not None:
            if impl_out == model_out:
                self.agreed += 1
            else:
                self.disagreements.append({'case': cid, 'input': inp, 'impl': impl_out, 'model': model_out})
        for msg in oracle_errs:
            self.failures.append({'case': cid, 'input': inp, 'impl': impl_out, 'oracle': msg, 'finding': finding})
        if len(self.samples) < 4 and nontrivial:
            self.samples.append({'case': cid, 'input': clip(inp), 'impl': clip(impl_out), 'model': clip(model_out)})

    # -- verdict -------------------------------------------------------------
    def _replay_path(self, obj):
        d = os.path.join(VERIF, 'replays')
        os.makedirs(d, exist_ok=True)
        txt = json.dumps(obj, indent=1, default=str, sort_keys=True)
        p = os.path.join(d, '%s-%s.json' % (self.pid, hashlib.sha1(txt.encode()).hexdigest()[:10]))
        with open(p, 'w') as f:
            f.write(txt)
        return p

    def finish(self):
        signal.alarm(0)
        lines = []
        violations = 0
        known_ids = {k['id'] for k in self.known if k.get('status') == 'known'}
        seen_known = {}
        real = []
        for f in self.failures:
            if f['finding'] and f['finding'] in known_ids:
                seen_known.setdefault(f['finding'], f)
            else:
                real.append(f)
        for fid, f in sorted(seen_known.items()):
            desc = next(k['description'] for k in self.known if k['id'] == fid)
            lines.append('KNOWN-FINDING: property=%s %s: %s (e.g. case %s)' % (self.pid, fid, desc, f['case']))
        if real:
            violations += len(real)
            f = real[0]
            p = self._replay_path({'property': self.pid, 'kind': 'failing-input', 'seed': self.seed, 'tier': self.tier,
                                   'case': f['case'], 'input': f['input'], 'input_decoded': try_dec(f['input']),
                                   'impl_output': f['impl'],
                                   'oracle_clause': f['oracle'], 'others': [x['case'] for x in real[1:20]],
                                   'broken_theorems': self.broken[:5],
                                   'disagreements': self.disagreements[:3]})
            lines.append('VIOLATION property=%s replay=%s' % (self.pid, p))
        else:
            # no failing input on the real code; a broken proof obligation or correspondence
            # still means the property is no longer shown to hold.
            # disagreements that coincide with a known finding case are not counted twice
            dis = [d for d in self.disagreements
                   if not any(f['case'] == d['case'] for f in self.failures)]
            if self.broken or dis:
                violations += 1
                kind = 'broken-theorem' if self.broken else 'broken-correspondence'
                p = self._replay_path({'property': self.pid, 'kind': kind, 'seed': self.seed, 'tier': self.tier,
                                       'broken': self.broken[:10], 'disagreements': dis[:5],
                                       'note': 'no input violating the property was found on the real code by the '
                                               'oracle over %d cases; the named theorem / correspondence no longer '
                                               'checks' % self.evaluations})
                lines.append('VIOLATION property=%s replay=%s no-failing-input-found' % (self.pid, p))
        cov = {
            'obligations': len(self.obligations),
            'discharged': len(set(self.discharged)),
            'checker_cmd': ' ; '.join(self.checker_cmds) or 'none',
            'trusted_base': self.trusted,
            'evaluations': self.evaluations,
            'distinct_nontrivial': len(self.nontrivial),
            'traces_validated_against_impl': self.agreed,
            'rule': self.extra.pop('rule', ''),
            'samples': self.samples or [{'note': 'no non-trivial sample recorded'}],
            'distribution': self.dist,
            'theorems': self.obligations,
            'broken': [list(b) for b in self.broken],
            'disagreements': len(self.disagreements),
            'oracle_failures': len(self.failures),
            'known_findings_seen': sorted(seen_known),
            'notes': self.notes,
            'repo': REPO,
        }
        if self._cov is not None:
            try:
                cov['anchor_line_coverage'] = self._anchor_coverage()
            except Exception as e:
                cov['anchor_line_coverage'] = {'error': repr(e)}
        if self.level == 'other':
            cov['explanation'] = self.extra.pop('explanation', '')
        cov.update(self.extra)
        ev = {'property_id': self.pid, 'tier': self.tier, 'seed': self.seed, 'level': self.level,
              'coverage': cov, 'assumptions': self.assumptions, 'wall_s': round(self.elapsed(), 2),
              'violations': violations}
        # evidence under /verif/evidence only describes runs against /repo itself; runs against another
        # tree (VERIF_REPO = a scratch copy with a seeded change or a mutant) write theirs elsewhere
        evdir = os.path.join(VERIF, 'evidence') if REPO == '/repo' else os.path.join(VERIF, 'replays', 'evidence_other_tree')
        # deepening runs (harness/run_check.py: further seeds when the repository differs from the baseline)
        evdir = os.environ.get('VERIF_EVIDENCE_DIR') or evdir
        os.makedirs(evdir, exist_ok=True)
        with open(os.path.join(evdir, self.pid + '.json'), 'w') as f:
            json.dump(ev, f, indent=1, default=str)
        for l in lines:
            print(l)
        if self.replay:
            hit = [f for f in self.failures if f['case'] == self.replay_case]
            print('REPLAY %s case %s: %s' % (self.replay, self.replay_case,
                                             ('still fails: ' + hit[0]['oracle']) if hit else 'does not fail now'))
        print('%s %s seed=%d: %d/%d obligations discharged, %d cases (%d non-trivial), %d agree with model, '
              '%d disagreements, %d oracle failures, %.1fs'
              % (self.pid, self.tier, self.seed, len(set(self.discharged)), len(self.obligations),
                 self.evaluations, len(self.nontrivial), self.agreed, len(self.disagreements),
                 len(self.failures), self.elapsed()), flush=True)
        sys.exit(1 if violations else 0)


def try_dec(x):
    try:
        return dec(x) if isinstance(x, str) else x
    except Exception:
        return None


def tail(text, n=1200):
    text = text.strip()
    return text[-n:]


def clip(x, n=600):
    if x is None:
        return None
    s = x if isinstance(x, str) else json.dumps(x, default=str)
    return s if len(s) <= n else s[:n] + '...'


def parse_axioms(out):
    """Parse `#print axioms` output: name -> list of axioms."""
    res = {}
    for m in re.finditer(r"'([^']+)' depends on axioms: \[([^\]]*)\]", out, flags=re.S):
        res[m.group(1)] = [a.strip() for a in m.group(2).replace('\n', ' ').split(',') if a.strip()]
    for m in re.finditer(r"'([^']+)' does not depend on any axioms", out):
        res[m.group(1)] = []
    return res


def quiet_vermouth_logs():
    import logging
    lg = logging.getLogger('vermouth')
    lg.handlers[:] = []
    lg.addHandler(logging.NullHandler())
    lg.propagate = False
    return lg
