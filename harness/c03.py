#!/venv/bin/python
"""C03 - coordinates, molecule types and system topology agree atom for atom.
Model: lean/VermouthModel/C03.lean; theorems: lean/VermouthProps/C03.lean.

Every case is a system (list of molecules).  The REAL code names the molecule types
(NameMolType), writes the .top and the .itp files (write_gmx_topology), the .pdb (write_pdb) and
the .gro (write_gro) through the DeferredFileWriter into a scratch directory.  The files are read
back with the small independent readers below; the oracle states the property on what was read;
the same system goes to the Lean model (driver_c03) and the canonical outputs are compared."""
import copy
import io
import shutil
import tempfile
from fractions import Fraction
from common import *

chk = Check('C03')
chk.extra['rule'] = ('systems of 1-12 molecules instantiated from 1-4 random templates (adjacent repeats, '
                     'interleaved, A..B..A), random node keys/order and atomid (absent, permuted, partial, ties, '
                     'sparse), per-instance chain/position changes and single-attribute near-misses, dedup on '
                     'and off; written by the real NameMolType/write_gmx_topology/write_pdb/write_gro and read '
                     'back; non-trivial = >= 2 molecules and >= 1 template used more than once; distinct = '
                     'distinct protocol line')
chk.lean(['VermouthProps.C03'], 'driver_c03')

import numpy as np
import vermouth
import vermouth.gmx.itp
import vermouth.gmx.topology
from vermouth.molecule import Molecule
from vermouth.system import System
from vermouth.forcefield import ForceField
from vermouth.gmx.topology import write_gmx_topology
from vermouth.gmx.gro import write_gro
from vermouth.pdb.pdb import write_pdb
from vermouth.gmx.itp import write_molecule_itp
from vermouth.file_writer import DeferredFileWriter
from vermouth.processors.name_moltype import NameMolType
from vermouth.processors.sort_molecule_atoms import SortMoleculeAtoms

quiet_vermouth_logs()
FFS = [ForceField(name='verif_ff0'), ForceField(name='verif_ff1')]
IGNORED = ('position', 'chain', 'graph', 'mapping_weights')
UNIT = 10 ** 12

# ----------------------------------------------------------------------------
# observation hook: which molecule object is handed to the ITP writer
# ----------------------------------------------------------------------------
ITP_CALLS = []
_real_write_itp = vermouth.gmx.itp.write_molecule_itp


def _spy_write_itp(molecule, outfile, *a, **kw):
    ITP_CALLS.append(molecule)
    return _real_write_itp(molecule, outfile, *a, **kw)


vermouth.gmx.itp.write_molecule_itp = _spy_write_itp
if getattr(vermouth.gmx.topology, 'write_molecule_itp', None) is _real_write_itp:
    vermouth.gmx.topology.write_molecule_itp = _spy_write_itp


# ----------------------------------------------------------------------------
# case description -> real objects
# ----------------------------------------------------------------------------
def pyval(v):
    """spec value -> python value; ('f', n) is the float n * 1e-12"""
    if isinstance(v, tuple):
        return float(Fraction(v[1], UNIT))
    return v


def build_molecule(ms):
    mol = Molecule(nrexcl=ms['nrexcl'], force_field=None if ms['ff'] is None else FFS[ms['ff']])
    for key, attrs in ms['nodes']:
        d = {k: pyval(v) for k, v in attrs.items()}
        d['position'] = np.array(ms['pos'].get(key, (0.0, 0.0, 0.0)), dtype=float)
        mol.add_node(key, **d)
    for a, b in ms['edges']:
        mol.add_edge(a, b)
    for typ, inters in ms['inters'].items():
        mol.interactions[typ] = []
        for atoms, params, meta in inters:
            mol.add_interaction(typ, list(atoms), list(params), meta=dict(meta))
    if ms.get('sort'):
        SortMoleculeAtoms(target_attr=ms['sort'] if ms['sort'] != 'keep' else None).run_molecule(mol)
    return mol


def val_tok(v):
    if v is None or isinstance(v, (int, str)) and not isinstance(v, bool):
        return v
    if isinstance(v, float):
        return [int(round(v * UNIT))]
    raise TypeError(v)


def mol_tok(mol):
    """protocol form of a real molecule, read from the object just before NameMolType"""
    nodes = []
    for key in mol.nodes:
        attrs = mol.nodes[key]
        nodes.append([key, [[k, val_tok(attrs[k])] for k in sorted(attrs) if k != 'position']])
    edges = sorted([min(a, b), max(a, b)] for a, b in mol.edges)
    inters = [[typ, [[list(i.atoms), repr((list(i.parameters), sorted(i.meta.items())))] for i in lst]]
              for typ, lst in sorted(mol.interactions.items())]
    ff = None if mol._force_field is None else FFS.index(mol._force_field)
    return [mol.nrexcl, ff, nodes, edges, inters]


# ----------------------------------------------------------------------------
# independent readers of the written files
# ----------------------------------------------------------------------------
def read_top(text):
    includes, molecules, section = [], [], None
    for l in text.split('\n'):
        s = l.strip()
        if not s or s.startswith(';'):
            continue
        m = re.match(r'#include\s+"(.*)"', s)
        if m:
            includes.append(m.group(1))
        elif s.startswith('['):
            section = s.strip('[] ').strip()
        elif section == 'molecules':
            name, num = s.split()
            molecules.append((name, int(num)))
    return includes, molecules


def itp_body(text):
    """the file without its leading comment header"""
    lines = text.split('\n')
    i = 0
    while i < len(lines) and (lines[i].startswith(';') or not lines[i].strip()):
        i += 1
    return '\n'.join(lines[i:])


def read_itp(text):
    section, name, atoms = None, None, []
    for l in text.split('\n'):
        s = l.split(';')[0].strip()
        if not s or s.startswith('#'):
            continue
        if s.startswith('['):
            section = s.strip('[] ').strip()
        elif section == 'moleculetype' and name is None:
            name = s.split()[0]
        elif section == 'atoms':
            f = s.split()
            atoms.append((f[4], f[3], int(f[2])))      # atomname, resname, resid
    return name, atoms


def read_pdb(text):
    mols, cur = [], []
    for l in text.split('\n'):
        if l.startswith('ATOM') or l.startswith('HETATM'):
            cur.append((l[12:16].strip(), l[17:20].strip(), int(l[22:26])))
        elif l.startswith('TER'):
            mols.append(cur)
            cur = []
    if cur:
        mols.append(cur)
    return mols


def read_gro(text):
    lines = text.split('\n')
    n = int(lines[1])
    return [(l[10:15].strip(), l[5:10].strip(), int(l[0:5])) for l in lines[2:2 + n]]


def name_id(name):
    m = re.fullmatch(r'molecule_(\d+)', name or '')
    return int(m.group(1)) if m else -1


# ----------------------------------------------------------------------------
# running one system through the real code
# ----------------------------------------------------------------------------
SCRATCH = tempfile.mkdtemp(prefix='verif_c03_')
OLDCWD = os.getcwd()


def clean_scratch():
    for f in os.listdir(SCRATCH):
        p = os.path.join(SCRATCH, f)
        shutil.rmtree(p) if os.path.isdir(p) else os.remove(p)


def own_itp_body(mol):
    out = io.StringIO()
    _real_write_itp(mol, out, header=[])
    return itp_body(out.getvalue())


def isclose_only_difference(a, b):
    """Signature of F-C03-2 on two molecule descriptions: they differ in >= 1 numeric node attribute,
    every differing pair is numpy.isclose, and nothing else distinguishes them."""
    if a[0] != b[0] or a[1] != b[1] or a[3] != b[3] or a[4] != b[4]:
        return False
    na, nb = a[2], b[2]
    if [k for k, _ in na] != [k for k, _ in nb]:
        return False
    ndiff = 0
    for (_, aa), (_, ab) in zip(na, nb):
        da = {k: v for k, v in aa if k not in IGNORED}
        db = {k: v for k, v in ab if k not in IGNORED}
        if set(da) != set(db):
            return False
        for k in da:
            x, y = da[k], db[k]
            if x == y:
                continue
            num = lambda v: isinstance(v, list) or (isinstance(v, int) and not isinstance(v, bool))
            if not (num(x) and num(y) and isinstance(x, list) == isinstance(y, list)):
                return False
            fx = x[0] / UNIT if isinstance(x, list) else x
            fy = y[0] / UNIT if isinstance(y, list) else y
            if not (np.isclose(fx, fy) and np.isclose(fy, fx)):
                return False
            ndiff += 1
    return ndiff >= 1


def run_system(spec):
    """-> (protocol line, canonical impl output, oracle errors, nontrivial, finding)"""
    mols = [build_molecule(ms) for ms in spec['mols']]
    system = System()
    system.meta['header'] = ['verif C03']
    for m in mols:
        system.add_molecule(m)
    toks = [mol_tok(m) for m in system.molecules]
    ln = line('sys', 1 if spec['dedup'] else 0, 0, toks)
    del ITP_CALLS[:]
    clean_scratch()
    os.chdir(SCRATCH)
    try:
        NameMolType(deduplicate=spec['dedup']).run_system(system)
        write_gmx_topology(system, 'topol.top', itp_paths=[])
        write_pdb(system, 'out.pdb')
        write_gro(system, 'out.gro')
        DeferredFileWriter().write()
        files = {f: open(f).read() for f in os.listdir('.')}
    except Exception as e:   # any exception on a well-formed system is a failure of the property
        DeferredFileWriter().close()
        os.chdir(OLDCWD)
        return ln, 'exception %s' % type(e).__name__, ['%s: %s' % (type(e).__name__, e)], False, None
    os.chdir(OLDCWD)
    sysmols = list(system.molecules)
    names = [m.meta.get('moltype') for m in sysmols]
    includes_all, molecules = read_top(files.get('topol.top', ''))
    includes = [i for i in includes_all if i != 'martini.itp']
    itps = {f[:-4]: read_itp(t) for f, t in files.items() if f.endswith('.itp')}
    pdb = read_pdb(files['out.pdb'])
    gro = read_gro(files['out.gro'])
    src = []
    for m in ITP_CALLS:
        idx = [i for i, x in enumerate(sysmols) if x is m]
        src.append([name_id(m.meta.get('moltype')), idx[0] if idx else -1])

    # ---- canonical output for the comparison with the model
    sizes = [len(m) for m in sysmols]
    gro_split, pos = [], 0
    for s in sizes:
        gro_split.append(gro[pos:pos + s])
        pos += s
    if pos != len(gro):
        gro_split.append(gro[pos:])
    recs = lambda l: [[a, r, i] for a, r, i in l]
    itp_canon = []
    for inc in includes:
        nm = inc[:-4] if inc.endswith('.itp') else inc
        itp_canon.append(recs(itps[nm][1]) if nm in itps else [])
    impl = ('names %s groups %s includes %s src %s pdb %s gro %s itp %s'
            % (enc([name_id(n) for n in names]), enc([[name_id(n), c] for n, c in molecules]),
               enc([name_id(i[:-4]) for i in includes]), enc(src),
               enc([recs(m) for m in pdb]), enc([recs(m) for m in gro_split]), enc(itp_canon)))

    # ---- the oracle: the property statement on the files
    errs = []          # (message, molecule index or None)
    # each molecule-type file is included exactly once, and exists
    for inc in set(includes):
        if includes.count(inc) != 1:
            errs.append(('%s included %d times' % (inc, includes.count(inc)), None))
        if not inc.endswith('.itp') or inc[:-4] not in itps:
            errs.append(('included file %s was not written' % inc, None))
        elif itps[inc[:-4]][0] != inc[:-4]:
            errs.append(('%s declares molecule type %s' % (inc, itps[inc[:-4]][0]), None))
    for n, _ in molecules:
        if n + '.itp' not in includes:
            errs.append(('molecule type %s listed in [ molecules ] but not included' % n, None))
    # [ molecules ] lists the types in coordinate-file (= system) order with correct counts
    expanded = [n for n, c in molecules for _ in range(c)]
    if any(c < 1 for _, c in molecules):
        errs.append(('[ molecules ] has a non-positive count', None))
    if expanded != names:
        errs.append(('[ molecules ] expands to %s but the molecules are %s' % (expanded, names), None))
    # k-th coordinate record = k-th ITP atom, reading the coordinate files the way grompp does
    for label, flat, mod in (('pdb', [r for m in pdb for r in m], 10 ** 4), ('gro', gro, 10 ** 5)):
        pos = 0
        for mi, n in enumerate(expanded):
            atoms = itps.get(n, (None, []))[1]
            chunk = flat[pos:pos + len(atoms)]
            pos += len(atoms)
            bad = [k for k, (c, a) in enumerate(zip(chunk, atoms))
                   if (c[0], c[1], c[2]) != (a[0], a[1], a[2] % mod)]
            if len(chunk) != len(atoms):
                errs.append(('%s: molecule %d (%s) has %d records left for %d ITP atoms'
                             % (label, mi, n, len(chunk), len(atoms)), mi))
            elif bad:
                k = bad[0]
                errs.append(('%s: record %d of molecule %d is %s but atom %d of %s.itp is %s'
                             % (label, k, mi, chunk[k], k, n, atoms[k]), mi))
        if pos != len(flat):
            errs.append(('%s: %d records but the topology describes %d atoms' % (label, len(flat), pos), None))
    if len(pdb) != len(sysmols):
        errs.append(('pdb has %d TER-separated molecules for %d molecules' % (len(pdb), len(sysmols)), None))
    # same name only if the written topologies are identical: the file of the name is every
    # molecule's own ITP
    bodies = {n: itp_body(files[n + '.itp']) for n in itps}
    for mi, m in enumerate(sysmols):
        n = names[mi]
        if n in bodies and own_itp_body(m) != bodies[n]:
            errs.append(('molecule %d is named %s but its own ITP differs from %s.itp' % (mi, n, n), mi))
    # ---- known finding F-C03-2: every failure is a molecule whose ITP source differs from it only
    # by isclose numeric attributes
    finding = None
    if errs and all(mi is not None for _, mi in errs):
        first_of = {}
        for i, n in enumerate(names):
            first_of.setdefault(n, i)
        srcidx = {name: idx for (name, idx) in ((sysmols[j].meta.get('moltype'), j) for _, j in src if j >= 0)}
        ok = True
        for _, mi in errs:
            s = srcidx.get(names[mi], first_of[names[mi]])
            # the finding is about the documented choice "the first molecule of a name provides the ITP";
            # an ITP taken from any other molecule is a different failure and is not downgraded
            if s == mi or s != first_of[names[mi]] or not isclose_only_difference(toks[mi], toks[s]):
                ok = False
        if ok:
            finding = 'F-C03-2'
    tcount = {}
    for ms in spec['mols']:
        tcount[ms['tmpl']] = tcount.get(ms['tmpl'], 0) + 1
    nontrivial = len(sysmols) >= 2 and max(tcount.values()) >= 2
    return ln, impl, [e for e, _ in errs], nontrivial, finding


# ----------------------------------------------------------------------------
# generator
# ----------------------------------------------------------------------------
RESNAMES = ['ALA', 'GLY', 'W', 'ION', 'LYS', 'PO4']
ATOMNAMES = ['BB', 'SC1', 'SC2', 'SC3', 'CA', 'N', 'O', 'W', 'NA', 'PO4', 'GL1', 'C1A']
ATYPES = ['P1', 'P5', 'Qd', 'C1', 'SP2']
CHARGES = [('f', 0), ('f', UNIT), ('f', -UNIT), ('f', UNIT // 2), ('f', 123 * 10 ** 9), 0, 1]


def gen_template(rng, tid):
    n = rng.choice([1, 1, 2, 3, 3, 4, 5, 6])
    keys = rng.sample(range(0, 3 * n + 2), n)
    names = rng.sample(ATOMNAMES, n) if rng.random() < 0.8 else [rng.choice(ATOMNAMES[:3]) for _ in range(n)]
    mode = rng.choice(['absent', 'absent', 'perm', 'perm', 'partial', 'ties', 'sparse'])
    if mode == 'perm':
        ids = rng.sample(range(1, n + 1), n)
    elif mode == 'partial':
        ids = [rng.randint(1, 9) if rng.random() < 0.5 else None for _ in range(n)]
    elif mode == 'ties':
        ids = [rng.randint(1, 2) for _ in range(n)]
    elif mode == 'sparse':
        ids = rng.sample(range(-5, 400), n)
    else:
        ids = [None] * n
    resid, nodes = rng.randint(1, 30), []
    has_charge, has_mass = rng.random() < 0.7, rng.random() < 0.3
    for i, key in enumerate(keys):
        if rng.random() < 0.4:
            resid += rng.choice([1, 1, 2, -1])
        at = {'atomname': names[i], 'resname': rng.choice(RESNAMES), 'resid': max(1, resid),
              'atype': rng.choice(ATYPES), 'charge_group': rng.randint(1, n), 'chain': 'A'}
        if ids[i] is not None:
            at['atomid'] = ids[i]
        if has_charge:
            at['charge'] = rng.choice(CHARGES)
        if has_mass:
            at['mass'] = rng.choice([72, ('f', 72 * UNIT), ('f', 36 * UNIT)])
        nodes.append((key, at))
    edges = []
    for i in range(1, n):
        if rng.random() < 0.8:
            edges.append((keys[rng.randrange(i)], keys[i]))
    inters = {}
    if edges and rng.random() < 0.8:
        inters['bonds'] = [((a, b), ('1', rng.choice(['0.47', '0.35']), '1250'),
                            rng.choice([(), (('group', 'bb'),), (('comment', 'c'),)])) for a, b in edges]
    if n >= 3 and rng.random() < 0.4:
        inters['angles'] = [(tuple(keys[:3]), ('2', '120', '25'), ())]
    if rng.random() < 0.15:
        inters['dihedrals'] = []
    sort = None
    if mode in ('absent', 'perm') and rng.random() < 0.2:
        sort = 'keep' if mode == 'perm' or rng.random() < 0.5 else 'atomid'
    return {'tmpl': tid, 'nrexcl': rng.choice([1, 1, 1, 3]), 'ff': None,
            'nodes': nodes, 'edges': edges, 'inters': inters, 'pos': {}, 'sort': sort, 'atomid_mode': mode}


NEAR = ['resname', 'atomname', 'resid', 'charge', 'atomid', 'order', 'key', 'edge', 'param', 'nrexcl',
        'emptycat', 'extra_attr', 'class', 'atype', 'chain_only']


def near_miss(rng, ms):
    """change exactly one thing; returns the kind"""
    kind = rng.choice(NEAR)
    nodes = ms['nodes']
    i = rng.randrange(len(nodes))
    key, at = nodes[i]
    if kind == 'resname':
        at['resname'] = rng.choice([r for r in RESNAMES if r != at['resname']])
    elif kind == 'atomname':
        at['atomname'] = rng.choice([a for a in ATOMNAMES if a != at['atomname']])
    elif kind == 'atype':
        at['atype'] = rng.choice([a for a in ATYPES if a != at['atype']])
    elif kind == 'resid':
        at['resid'] = at['resid'] + 1
    elif kind == 'charge':
        c = at.get('charge', ('f', 0))
        at['charge'] = ('f', (c[1] if isinstance(c, tuple) else c * UNIT) + rng.choice([1, -1, 5]) * 10 ** 9)
    elif kind == 'atomid':
        if 'atomid' in at and rng.random() < 0.5:
            del at['atomid']
        else:
            at['atomid'] = at.get('atomid', 0) + rng.choice([1, 7])
    elif kind == 'order':
        if len(nodes) < 2:
            return near_miss(rng, ms)
        j = rng.choice([x for x in range(len(nodes)) if x != i])
        nodes[i], nodes[j] = nodes[j], nodes[i]
    elif kind == 'key':
        new = max(k for k, _ in nodes) + rng.randint(1, 3)
        nodes[i] = (new, at)
        ms['edges'] = [(new if a == key else a, new if b == key else b) for a, b in ms['edges']]
        ms['inters'] = {t: [(tuple(new if a == key else a for a in atoms), p, m) for atoms, p, m in l]
                        for t, l in ms['inters'].items()}
    elif kind == 'edge':
        if not ms['edges']:
            return near_miss(rng, ms)
        ms['edges'] = ms['edges'][:-1]
    elif kind == 'param':
        if not ms['inters'].get('bonds'):
            return near_miss(rng, ms)
        a, p, m = ms['inters']['bonds'][0]
        ms['inters']['bonds'][0] = (a, (p[0], p[1], '999'), m)
    elif kind == 'nrexcl':
        ms['nrexcl'] += 1
    elif kind == 'emptycat':
        if 'impropers' in ms['inters']:
            return near_miss(rng, ms)
        ms['inters']['impropers'] = []          # an empty category must not separate molecule types
    elif kind == 'extra_attr':
        at['insertion_code'] = 'B'
    elif kind == 'class':
        if 'charge' not in at:
            return near_miss(rng, ms)
        c = at['charge']
        at['charge'] = (c[1] // UNIT) if isinstance(c, tuple) and c[1] % UNIT == 0 else (
            ('f', c * UNIT) if not isinstance(c, tuple) else ('f', c[1] + 10 ** 9))
    elif kind == 'chain_only':
        at['chain'] = 'Z'                        # ignored attribute: still the same molecule type
    return kind


def instantiate(rng, tmpl, allow_near=True):
    ms = copy.deepcopy(tmpl)
    chain = rng.choice('ABCD')
    for _, at in ms['nodes']:
        at['chain'] = chain
    ms['pos'] = {k: (rng.randint(-99, 99) / 10, rng.randint(-99, 99) / 10, rng.randint(-99, 99) / 10)
                 for k, _ in ms['nodes']}
    if allow_near and rng.random() < 0.12:
        kind = near_miss(rng, ms)
        chk.count('near_miss=' + kind)
        if kind in ('atomid', 'extra_attr'):
            ms['sort'] = None          # SortMoleculeAtoms cannot compare None with a value
    return ms


def gen_system(rng):
    nt = rng.choice([1, 2, 2, 3, 4])
    tmpls = [gen_template(rng, t) for t in range(nt)]
    if nt >= 2 and rng.random() < 0.15:      # a template that is a twin of another one
        tmpls[-1] = dict(copy.deepcopy(tmpls[0]), tmpl=nt - 1)
    L = rng.randint(1, 12)
    pattern = rng.choice(['blocks', 'interleaved', 'aba', 'random'])
    if pattern == 'blocks':
        seq = []
        for t in range(nt):
            seq += [t] * rng.randint(1, max(1, L // nt))
    elif pattern == 'interleaved':
        seq = [i % nt for i in range(L)]
    elif pattern == 'aba':
        a, b = rng.randrange(nt), rng.randrange(nt)
        seq = [a] * rng.randint(1, 3) + [b] * rng.randint(1, 3) + [a] * rng.randint(1, 3)
        seq += [rng.randrange(nt) for _ in range(max(0, L - len(seq)))]
    else:
        seq = [rng.randrange(nt) for _ in range(L)]
    seq = seq[:12]
    mols = [instantiate(rng, tmpls[t]) for t in seq]
    ff = rng.choice([None, None, 0, 1])       # System.add_molecule enforces one force field per system
    for ms in mols:
        ms['ff'] = ff
    return {'dedup': rng.random() < 0.7, 'pattern': pattern, 'mols': mols}


def simple_mol(tid, atoms, nrexcl=1, **over):
    """atoms: [(key, atomname, atomid or None)]"""
    nodes = []
    for i, (key, name, aid) in enumerate(atoms):
        at = {'atomname': name, 'resname': 'XXX', 'resid': 1, 'atype': 'P1', 'charge_group': i + 1, 'chain': 'A'}
        if aid is not None:
            at['atomid'] = aid
        at.update(over)
        nodes.append((key, at))
    return {'tmpl': tid, 'nrexcl': nrexcl, 'ff': None, 'nodes': nodes, 'edges': [], 'inters': {}, 'pos': {},
            'sort': None, 'atomid_mode': 'corpus'}


# ----------------------------------------------------------------------------
# corpus: past failures first (F-C03-1 and F-C03-3 are fixed and must pass)
# ----------------------------------------------------------------------------
cases = []      # (case id, spec, stream)
corpus = []
A = simple_mol(0, [(0, 'A', None), (1, 'B', None)])
B = simple_mol(1, [(0, 'X', None)])
corpus.append(('F-C03-1-interleaved-ABA', {'dedup': True, 'mols': [A, B, copy.deepcopy(A)]}))
corpus.append(('F-C03-1-ABAB-nodedup', {'dedup': False, 'mols': [A, B, copy.deepcopy(A), copy.deepcopy(B)]}))
G = simple_mol(0, [(0, 'A', 3), (1, 'B', 1), (2, 'C', 2)])
corpus.append(('F-C03-3-atomid-312', {'dedup': True, 'mols': [G]}))
corpus.append(('F-C03-3-atomid-312-twice', {'dedup': True, 'mols': [G, B, copy.deepcopy(G)]}))
P = simple_mol(0, [(5, 'A', None), (2, 'B', 1), (9, 'C', None), (4, 'D', 1)])
corpus.append(('partial-atomid-ties', {'dedup': True, 'mols': [P, copy.deepcopy(P)]}))
Q = copy.deepcopy(P)
Q['nodes'][0], Q['nodes'][2] = Q['nodes'][2], Q['nodes'][0]
corpus.append(('same-atoms-other-node-order', {'dedup': True, 'mols': [P, Q, copy.deepcopy(P)]}))
for cid, spec in corpus:
    cases.append((cid, spec, 'corpus'))
cdir = os.path.join(VERIF, 'corpus')
for f in sorted(os.listdir(cdir)):
    if f.startswith('c03_') and f.endswith('.json'):
        obj = json.load(open(os.path.join(cdir, f)))

        def untuple(ms):
            ms = dict(ms)
            ms['nodes'] = [(k, {a: (tuple(v) if isinstance(v, list) else v) for a, v in at.items()})
                           for k, at in ms['nodes']]
            ms['edges'] = [tuple(e) for e in ms['edges']]
            ms['inters'] = {t: [(tuple(a), tuple(p), tuple(tuple(x) for x in m)) for a, p, m in l]
                            for t, l in ms['inters'].items()}
            ms['pos'] = {}
            return ms
        cases.append((f[:-5], {'dedup': obj['dedup'], 'mols': [untuple(m) for m in obj['mols']]}, 'corpus'))

rng = chk.rng('systems')
N = 12000 if chk.thorough else 1500
for i in range(N):
    cases.append(('sys-%d' % i, gen_system(rng), 'main'))

# ---- separate small stream for the known finding F-C03-2 (numeric attributes within the
# isclose tolerance): never mixed into the main stream
rng = chk.rng('isclose')
for i in range(60 if chk.thorough else 12):
    t = gen_template(rng, 0)
    t['sort'] = None
    a = instantiate(rng, t, allow_near=False)
    b = instantiate(rng, t, allow_near=False)
    _, at = b['nodes'][rng.randrange(len(b['nodes']))]
    kind = rng.choice(['charge', 'mass', 'charge_group', 'atomid'])
    if kind == 'charge':
        c = at.get('charge', ('f', UNIT))
        base = c[1] if isinstance(c, tuple) else UNIT
        for _, x in a['nodes'] + b['nodes']:
            x['charge'] = ('f', base)
        at['charge'] = ('f', base + rng.choice([1000, -1000, 3000]))      # 1e-9 .. 3e-9 away
    elif kind == 'mass':
        for _, x in a['nodes'] + b['nodes']:
            x['mass'] = ('f', 72 * UNIT)
        at['mass'] = ('f', 72 * UNIT + 10 ** 6)                            # 1e-6 of 72
    elif kind == 'charge_group':
        for _, x in a['nodes'] + b['nodes']:
            x['charge_group'] = 200000
        at['charge_group'] = 200001
    else:
        # control: atom ids within the tolerance (same order): the molecules share a name although an
        # attribute differs, but the ITP does not show atom ids, so the written topologies are identical
        kind = 'atomid_control'
        for j, (_, x) in enumerate(a['nodes']):
            x['atomid'] = 200000 + 10 * j
        for j, (_, x) in enumerate(b['nodes']):
            x['atomid'] = 200000 + 10 * j
        at['atomid'] += 1
    mols = [a, b] if rng.random() < 0.5 else [a, instantiate(rng, gen_template(rng, 1)), b]
    chk.count('isclose_stream=' + kind)
    cases.append(('isclose-%d' % i, {'dedup': True, 'mols': mols}, 'isclose'))

# ----------------------------------------------------------------------------
# run
# ----------------------------------------------------------------------------
results = []
try:
    for cid, spec, stream in cases:
        results.append(run_system(spec))
finally:
    os.chdir(OLDCWD)
    shutil.rmtree(SCRATCH, ignore_errors=True)
lines = [r[0] for r in results]
models = chk.drv.ask(lines) if chk.lean_ok else [None] * len(lines)
for (cid, spec, stream), (ln, impl, errs, nontrivial, finding), mo in zip(cases, results, models):
    n = len(spec['mols'])
    chk.count('stream=' + stream)
    chk.count('n_molecules=%s' % (n if n < 6 else '6-12'))
    chk.count('dedup=%d' % spec['dedup'])
    if stream == 'main':
        chk.count('pattern=' + spec['pattern'])
        for ms in spec['mols'][:1]:
            chk.count('atomid_mode(first)=' + ms['atomid_mode'])
    m = re.match(r'names (\[.*?\]) groups (\[.*?\]) includes', impl)
    if m:
        ids = dec(m.group(1))[0]
        chk.count('n_names=%s' % (len(set(ids)) if len(set(ids)) < 5 else '5+'))
        grp = dec(m.group(2))[0]
        chk.count('name_reappears_after_gap=%d' % (len(grp) > len(set(g[0] for g in grp))))
        chk.count('some_group_count>1=%d' % any(g[1] > 1 for g in grp))
    if finding:
        chk.count('known_finding_cases')
    if stream == 'isclose' and errs and not finding:
        chk.count('isclose_stream_failure_not_matching_signature')
    chk.case(cid, ln, impl, mo, errs, nontrivial, finding)
chk.finish()
