"""C15 - the command-line layer of bin/martinize2 in front of ApplyRubberBand.

extract(REPO) pulls out of the source, on every run,
  * the add_argument calls of -elastic -ef -el -eu -ermd -ea -ep -em -eb -eunit (and of -go, -ff),
  * the statements `if args.elastic and args.go:`, `if args.to_ff.startswith("elnedyn"):`, `if args.elastic:`,
and returns (a) a factory for a real argparse parser holding exactly these options, (b) the three statements
compiled into one function of (args, parser, system) in which vermouth.ApplyRubberBand / MergeAllMolecules are
the real classes with run_system replaced by a recorder, (c) the text of lean/Generated/C15Cli.lean.
"""
import argparse
import ast
import functools
import io
import logging
import os
import re
import sys
from fractions import Fraction
from pathlib import Path

RB_FLAGS = ['-elastic', '-ef', '-el', '-eu', '-ermd', '-ea', '-ep', '-em', '-eb', '-eunit']
FLOAT_FLAGS = ['-ef', '-el', '-eu', '-ea', '-ep', '-em']
EXTRA_FLAGS = ['-go', '-ff']
NAMING_FLAGS = ['-sep', '-name']
GUARDS = ["args.elastic and args.go", "args.to_ff.startswith('elnedyn')", "args.elastic"]


class ExtractError(Exception):
    pass


def lean_str(s):
    return '"' + s.replace('\\', '\\\\').replace('"', '\\"').replace('\n', '\\n') + '"'


def extract(repo):
    path = os.path.join(repo, 'bin', 'martinize2')
    tree = ast.parse(open(path).read())
    calls = {}
    for node in ast.walk(tree):
        if isinstance(node, ast.Call) and isinstance(node.func, ast.Attribute) and node.func.attr == 'add_argument' \
                and node.args and isinstance(node.args[0], ast.Constant) and node.args[0].value in RB_FLAGS + EXTRA_FLAGS + NAMING_FLAGS:
            flag = node.args[0].value
            if flag in calls:
                raise ExtractError('option %s is added twice' % flag)
            calls[flag] = node
    missing = [f for f in RB_FLAGS + EXTRA_FLAGS + NAMING_FLAGS if f not in calls]
    if missing:
        raise ExtractError('add_argument calls not found for %r' % missing)
    opts = []
    naming_opts = []
    dflt_rat = []
    for flag in RB_FLAGS + NAMING_FLAGS:
        node = calls[flag]
        if len(node.args) != 1:
            raise ExtractError('option %s has aliases: %s' % (flag, ast.unparse(node)))
        kw = {k.arg: k.value for k in node.keywords}
        unknown = set(kw) - {'dest', 'type', 'default', 'help', 'action'}
        if unknown:
            raise ExtractError('option %s has keywords %r the model does not know' % (flag, sorted(unknown)))
        dest = ast.literal_eval(kw['dest']) if 'dest' in kw else flag.lstrip('-')
        (opts if flag in RB_FLAGS else naming_opts).append(
            (flag, dest, ast.unparse(kw['type']) if 'type' in kw else '',
             ast.literal_eval(kw['action']) if 'action' in kw else '',
             ast.unparse(kw['default']) if 'default' in kw else ''))
        if flag in FLOAT_FLAGS:
            d = ast.literal_eval(kw['default'])
            f = Fraction(float(d))
            dflt_rat.append((flag, f.numerator, f.denominator))
    # the three statements, in source order, out of ONE function
    found = {}
    for fn in ast.walk(tree):
        if not isinstance(fn, ast.FunctionDef):
            continue
        for node in ast.walk(fn):
            if isinstance(node, ast.If) and ast.unparse(node.test) in GUARDS:
                found.setdefault(ast.unparse(node.test), []).append((fn.name, node))
    stmts = []
    for g in GUARDS:
        if len(found.get(g, [])) != 1:
            raise ExtractError('statement `if %s:` found %d times in bin/martinize2' % (g, len(found.get(g, []))))
        stmts.append(found[g][0])
    if len({fn for fn, _ in stmts}) != 1 or not (stmts[0][1].lineno < stmts[1][1].lineno < stmts[2][1].lineno):
        raise ExtractError('the three statements are not in one function in the expected order')
    elastic_if = stmts[2][1]
    # the if/elif chain on args.rb_unit and the constructor call
    chain, node = [], elastic_if.body
    unit_if = next((s for s in elastic_if.body if isinstance(s, ast.If) and 'args.rb_unit' in ast.unparse(s.test)), None)
    if unit_if is None:
        raise ExtractError('no `if args.rb_unit == ...` chain in the `if args.elastic:` block')
    cur = unit_if
    while True:
        chain.append(ast.unparse(cur.test))
        if len(cur.orelse) == 1 and isinstance(cur.orelse[0], ast.If):
            cur = cur.orelse[0]
        else:
            break
    ctor = [n for n in ast.walk(elastic_if) if isinstance(n, ast.Call) and ast.unparse(n.func).endswith('ApplyRubberBand')]
    if len(ctor) != 1 or ctor[0].args:
        raise ExtractError('expected one keyword-only call of ApplyRubberBand in the `if args.elastic:` block')
    call_kw = [(k.arg, ast.unparse(k.value)) for k in ctor[0].keywords]
    # what follows the construction of the processor inside the block
    idx = [i for i, st in enumerate(elastic_if.body) if isinstance(st, ast.Assign) and len(st.targets) == 1
           and isinstance(st.targets[0], ast.Name) and st.targets[0].id == 'rubber_band_processor']
    if len(idx) != 1:
        raise ExtractError('`rubber_band_processor = ...` is not a statement of the `if args.elastic:` block')
    tail = [ast.unparse(st) for st in elastic_if.body[idx[0] + 1:]]
    # defaults of the processor
    ptree = ast.parse(open(os.path.join(repo, 'vermouth', 'processors', 'apply_rubber_band.py')).read())
    pdef, consts = None, []
    for node in ptree.body:
        if isinstance(node, ast.ClassDef) and node.name == 'ApplyRubberBand':
            for sub in node.body:
                if isinstance(sub, ast.FunctionDef) and sub.name == '__init__':
                    a = sub.args
                    names = [x.arg for x in a.args]
                    pdef = [(n, ast.unparse(d)) for n, d in zip(names[len(names) - len(a.defaults):], a.defaults)]
        if isinstance(node, ast.Assign) and len(node.targets) == 1 and isinstance(node.targets[0], ast.Name) \
                and node.targets[0].id in ('DEFAULT_BOND_TYPE', 'DEFAULT_RMD'):
            consts.append((node.targets[0].id, ast.literal_eval(node.value)))
    if pdef is None:
        raise ExtractError('ApplyRubberBand.__init__ not found')

    lean = ['/-! GENERATED by harness/c15_cli.py from bin/martinize2 and vermouth/processors/apply_rubber_band.py on every',
            'run of the C15 check.  Do not edit.  Options of the elastic-network group, exact value of their numeric',
            'defaults, keywords of the constructor call, guards, tests of the -eunit chain, defaults of the processor. -/',
            'namespace C15.CliTable', '',
            'structure Opt where', '  flag : String', '  dest : String', '  type : String', '  action : String',
            '  dflt : String', '  deriving DecidableEq, Repr', '',
            'def options : List Opt := [',
            ',\n'.join('  ⟨%s⟩' % ', '.join(lean_str(x) for x in o) for o in opts) + ']', '',
            'def namingOptions : List Opt := [',
            ',\n'.join('  ⟨%s⟩' % ', '.join(lean_str(x) for x in o) for o in naming_opts) + ']', '',
            'def tailStatements : List String := [' + ', '.join(lean_str(t) for t in tail) + ']', '',
            'def dfltRat : List (String × Int × Nat) := [' + ', '.join('(%s, %d, %d)' % (lean_str(f), n, d) for f, n, d in dflt_rat) + ']', '',
            'def callKeywords : List (String × String) := [' + ', '.join('(%s, %s)' % (lean_str(k), lean_str(v)) for k, v in call_kw) + ']', '',
            'def guards : List String := [' + ', '.join(lean_str(ast.unparse(s.test)) for _, s in stmts) + ']', '',
            'def unitTests : List String := [' + ', '.join(lean_str(t) for t in chain) + ']', '',
            'def processorDefaults : List (String × String) := [' + ', '.join('(%s, %s)' % (lean_str(k), lean_str(v)) for k, v in pdef) + ']', '',
            'def constants : List (String × Int) := [' + ', '.join('(%s, %d)' % (lean_str(k), v) for k, v in consts) + ']', '',
            'end C15.CliTable', '']

    # (a) a real parser with exactly these options
    def make_parser():
        parser = argparse.ArgumentParser(prog='martinize2-elastic-options')
        for flag in RB_FLAGS + EXTRA_FLAGS + NAMING_FLAGS:
            call = calls[flag]
            expr = ast.Expression(ast.Call(func=ast.Attribute(value=ast.Name('parser', ast.Load()), attr='add_argument',
                                                              ctx=ast.Load()), args=call.args, keywords=call.keywords))
            eval(compile(ast.fix_missing_locations(expr), path, 'eval'), {'parser': parser, 'Path': Path})
        return parser

    # (b) the three statements as one function
    fn = ast.FunctionDef(name='elastic_statements',
                         args=ast.arguments(posonlyargs=[], args=[ast.arg('args'), ast.arg('parser'), ast.arg('system')],
                                            kwonlyargs=[], kw_defaults=[], defaults=[]),
                         body=[s for _, s in stmts] + [ast.Return(ast.parse("locals().get('rubber_band_processor')", mode='eval').body)],
                         decorator_list=[], type_params=[])
    mod = ast.fix_missing_locations(ast.Module(body=[fn], type_ignores=[]))
    code = compile(mod, path, 'exec')

    def make_statement(vermouth_shim, selectors, logger):
        ns = {'vermouth': vermouth_shim, 'selectors': selectors, 'functools': functools, 'LOGGER': logger}
        exec(code, ns)
        return ns['elastic_statements']

    return {'make_parser': make_parser, 'make_statement': make_statement, 'lean': '\n'.join(lean),
            'dest': {o[0]: o[1] for o in opts}}


# ----------------------------------------------------------------------------
# independent reading of the documented option grammar (regular expressions + Python's own int)
# ----------------------------------------------------------------------------
WS = ' \t\n\r\x0b\x0c'
INT_RE = re.compile(r'^[%s]*[+-]?[0-9]+(_[0-9]+)*[%s]*$' % (WS, WS))


def is_int_literal(s):
    return bool(INT_RE.match(s))


def documented_regions(s):
    """None if `s` is not a list of <int>:<int> separated by commas; else the list of pairs"""
    out = []
    for piece in s.split(','):
        fields = piece.split(':')
        if len(fields) != 2 or not all(is_int_literal(f) for f in fields):
            return None
        out.append((int(fields[0]), int(fields[1])))
    return out


def ascii_only(s):
    return all(ord(c) < 128 for c in s)


# ----------------------------------------------------------------------------
# generators
# ----------------------------------------------------------------------------
KEYWORDS = ('molecule', 'all', 'chain')
DOC_DEFAULTS = {'-ef': 700.0, '-el': 0.0, '-eu': 0.9, '-ea': 0.0, '-ep': 1.0, '-em': 0.0}
FLOAT_STRINGS = ['700', '500.5', '0', '0.0', '1e3', '0.9', '1.25', '.5', '5.', '2', '0.8984375', '1', '6', '0.25',
                 '-1', '1E-3', '3.75', '12', ' 7', '0_1', '+2.5']
INT_DECOR = ['%d', '%d', '%d', ' %d', '%d ', '+%d', '0%d', '00%d', '\t%d', '%d\n', ' %d ', '\x0b%d\x0c']


def gen_regions(rng):
    rs = []
    a = rng.choice([1, 1, 2, 5, -3, -12, 0, 40])
    for _ in range(rng.choice([1, 1, 2, 2, 3, 4])):
        b = a + rng.choice([0, 1, 2, 3, 5, 9])
        rs.append((a, b) if rng.random() < 0.7 else (b, a))
        a = rng.choice([b - 2, b - 1, b, b + 1, b + 3, -b])     # overlapping, nested, touching, adjacent, disjoint, negative
    if rng.random() < 0.3:
        rng.shuffle(rs)
    return rs


def decorate_int(rng, n):
    s = rng.choice(INT_DECOR) % abs(n)
    if n < 0:
        i = len(s) - len(s.lstrip(' \t\x0b'))
        s = s[:i] + '-' + s[i:].lstrip('+')
    if rng.random() < 0.15 and abs(n) >= 10:
        d = str(abs(n))
        s = s.replace(d, d[0] + '_' + d[1:], 1)
    return s


def gen_unit(rng):
    """(value of -eunit, kind)"""
    r = rng.random()
    if r < 0.14:
        return rng.choice(KEYWORDS + ('chain',)), 'keyword'
    if r < 0.22:
        return rng.choice(['Molecule', 'chain ', ' chain', 'al', 'all,', 'chains', 'ALL', 'molecule,chain', 'none', '',
                           'mol', 'chain:chain']), 'near-keyword'
    rs = gen_regions(rng)
    canon = ','.join('%d:%d' % r for r in rs)
    if r < 0.50:
        return canon, 'canonical'
    if r < 0.68:
        sep = rng.choice([',', ',', ', ', ' ,'])
        return sep.join('%s:%s' % (decorate_int(rng, a), decorate_int(rng, b)) for a, b in rs), 'decorated'
    # malformed: one or two edits of a canonical string
    s = canon
    for _ in range(rng.choice([1, 1, 2])):
        k = rng.random()
        i = rng.randrange(len(s) + 1)
        if k < 0.3 and s:
            i = rng.randrange(len(s))
            s = s[:i] + s[i + 1:]
        elif k < 0.7:
            s = s[:i] + rng.choice([':', ',', '-', '+', '_', ' ', '.', 'x', 'a', ';', '1', '0', '__', '::', ',,']) + s[i:]
        elif k < 0.85:
            s = s.replace(':', rng.choice([',', '-', ';', '::', ' ']), 1)
        else:
            s = s + rng.choice([',', ':', ':3', ',4', ',4:', ' '])
    return s, 'edited'


def gen_cli_options(rng):
    o = {'elastic': rng.random() < 0.8, 'go': rng.random() < 0.12,
         'ff': rng.choice(['martini3001'] * 6 + ['martini22', 'elnedyn', 'elnedyn22', 'elnedyn22p', 'Elnedyn22', 'xelnedyn22',
                                                   'elnedy', '']),
         'ff_given': True}
    if o['ff'] == 'martini3001' and rng.random() < 0.5:
        o['ff_given'] = False
    flo = {}
    pool = list(FLOAT_STRINGS)
    rng.shuffle(pool)                      # distinct values, so that two options swapped in the call are seen
    for f in FLOAT_FLAGS:
        if rng.random() < 0.6:
            flo[f] = pool.pop()
    o['floats'] = flo
    o['ermd'] = rng.choice([None] * 8 + ['0', '0', '1', '2', '3', '5', '-1', ' 2', '+2', '1_0', '02', '2 ',
                                         '2.0', 'x', '', '1e1', '--1', '_1'])
    o['eb'] = rng.choice([None, None, None, 'BB', 'BB,SC1', 'BB,', ',', '', ' BB', 'BB,BB', 'CA,W', 'SC1,SC2,BB', 'bb',
                          'BB SC1', 'BB;SC1'])
    o['eunit'], o['unit_kind'] = (None, 'absent') if rng.random() < 0.12 else gen_unit(rng)
    o['sep'] = rng.random() < 0.3
    o['name'] = rng.choice([None, None, None, 'prot', 'molecule', 'x y', '', 'A_1'])
    return o


def argv_of(rng, o):
    argv = []
    if o['elastic']:
        argv.append('-elastic')
    if o['ff_given']:
        argv += ['-ff', o['ff']] if o['ff'] and not o['ff'].startswith('-') else ['-ff=' + o['ff']]
    opts = [(f, v) for f, v in o['floats'].items()]
    for f, key in (('-ermd', 'ermd'), ('-eb', 'eb'), ('-eunit', 'eunit')):
        if o[key] is not None:
            opts.append((f, o[key]))
    if o.get('name') is not None:
        opts.append(('-name', o['name']))
    if rng is not None:
        rng.shuffle(opts)
    if o.get('sep'):
        argv.append('-sep')
    for f, v in opts:
        if v == '' or v.startswith('-') or (rng is not None and rng.random() < 0.25):
            argv.append('%s=%s' % (f, v))
        else:
            argv += [f, v]
    if o['go']:
        argv.append('-go')
    return argv


def probes_for(rng, unit):
    nums = [int(x) for x in re.findall(r'-?\d+', unit or '')][:8]
    cand = set()
    for n in nums:
        cand.update((n - 1, n, n + 1))
    cand = sorted(cand)
    if rng is None:
        return cand[:8]
    rng.shuffle(cand)
    out = sorted(set(cand[:6] + [rng.randint(-15, 50)]))
    return out


# ----------------------------------------------------------------------------
# running the extracted statements / canonical form of a built processor
# ----------------------------------------------------------------------------
def frac(x):
    if x != x or x in (float('inf'), float('-inf')):
        return [0, 0]
    f = Fraction(x)
    return [f.numerator, f.denominator]


def canon_processor(proc, merged, probes, ARB, selectors, enc):
    import networkx as nx
    a = vars(proc)
    sel = a['selector']
    if sel is selectors.select_backbone:
        selk, names = 'default', ['BB']
    elif isinstance(sel, functools.partial) and sel.func is selectors.proto_select_attribute_in and not sel.args \
            and set(sel.keywords) == {'attribute', 'values'} and sel.keywords['attribute'] == 'atomname':
        selk, names = 'list', list(sel.keywords['values'])
    else:
        selk, names = '?', []
    dc = a['domain_criterion']
    table = []
    if dc is ARB.always_true:
        kind = '0'
    elif dc is ARB.same_chain:
        kind = '1'
    else:
        kind = '2'
        g = nx.Graph()
        for i, r in enumerate(probes):
            g.add_node(i, resid=99999, _old_resid=r)
        for i in range(len(probes)):
            for j in range(len(probes)):
                try:
                    table.append(1 if dc(g, i, j) else 0)
                except Exception:       # noqa
                    table.append(-1)
    extras = []
    if a.get('bond_type') is not None:
        extras.append('bond_type=%r' % (a['bond_type'],))
    if a.get('bond_type_variable') != 'elastic_network_bond_type' or a.get('res_min_dist_variable') != 'elastic_network_res_min_dist':
        extras.append('variables=%r/%r' % (a.get('bond_type_variable'), a.get('res_min_dist_variable')))
    try:
        nums = [enc(frac(a[k])) for k in ('lower_bound', 'upper_bound', 'decay_factor', 'decay_power', 'base_constant',
                                          'minimum_force')]
        rmd = a['res_min_dist']
        if rmd is not None and (type(rmd) is not int):
            extras.append('res_min_dist of type %s' % type(rmd).__name__)
        s = ' '.join(['proc', 'merge=%d' % merged, 'sel=' + selk, enc(names)] + nums
                     + [enc(rmd), 'dom=' + kind, enc(table)] + extras)
    except Exception as e:   # noqa
        s = 'unencodable %r' % (a,)
    return s, {'names': names, 'selk': selk, 'kind': kind, 'table': table, 'attrs': a}


def event_name(dedup, molname):
    from common import enc
    return 'name:%s:%s' % ('1' if dedup is True else '0' if dedup is False else repr(dedup), enc(molname) if isinstance(molname, str) else repr(molname))


class _Logger:
    def __init__(self):
        self.critical_messages = []

    def critical(self, msg, *a, **k):
        self.critical_messages.append(msg)

    def info(self, *a, **k):
        pass
    debug = warning = error = info


def make_runner(X, vermouth, ARB, selectors, enc):
    rec = {}

    class RecARB(ARB.ApplyRubberBand):
        def run_system(self, system):
            rec.setdefault('ran', []).append((self, system))
            rec.setdefault('events', []).append('network')

    class RecMerge:
        def __init__(self, *a, **k):
            rec['merge_args'] = (a, k)

        def run_system(self, system):
            rec.setdefault('merged', []).append(system)
            rec.setdefault('events', []).append('merge')

    class RecName(vermouth.NameMolType):
        def run_system(self, system):
            ok = system is rec.get('system') and self.meta_key == 'moltype'
            rec.setdefault('events', []).append(event_name(self.deduplicate, self.molname) if ok else 'name-of-something-else')

    class Shim:
        processors = vermouth.processors
        ApplyRubberBand = RecARB
        MergeAllMolecules = RecMerge
        NameMolType = RecName

    logger = _Logger()
    statement = X['make_statement'](Shim, selectors, logger)
    parser = X['make_parser']()

    def run(argv, probes):
        rec.clear()
        logger.critical_messages[:] = []
        system = object()
        rec['system'] = system
        err = sys.stderr
        sys.stderr = io.StringIO()
        try:
            try:
                args = parser.parse_args(argv)
                proc = statement(args, parser, system)
            finally:
                sys.stderr = err
        except SystemExit as e:
            return ('usage' if e.code == 2 else 'exit %r' % (e.code,)), None
        except ValueError as e:
            msg = str(e)
            if msg.startswith('Faulty resid interval for elastic network unit'):
                return 'errfaulty', {'message': msg, 'critical': list(logger.critical_messages)}
            if 'invalid literal for int()' in msg:
                return 'errint', {'message': msg}
            return 'ValueError %s' % msg[:80], None
        except Exception as e:    # noqa
            return 'exc %s' % type(e).__name__, None
        if proc is None:
            return 'noelastic', None
        ran = rec.get('ran', [])
        merged = len(rec.get('merged', []))
        s, info = canon_processor(proc, merged, probes, ARB, selectors, enc)
        if len(ran) != 1 or ran[0][0] is not proc or ran[0][1] is not system:
            s += ' run_system-calls=%d' % len(ran)
        if merged and (rec['merged'][0] is not system or rec.get('merge_args') != ((), {})):
            s += ' merge-of-something-else'
        info['events'] = list(rec.get('events', []))
        if info['events']:
            s += ' then=' + ','.join(info['events'])
        return s, info
    return run


def cli_oracle(o, probes, impl, info):
    """the documented behaviour of the options, stated with regular expressions and Python's own converters"""
    errs = []
    if o['ermd'] is not None and not is_int_literal(o['ermd']):
        want = 'usage'
    elif o['elastic'] and o['go']:
        want = 'usage'
    elif not (o['elastic'] or o['ff'].startswith('elnedyn')):
        want = 'noelastic'
    else:
        want = 'proc'
    unit = 'molecule' if o['eunit'] is None else o['eunit']
    regs = None
    if want == 'proc' and unit not in KEYWORDS:
        regs = documented_regions(unit)
        if regs is None:
            want = 'valueerror'
    head = impl.split(' ')[0]
    got = {'errint': 'valueerror', 'errfaulty': 'valueerror'}.get(head, head)
    if got != want:
        return ['options %r: outcome %r, documented outcome %r' % (o, clip80(impl), want)]
    if want == 'valueerror' and head == 'errfaulty':
        if '"%s"' % unit not in info['message'] or info.get('critical', [info['message']]) != [info['message']]:
            errs.append('the Faulty-resid-interval error does not quote the value / is not logged as critical: %r' % (info,))
    if want != 'proc':
        return errs
    a = info['attrs']
    for f, key in (('-ef', 'base_constant'), ('-el', 'lower_bound'), ('-eu', 'upper_bound'), ('-ea', 'decay_factor'),
                   ('-ep', 'decay_power'), ('-em', 'minimum_force')):
        exp = float(o['floats'][f]) if f in o['floats'] else DOC_DEFAULTS[f]
        if a[key] != exp:
            errs.append('%s %r: %s = %r, expected %r' % (f, o['floats'].get(f), key, a[key], exp))
    exp_rmd = None if o['ermd'] is None else int(o['ermd'])
    if a['res_min_dist'] != exp_rmd or (exp_rmd is None) != (a['res_min_dist'] is None):
        errs.append('-ermd %r: res_min_dist = %r' % (o['ermd'], a['res_min_dist']))
    if a['bond_type'] is not None:
        errs.append('bond_type = %r given to the processor' % (a['bond_type'],))
    exp_names = ['BB'] if o['eb'] is None else o['eb'].split(',')
    if info['names'] != exp_names or (info['selk'] == 'default') != (o['eb'] is None):
        errs.append('-eb %r: selector %s %r' % (o['eb'], info['selk'], info['names']))
    exp_kind = {'molecule': '0', 'all': '0', 'chain': '1'}.get(unit, '2')
    if info['kind'] != exp_kind:
        errs.append('-eunit %r: criterion kind %s, expected %s' % (unit, info['kind'], exp_kind))
    if (' merge=1 ' in impl) != (unit == 'all'):
        errs.append('-eunit %r: MergeAllMolecules %s' % (unit, 'run' if ' merge=1 ' in impl else 'not run'))
    exp_events = (['merge'] if unit == 'all' else []) + ['network', event_name(not o.get('sep'), o['name'] if o.get('name') is not None else 'molecule')]
    if info.get('events') != exp_events:
        errs.append('the block runs %r; expected %r (the molecule types are named again, last, after the network)'
                    % (info.get('events'), exp_events))
    if regs is not None:
        exp_table = [1 if any(min(r) <= x <= max(r) and min(r) <= y <= max(r) for r in regs) else 0
                     for x in probes for y in probes]
        if info['table'] != exp_table:
            bad = [(x, y) for (x, y), g, w in zip([(x, y) for x in probes for y in probes], info['table'], exp_table) if g != w]
            errs.append('-eunit %r (regions %r): residues %r are%s in one domain' %
                        (unit, regs, bad[0], '' if info['table'][probes.index(bad[0][0]) * len(probes) + probes.index(bad[0][1])] else ' not'))
    return errs


def clip80(s):
    return s if len(s) <= 80 else s[:80] + '...'


# ----------------------------------------------------------------------------
# real command-line runs (in a forked child, so that they overlap with the other streams)
# ----------------------------------------------------------------------------
UNIT = 256


def two_chain_pdb(repo, nres, shift):
    aa = os.path.join(repo, 'vermouth', 'tests', 'data', 'integration_tests', 'tier-0', 'mini-protein3_trp-cage', 'aa.pdb')
    lines = [l for l in open(aa) if l.startswith('ATOM') and int(l[22:26]) <= nres]
    out = list(lines) + ['TER\n']
    for l in lines:
        out.append(l[:21] + 'B' + l[22:30] + '%8.3f' % (float(l[30:38]) + shift) + l[38:])
    out += ['TER\n', 'END\n']
    return ''.join(out)


class _Stop(Exception):
    pass


def _mol_dump(mol):
    import numpy as np
    atoms = []
    for key, at in mol.nodes.items():
        pos = at.get('position')
        if pos is None:
            p = None
        elif np.any(np.isnan(pos)):
            p = 'nan'
        else:
            p = [int(round(float(x) * UNIT)) for x in pos]
        atoms.append({'key': key, 'name': at.get('atomname'), 'chain': at.get('chain'), 'resid': at.get('resid'),
                      'resname': at.get('resname'), 'icode': at.get('insertion_code'), 'old': at.get('_old_resid'), 'pos': p})
    return atoms, [list(e) for e in mol.edges]


def _bonds_dump(mol, rubber):
    out = []
    for i in mol.interactions.get('bonds', []):
        if (i.meta.get('group') == 'Rubber band') == rubber:
            out.append((list(i.atoms), [float(x) if not isinstance(x, (int, str)) else x for x in i.parameters],
                        [str(x) for x in i.parameters], dict(i.meta)))
    return out


def cli_child(repo, runs, conn, probes_of):
    """runs: list of (extra argv, nres, shift, finish?, pdb path or None, -ss value or None)"""
    import logging
    import pickle
    import runpy
    import shutil
    import tempfile
    import numpy as np
    import vermouth
    from vermouth import selectors
    from vermouth.processors import apply_rubber_band as ARB
    from vermouth.processors.merge_all_molecules import MergeAllMolecules
    from vermouth.processors.name_moltype import NameMolType
    from common import enc
    results = []
    cap = {}
    o_rs, o_merge, o_name = ARB.ApplyRubberBand.run_system, MergeAllMolecules.run_system, NameMolType.run_system

    def rs(self, system):
        cap['n_rb_calls'] = cap.get('n_rb_calls', 0) + 1
        for mol in system.molecules:
            for at in mol.nodes.values():
                if at.get('position') is not None:
                    at['position'] = np.round(np.asarray(at['position'], dtype=float) * UNIT) / UNIT
        cap['proc'], cap['info'] = None, None
        cap['proc_obj'] = self
        cap['mols'] = []
        before = [(_mol_dump(m), _bonds_dump(m, False), dict(m.force_field.variables)) for m in system.molecules]
        handler = _Collect()
        lg = logging.getLogger('vermouth')
        lg.addHandler(handler)
        exc = None
        try:
            with np.errstate(all='ignore'):
                o_rs(self, system)
        except Exception as e:   # noqa
            exc = type(e).__name__
        finally:
            lg.removeHandler(handler)
        cap['exc'] = exc
        cap['warnings'] = [r.getMessage() for r in handler.records if r.levelno >= logging.WARNING]
        for m, (dump, others, ffv) in zip(system.molecules, before):
            cap['mols'].append({'atoms': dump[0], 'edges': dump[1], 'rubber': _bonds_dump(m, True),
                                'intact': _bonds_dump(m, False) == others and _mol_dump(m) == dump,
                                'ffvars': {k: v for k, v in ffv.items() if isinstance(v, int)}})
        cap['n_after'] = len(system.molecules)
        cap.setdefault('events', []).append('network')
        cap['system'] = system

    def merge(self, system):
        cap['merged'] = cap.get('merged', 0) + 1
        cap['n_before_merge'] = len(system.molecules)
        cap.setdefault('events', []).append('merge')
        return o_merge(self, system)

    def name(self, system):
        r = o_name(self, system)
        cap.setdefault('events', []).append(event_name(self.deduplicate, self.molname) if self.meta_key == 'moltype'
                                            else 'name-under-%r' % (self.meta_key,))
        cap['names_last'] = [m.meta.get('moltype') for m in system.molecules]
        if 'network' in cap['events'] and system is cap.get('system'):
            cap['names_after'] = [m.meta.get('moltype') for m in system.molecules]
            if not cap['finish']:
                raise _Stop()       # the network and the renaming are done: the rest of the run is not needed
        return r

    ARB.ApplyRubberBand.run_system = rs
    MergeAllMolecules.run_system = merge
    NameMolType.run_system = name
    cwd = os.getcwd()
    for extra, nres, shift, finish, pdb, ss in runs:
        tmp = tempfile.mkdtemp(prefix='c15cli')
        cap.clear()
        cap['finish'] = finish
        open(os.path.join(tmp, 'in.pdb'), 'w').write(open(pdb).read() if pdb else two_chain_pdb(repo, nres, shift))
        argv, out, err = sys.argv, sys.stdout, sys.stderr
        sys.argv = ['martinize2', '-f', 'in.pdb', '-x', 'cg.pdb', '-o', 'topol.top', '-ss', ss or 'C' * (2 * nres),
                    '-maxwarn', '1000'] + extra
        sys.stdout = sys.stderr = io.StringIO()
        os.chdir(tmp)
        try:
            runpy.run_path(os.path.join(repo, 'bin', 'martinize2'), run_name='__main__')
            outcome = 'end'
        except _Stop:
            outcome = 'stop'
        except SystemExit as e:
            outcome = 'exit %r' % (e.code,)
        except Exception as e:   # noqa
            outcome = 'exc %s: %s' % (type(e).__name__, str(e)[:120])
        finally:
            text = sys.stderr.getvalue()[-400:]
            sys.argv, sys.stdout, sys.stderr = argv, out, err
            os.chdir(cwd)
            lg = logging.getLogger('vermouth')
            for h in list(lg.handlers):
                lg.removeHandler(h)
        res = {'extra': extra, 'outcome': outcome, 'stderr': text, 'merged': cap.get('merged', 0),
               'n_before_merge': cap.get('n_before_merge'), 'n_rb_calls': cap.get('n_rb_calls', 0),
               'mols': cap.get('mols'), 'exc': cap.get('exc'), 'warnings': cap.get('warnings'),
               'names_after': cap.get('names_after'), 'names_last': cap.get('names_last')}
        evs = list(cap.get('events', []))
        while evs and evs[0].startswith('name'):
            evs.pop(0)                  # the naming that precedes the block
        res['events'] = evs
        if cap.get('proc_obj') is not None:
            s, info = canon_processor(cap['proc_obj'], cap.get('merged', 0), probes_of(extra), ARB, selectors, enc)
            info.pop('attrs')
            a = vars(cap['proc_obj'])
            info['nums'] = {k: a[k] for k in ('lower_bound', 'upper_bound', 'decay_factor', 'decay_power', 'base_constant',
                                              'minimum_force', 'res_min_dist', 'bond_type')}
            info['events'] = evs
            res['proc'], res['info'] = s + (' then=' + ','.join(evs) if evs else ''), info
        if finish and outcome == 'end':
            itps = {}
            for fn in sorted(os.listdir(tmp)):
                if fn.endswith('.itp'):
                    itps[fn] = open(os.path.join(tmp, fn)).read()
            res['itps'] = itps
        shutil.rmtree(tmp, ignore_errors=True)
        results.append(res)
    ARB.ApplyRubberBand.run_system, MergeAllMolecules.run_system, NameMolType.run_system = o_rs, o_merge, o_name
    conn.send_bytes(pickle.dumps(results))
    conn.close()


class _Collect(logging.Handler):
    def __init__(self):
        super().__init__(level=logging.DEBUG)
        self.records = []

    def emit(self, record):
        self.records.append(record)


def start_cli_runs(repo, runs, probes_of):
    """fork a child doing the runs; returns (process, connection)"""
    import multiprocessing as mp
    ctx = mp.get_context('fork')
    parent, child = ctx.Pipe(duplex=False)
    p = ctx.Process(target=cli_child, args=(repo, runs, child, probes_of))
    p.daemon = True
    p.start()
    child.close()
    return p, parent


def collect_cli_runs(handle, timeout=900):
    import pickle
    p, conn = handle
    if not conn.poll(timeout):
        p.terminate()
        return None
    data = pickle.loads(conn.recv_bytes())
    p.join(10)
    return data


def itp_atoms(text):
    """[(index, resid, resname, atomname)] of the [ atoms ] section of a written ITP"""
    out, section = [], None
    for raw in text.split('\n'):
        l = raw.split(';')[0].strip()
        if l.startswith('['):
            section = l.strip('[] ').strip()
            continue
        if section == 'atoms' and l and not l.startswith('#'):
            f = l.split()
            out.append((int(f[0]), int(f[2]), f[3], f[4]))
    return out


def itp_rubber_lines(text):
    """parameter strings of the bonds listed under '; Rubber band' in a written ITP: [(i, j, [param strings])]"""
    out, section, group = [], None, None
    for raw in text.split('\n'):
        l = raw.strip()
        if l.startswith('['):
            section, group = l.strip('[] ').strip(), None
            continue
        if l.startswith(';'):
            group = l[1:].strip()
            continue
        if l.startswith('#') or not l:
            if not l:
                group = None
            continue
        if section == 'bonds' and group == 'Rubber band':
            f = l.split(';')[0].split()
            out.append((int(f[0]), int(f[1]), f[2:]))
    return out
