#!/venv/bin/python
"""C18 - Go-model sites and contacts mirror the backbone and the contact map.
Model: lean/VermouthModel/C18.lean; theorems: lean/VermouthProps/C18.lean.

Every case is a system of coarse-grained molecules (several chains, cross-links, shared
input resids) built directly, merged with the real MergeAllMolecules, dumped, and then
processed by the real GoPipeline.run_system.  The same dump goes to the Lean model.
Geometry is exact: positions are integer lattice points held in floats, cut-offs are
dyadic rationals, so `cutoff_long > dist > cutoff_short` is decided exactly by the floats
(a non-zero difference of the squares is >= 1/16, i.e. > 1e-4 in the distance)."""
import copy
import glob
import math
from fractions import Fraction
from common import *

chk = Check('C18')
chk.extra['rule'] = ('systems of 1-3 molecules with 1-2 chains each (shared input resids, sparse/shuffled keys, '
                     'cross-links, optional charge groups) are merged by the real MergeAllMolecules and run '
                     'through the real GoPipeline; contact lists mix symmetric, one-directional, absent-residue, '
                     'absent-chain and self entries; cut-offs are often placed exactly on an occurring distance; '
                     'a case is non-trivial if it has >= 1 one-directional and >= 1 symmetric contact between '
                     'present residues; residues with two backbone beads whose sub-graph is iterated in set order are '
                     'compared with the model given the observed order; histories apply ONE GoProcessorPipeline / '
                     'VirtualSiteCreator / ComputeStructuralGoBias object to 2-3 systems (or one application to an '
                     'unmerged system, sometimes with an atom-less molecule) and compare each result with a fresh '
                     'processor and with the model (non-trivial: >= 1 Go pair emitted); contact-map files mix selected, '
                     'unselected, comment, short/long, malformed-integer lines and all newline conventions (non-trivial: '
                     'accepted file with noise lines); every third contact list reaches the pipeline through the real '
                     'read_go_map; every third result is written with write_nonbond_params/write_atomtypes and the two '
                     'files are compared byte for byte with model(pipeline)+model(writers), sigma/epsilon of every pair '
                     'checked exactly (non-trivial: >= 1 pair); generated tables (conditionals, groups, comments of all '
                     'shapes, self/3-atom/empty atom tuples, None numbers, both ifdef+ifndef, C6C12 on exact dyadics, '
                     'rounding ties at 8 decimals) go through the two writers and through write_gmx_topology with varying '
                     'itp_paths (non-trivial: >= 2 blocks / both files); generated all_contacts lists go through '
                     '_write_contacts and the written file through read_go_map (non-trivial: >= 1 selected contact); '
                     'every main case is compared with the model of the WHOLE state (complete interaction table and both '
                     'parameter tables after the run); 40% of them carry interactions before the pipeline runs (virtual_sitesn '
                     'built from backbone / side-chain beads, other virtual-site and bonded sections, exclusions between backbone '
                     'beads incl. the pair a Go contact excludes, empty sections), parameter tables with entries, real particles '
                     'named like the Go sites, mass/charge attributes, and boundary values (resid <= 0, chain None, _old_resid '
                     'None/0, molecule without backbone bead, cut-offs equal/zero/negative, res_dist 0), counted as pre:* / '
                     'boundary:*; distinct = distinct protocol line')
chk.lean(['VermouthProps.C18', 'VermouthProps.C18_Reuse', 'VermouthProps.C18_Files', 'VermouthProps.C18_MapWrite',
          'VermouthProps.C18_Sigma', 'VermouthProps.C18_Order', 'VermouthProps.C18_Inter'], 'driver_c18')

import numpy as np
import networkx as nx
import vermouth
import vermouth.forcefield
import vermouth.molecule
from vermouth.rcsu.go_pipeline import GoPipeline
from vermouth.graph_utils import make_residue_graph
from vermouth.rcsu.go_pipeline import GoProcessorPipeline
from vermouth.rcsu.go_vs_includes import VirtualSiteCreator
from vermouth.rcsu.go_structure_bias import ComputeStructuralGoBias
from vermouth.rcsu.contact_map import read_go_map, _write_contacts
from vermouth.processors import SetMoleculeMeta
from vermouth.gmx.topology import write_nonbond_params, write_atomtypes, write_gmx_topology, Atomtype, NonbondParam
from vermouth.file_writer import DeferredFileWriter
import shutil
import tempfile
TMP = tempfile.mkdtemp(prefix='verif_c18_')

quiet_vermouth_logs()
chk.trusted.append('harness/c18.py: system builder, canonicaliser of nodes/interactions/nonbond_params, property oracle '
                   '(networkx shortest paths, Fractions); exactness of float sqrt/comparison on integer lattices with '
                   'dyadic cut-offs')
chk.trusted.append('harness/c18.py (extension): fractions.Fraction(x) as the exact value of a Python number; the independent '
                   'parameter-file parser and its block/group bookkeeping; scipy euclidean(...)*10 re-evaluated for the distance '
                   'column of the written contact map; str() of mass/charge')
chk.trusted.append('harness/c18.py (follow-up): rendering of (parameters, meta) of an interaction as one string; identity (`is`) '
                   'of the entries that existed before; residue member orders taken from the sets of the real collect_residues '
                   '(spot-checked against make_residue_graph); lean/Drivers/C18.lean applies chainTag / oldSentinel to chain '
                   'and _old_resid values that are None')
KNOWN_IDS = {k['id'] for k in chk.known if k.get('status') == 'known'}
FIXED_IDS = {k['id'] for k in chk.known if k.get('status') == 'fixed'}

BB_TYPES = ['P2', 'SP2', 'P1', 'SP1a', 'Q5', 'N4a']
SC_TYPES = ['SC3', 'TC5', 'C5', 'SP1', 'TN6d', 'SQ3p', 'C6', 'P2']
RESNAMES = ['ALA', 'GLY', 'CYS', 'LYS', 'PHE', 'TRP', 'SER']
SAFE_PREFIX = ['molecule_0', 'mol_1', 'go', 'prot_A', 'M', 'insulin', 'x_y_z', 'Go9']
CLASH_PREFIX = ['P', 'SP', 'C5', 'T', 'P2', 'S', 'Q5']   # prefixes of ordinary bead types (F-C18-2)
STEPS = [(1, 0, 0), (0, 1, 0), (0, 0, 1), (1, 1, 0), (2, 0, 0), (1, 2, 2), (0, 3, 4), (2, 1, 0), (-1, 0, 0),
         (0, -1, 0), (0, 2, 0), (3, 0, 0), (-2, 0, 1), (0, 0, -1), (2, 3, 6), (1, 1, 1)]


# ----------------------------------------------------------------------------
# case specification -> real system
# ----------------------------------------------------------------------------
def build_system(spec):
    """spec['molecules'] = [{'atoms': [[key, attrs]...], 'edges': [[a, b]...]}]"""
    ff = vermouth.forcefield.ForceField('verif_c18')
    system = vermouth.System(force_field=ff)
    for m in spec['molecules']:
        mol = vermouth.molecule.Molecule(force_field=ff, nrexcl=1)
        for key, attrs in m['atoms']:
            a = dict(attrs)
            a['position'] = np.array([float(c) for c in a['position']])
            mol.add_node(key, **a)
        for a, b in m['edges']:
            mol.add_edge(a, b)
        # interactions the molecule carries BEFORE the Go pipeline runs (sections in this order; a section may be empty)
        for name, items in m.get('interactions', []):
            mol.interactions[name]
            for atoms_, params_, meta_ in items:
                mol.add_interaction(name, atoms_, list(params_), dict(meta_))
        system.add_molecule(mol)
    # entries the parameter tables of the system hold already (None: key absent, 0: key present and empty)
    pre_sys = spec.get('sys') or {}
    holder = vermouth.molecule.Molecule(force_field=ff, nrexcl=1)
    holder.add_node(0, atomname='W', atype='W', resname='W', resid=1, chain='', mass=72.0, charge=0.0)
    if pre_sys.get('atomtypes') is not None:
        system.gmx_topology_params['atomtypes']
        for i in range(pre_sys['atomtypes']):
            system.gmx_topology_params['atomtypes'].append(Atomtype(molecule=holder, node=0, sigma=0.47 + i, epsilon=3.5,
                                                                    meta={}))
    if pre_sys.get('nonbond_params') is not None:
        system.gmx_topology_params['nonbond_params']
        for i in range(pre_sys['nonbond_params']):
            system.gmx_topology_params['nonbond_params'].append(
                NonbondParam(atoms=('W', 'P%d' % (i + 1)), sigma=0.47, epsilon=4.0 + i, meta={'comment': ['water bias']}))
    return system


def itag(it):
    """parameters and meta of an interaction as one opaque string (the model's vsTag / exclTag are written like this)"""
    return repr(list(it.parameters)) + '|' + json.dumps(it.meta, sort_keys=True, default=repr)


def dump_table(mol):
    return [[name, [[list(it.atoms), itag(it)] for it in its]] for name, its in mol.interactions.items()]


def dump_atoms(mol):
    out = []
    for k, a in mol.nodes(data=True):
        pos = a['position']
        ip = [int(round(float(c))) for c in pos]
        assert all(float(i) == float(c) for i, c in zip(ip, pos))
        out.append([k, a['atomname'], a['resid'], a.get('_old_resid'), a['resname'], a['chain'], a['atype'],
                    a.get('charge_group'), ip[0], ip[1], ip[2], a.get('cgsecstruct')])
    return out


def num(x):
    """integers (also as float) cross as ints, anything else as a marker string"""
    try:
        if float(x) == int(x):
            return int(x)
    except (TypeError, ValueError, OverflowError):
        pass
    return 'f' + repr(x)


def canon(mol, pre, pre_vsn, pre_excl, nb, status):
    """canonical string of what was added to one molecule (+ the Go potentials `nb` emitted for it)"""
    old = {k for k, _ in pre}
    new = [(k, a) for k, a in mol.nodes(data=True) if k not in old]
    vsn = mol.interactions.get('virtual_sitesn', [])[pre_vsn:]
    excl = mol.interactions.get('exclusions', [])[pre_excl:]
    bb_of = {}
    for it in vsn:
        bb_of.setdefault(it.atoms[0], []).append(it.atoms[1] if len(it.atoms) == 2 else None)
    vs_c = []
    for k, a in new:
        b = bb_of.get(k, [])
        pos = a.get('position')
        vs_c.append([k, b[0] if len(b) == 1 else None, a.get('resid'), a.get('_old_resid'), a.get('resname'),
                     a.get('atype'), a.get('charge_group'), a.get('chain'),
                     num(pos[0]), num(pos[1]), num(pos[2]), a.get('atomname'), num(a.get('charge')),
                     num(a.get('mass')), a.get('cgsecstruct')])
    inter_c = [list(it.atoms) + ([] if list(it.parameters) == ['1'] else ['params=%r' % (it.parameters,)])
               for it in vsn]
    conv = 2 ** (1 / 6)
    nb_c = []
    for p in nb:
        d2f = (p.sigma * conv) ** 2
        n = int(round(d2f))
        nb_c.append([p.atoms[0], p.atoms[1], n if abs(d2f - n) < 1e-6 else 'f%r' % d2f])
    excl_c = [list(it.atoms) for it in excl]
    impl = 'vs %s inter %s go %s' % (enc(vs_c), enc(inter_c),
                                     ('ok %s %s' % (enc(nb_c), enc(excl_c))) if status == 'ok' else status)
    return impl, new, vsn, excl


def map_file_text(contacts, rng=None):
    """An rCSU contact-map file listing exactly `contacts` (selected lines), with the usual header noise."""
    out = ['Reading file:    ../aa.pdb', '', 'Residue-Residue Contacts', 'ID    I1  AA  C I(PDB)    I2  AA  C I(PDB)']
    for n, (ra, ca, rb, cb) in enumerate(contacts):
        flags = '1 1 0 1' if n % 3 else '0 0 0 1'      # column 12 = 1, or column 12 = 0 and column 15 = 1
        out.append('R %6d %5d  ALA %s %4d   %6d  GLY %s %4d   %10.4f     %s    11     369    0'
                   % (n + 1, 7, ca, ra, 8, cb, rb, 3.8094, flags))
        if n % 4 == 1:   # an unselected line in between
            out.append('R %6d %5d  ALA %s %4d   %6d  GLY %s %4d   %10.4f     0 1 0 0    11     369    0'
                       % (n + 1, 7, ca, ra + 1000, 8, cb, rb, 3.8))
    return '\n'.join(out) + '\n'


def pipeline_runner(pipeline):
    def run(system, par, low, up):
        pipeline.run_system(system, moltype=par['prefix'], cutoff_short=float(low), cutoff_long=float(up),
                            go_eps=par['eps'], res_dist=par['sep'], go_anchor_bead=par['backbone'],
                            go_atomname=par['vsname'])
    return run


def new_bias_processor(par):
    low, up = Fraction(*par['low']), Fraction(*par['up'])
    return ComputeStructuralGoBias(cutoff_short=float(low), cutoff_long=float(up), go_eps=par['eps'],
                                   res_dist=par['sep'], moltype=par['prefix'], go_anchor_bead=par['backbone'])


def processors_runner(vsc, bias):
    """what GoPipeline does after the merge, with the given (possibly reused) processor objects"""
    def run(system, par, low, up):
        SetMoleculeMeta(moltype=par['prefix']).run_system(system)
        vsc.run_system(system)
        bias.run_system(system)
    return run


def run_real(spec, runner=None, via_file=False):
    """-> (protocol line, canonical impl string, observation dict for the oracle)"""
    system = build_system(spec)
    par = spec['params']
    vermouth.MergeAllMolecules().run_system(system)
    mol = system.molecules[0]
    pre = [(k, dict(a)) for k, a in mol.nodes(data=True)]
    pre_edges = [[a, b] for a, b in mol.edges]
    pre_excl = len(mol.interactions.get('exclusions', []))
    pre_vsn = len(mol.interactions.get('virtual_sitesn', []))
    pre_inter = [(name, list(its)) for name, its in mol.interactions.items()]
    pre_table = dump_table(mol)
    gtp = system.gmx_topology_params
    pre_at = list(gtp['atomtypes']) if 'atomtypes' in gtp else None
    pre_nb = list(gtp['nonbond_params']) if 'nonbond_params' in gtp else None
    atoms = dump_atoms(mol)
    contacts = [tuple(c) for c in spec['contacts']]
    file_err = None
    if via_file:
        # the contact list reaches the pipeline through the real reader
        path = os.path.join(TMP, 'map_%d.map' % len(os.listdir(TMP)))
        with open(path, 'w') as f:
            f.write(map_file_text(contacts))
        try:
            read_go_map(system, path)
        except (ValueError, IOError) as exc:
            system.go_params['go_map'] = [[('unreadable', type(exc).__name__)]]
        os.remove(path)
        if [tuple(c) for c in system.go_params['go_map'][0]] != contacts:
            got_ = system.go_params['go_map'][0]
            system.go_params['go_map'] = [list(contacts)]
            file_err = 'read_go_map returned %r for the file listing %r' % (got_, contacts)
    else:
        system.go_params['go_map'] = [list(contacts)]
    low, up = Fraction(*par['low']), Fraction(*par['up'])
    ln = line('go', par['prefix'], par['backbone'], par['vsname'], atoms, pre_edges,
              [list(c) for c in contacts], low.numerator, low.denominator, up.numerator, up.denominator, par['sep'])
    status = 'ok'
    try:
        (runner or pipeline_runner(GoPipeline))(system, par, low, up)
    except SystemExit:
        status = 'exit'
    except KeyError:
        status = 'keyerror'
    except (ValueError, TypeError, IndexError, AttributeError) as exc:
        status = 'raised-' + type(exc).__name__
    mol = system.molecules[0]
    at_present, nb_present = 'atomtypes' in gtp, 'nonbond_params' in gtp       # before anything below touches the keys
    at_all = list(gtp['atomtypes']) if at_present else []
    nb_all = list(gtp['nonbond_params']) if nb_present else []
    nb = nb_all[len(pre_nb or []):]
    impl, new, vsn, excl = canon(mol, pre, pre_vsn, pre_excl, nb, status)
    obs = dict(system=system, mol=mol, pre=pre, new=new, vsn=vsn, excl=excl, nb=nb, status=status,
               low=low, up=up, contacts=contacts, pre_edges=pre_edges, atoms=atoms, file_err=file_err,
               pre_inter=pre_inter, pre_table=pre_table, pre_at=pre_at, pre_nb=pre_nb, at_all=at_all, nb_all=nb_all,
               at_new=at_all[len(pre_at or []):], at_present=at_present, nb_present=nb_present)
    # the whole state after the run, for the model that threads the whole state (op `gox`)
    obs['implx'] = canon_x(impl, obs)
    obs['x_args'] = (par['prefix'], par['backbone'], par['vsname'], atoms, pre_edges, [list(c) for c in contacts],
                     low.numerator, low.denominator, up.numerator, up.denominator, par['sep'])
    return ln, impl, obs


def canon_x(impl, obs):
    """canonical string of the WHOLE state after the run: created sites, the complete interaction table, the two
    parameter tables (entries that were there before: 'pre<i>' when they are still the same objects)"""
    mol = obs['mol']

    def entries(all_, pre_, present, render):
        if not present:
            return None
        out = []
        for i, t in enumerate(all_):
            out.append(('pre%d' % i) if i < len(pre_ or []) and t is pre_[i] else render(t))
        return out

    def render_at(t):
        if t.molecule is mol and t.sigma == 0 and t.epsilon == 0 and t.meta == {}:
            return t.node
        return 'other:%r' % ((t.node, t.sigma, t.epsilon, t.meta),)

    conv = 2 ** (1 / 6)

    def render_nb(p):
        d2f = (p.sigma * conv) ** 2
        n = int(round(d2f))
        return [p.atoms[0], p.atoms[1], n if abs(d2f - n) < 1e-6 else 'f%r' % d2f]
    at = entries(obs['at_all'], obs['pre_at'], obs['at_present'], render_at)
    nbx = entries(obs['nb_all'], obs['pre_nb'], obs['nb_present'], render_nb)
    status = obs['status']
    if status == 'ok':
        status = 'ok ' + enc([render_nb(p) for p in obs['nb']])
    return '%s tab %s at %s nb %s go %s' % (impl[:impl.index(' inter ')], enc(dump_table(mol)), enc(at), enc(nbx), status)


# ----------------------------------------------------------------------------
# the property, stated independently on the observable result of the real code
# ----------------------------------------------------------------------------
def oracle(spec, obs):
    """-> (errors, finding id or None, flags)"""
    par = spec['params']
    errs, flags = [], set()
    mol, pre, new = obs['mol'], obs['pre'], obs['new']
    prefix, backbone = par['prefix'], par['backbone']
    pre_attr = dict(pre)
    old_keys = [k for k, _ in pre]
    bbs = [k for k, a in pre if a.get('atomname') == backbone]
    # --- virtual sites --------------------------------------------------------
    order = list(mol.nodes)
    if order[:len(old_keys)] != old_keys or [k for k, _ in new] != order[len(old_keys):]:
        errs.append('virtual sites are not placed after all existing atoms')
    if new and old_keys and min(k for k, _ in new) <= max(old_keys):
        errs.append('virtual-site key %r does not follow the existing keys' % min(k for k, _ in new))
    sites_of = {}
    for it in obs['vsn']:
        if len(it.atoms) != 2 or list(it.parameters) != ['1']:
            errs.append('virtual_sitesn %r %r is not [site, backbone] with parameter 1' % (it.atoms, it.parameters))
            continue
        sites_of.setdefault(it.atoms[1], []).append(it.atoms[0])
    for b in bbs:
        if len(sites_of.get(b, [])) != 1:
            errs.append('backbone particle %r has %d virtual sites' % (b, len(sites_of.get(b, []))))
    if len(new) != len(bbs) or len(obs['vsn']) != len(bbs):
        errs.append('%d sites / %d constructions for %d backbone particles' % (len(new), len(obs['vsn']), len(bbs)))
    site_bb = {s: b for b, ss in sites_of.items() for s in ss}
    cgs = [a['charge_group'] for _, a in pre if 'charge_group' in a]
    seen_cg = set(cgs)
    for k, a in new:
        b = site_bb.get(k)
        if b is None or b not in pre_attr or pre_attr[b].get('atomname') != backbone:
            errs.append('site %r is not constructed from a backbone particle' % k)
            continue
        ref = pre_attr[b]
        for f in ('resid', 'resname', 'chain', '_old_resid'):
            if a.get(f) != ref.get(f):
                errs.append('site %r: %s %r differs from backbone %r' % (k, f, a.get(f), ref.get(f)))
        if a.get('position') is None or not np.array_equal(a['position'], ref['position']):
            errs.append('site %r not co-located with backbone %r' % (k, b))
        if a.get('mass') != 0 or a.get('charge') != 0:
            errs.append('site %r has mass %r charge %r' % (k, a.get('mass'), a.get('charge')))
        if a.get('atype') != '%s_%s' % (prefix, ref['resid']):
            errs.append('site %r has type %r, not named after molecule and residue' % (k, a.get('atype')))
        if a.get('atomname') != par['vsname']:
            errs.append('site %r has atom name %r' % (k, a.get('atomname')))
        if a.get('charge_group') in seen_cg or (cgs and a.get('charge_group') <= max(cgs)):
            errs.append('site %r: charge group %r is not new' % (k, a.get('charge_group')))
        seen_cg.add(a.get('charge_group'))
    types = [a.get('atype') for _, a in new]
    finding = None
    types_unique = len(set(types)) == len(types)
    res_of = {k: (a['chain'], a['resid'], a['resname']) for k, a in pre}
    bb_res = [res_of[b] for b in bbs]
    if len(set(bb_res)) < len(bb_res):
        # two backbone particles inside one residue: a type "named after the residue" cannot be
        # unique; the property does not say what should happen, the clause is not applied
        flags.add('two-backbone-particles-in-one-residue')
    elif not types_unique:
        errs.append('virtual-site types are not unique: %r' % sorted(t for t in set(types) if types.count(t) > 1))
        bb_resids = [pre_attr[b]['resid'] for b in bbs]
        if len(set(bb_resids)) < len(bb_resids):
            finding = 'F-C18-1'
    at = obs['at_new']
    if [t.node for t in at] != [k for k, _ in new] or any(t.sigma != 0 or t.epsilon != 0 or t.molecule is not mol
                                                         for t in at):
        errs.append('atomtypes entries do not list the virtual sites with zero sigma/epsilon')
    # --- what was there before is still there, in place ----------------------------------
    for label, before, after in (('atomtypes', obs['pre_at'], obs['at_all']), ('nonbond_params', obs['pre_nb'], obs['nb_all'])):
        if before is not None and (len(after) < len(before) or any(x is not y for x, y in zip(before, after))):
            errs.append('entries of the %s table that existed before the Go pipeline were changed or removed' % label)
    post_inter = dict(mol.interactions.items())
    if [n for n, _ in obs['pre_inter']] != list(post_inter)[:len(obs['pre_inter'])] or \
            set(list(post_inter)[len(obs['pre_inter']):]) - {'virtual_sitesn', 'exclusions'}:
        errs.append('interaction sections %r became %r' % ([n for n, _ in obs['pre_inter']], list(post_inter)))
    for name, before in obs['pre_inter']:
        after = post_inter.get(name, [])
        if len(after) < len(before) or any(x is not y for x, y in zip(before, after)):
            errs.append('existing %s interactions were changed, moved or removed' % name)
        elif name not in ('virtual_sitesn', 'exclusions') and len(after) != len(before):
            errs.append('%d %s interactions were added by the Go pipeline' % (len(after) - len(before), name))
    # --- Go pairs ---------------------------------------------------------------
    contacts = obs['contacts']
    if obs['status'] != 'ok':
        flags.add('aborted')
        if obs['status'].startswith('raised-'):
            errs.append('the Go pipeline stopped with %s' % obs['status'][7:])
        elif obs['status'] == 'keyerror':
            errs.append('KeyError: no Go virtual-site type found for a listed residue')
        else:
            # sys.exit(1) is only acceptable when a listed, present residue has no backbone particle
            res_bb = {}
            for k, a in pre:
                r = (a['chain'], a['resid'], a['resname'])
                res_bb[r] = res_bb.get(r, False) or a.get('atomname') == backbone
            if all(res_bb.values()):
                errs.append('exit although every residue has a backbone particle')
        return errs, finding, flags
    if len(set(contacts)) != len(contacts):
        flags.add('repeated-entries')
        return errs, finding, flags
    if par['sep'] < 0:
        flags.add('negative-separation')
        return errs, finding, flags
    # residues of the (pre) molecule, identified independently
    by_key, olds = {}, {}
    for k, a in pre:
        by_key.setdefault((a['chain'], a.get('_old_resid')), set()).add(res_of[k])
        olds.setdefault(res_of[k], set()).add(a.get('_old_resid', 'missing'))
    if any(len(v) > 1 for v in olds.values()):
        # beads of one residue disagree on the input residue number (API-level input; the mapping gives every bead
        # of a residue the same one): which residue a contact line names is not defined by the property
        flags.add('residue-with-inconsistent-input-resid')
        return errs, finding, flags
    RG = nx.Graph()
    RG.add_nodes_from(set(res_of.values()))
    for a, b in obs['pre_edges']:
        if res_of[a] != res_of[b]:
            RG.add_edge(res_of[a], res_of[b])
    bb_in = {}
    for b in bbs:
        bb_in.setdefault(res_of[b], []).append(b)
    listed = set(contacts)
    if any(len(by_key.get((c, r), ())) > 1 for ra, ca, rb, cb in listed for r, c in ((ra, ca), (rb, cb))):
        flags.add('ambiguous-residue-key')
        return errs, finding, flags
    if not types_unique:
        flags.add('types-not-unique')
        return errs, finding, flags
    clash = any(a['atype'].startswith(prefix) for _, a in pre)
    expected = {}
    for ra, ca, rb, cb in listed:
        if (rb, cb, ra, ca) not in listed:
            continue
        A, B = by_key.get((ca, ra)), by_key.get((cb, rb))
        if not A or not B:
            continue
        A, B = next(iter(A)), next(iter(B))
        if A == B:
            continue
        try:
            gd = nx.shortest_path_length(RG, A, B)
        except nx.NetworkXNoPath:
            gd = math.inf
        if not gd > par['sep']:
            flags.add('#sym_too_close')
            continue
        if len(bb_in.get(A, [])) != 1 or len(bb_in.get(B, [])) != 1:
            flags.add('residue-without-single-backbone')
            return errs, finding, flags
        a, b = bb_in[A][0], bb_in[B][0]
        d2 = sum(int(round(x - y)) ** 2 for x, y in zip(pre_attr[a]['position'], pre_attr[b]['position']))
        if not (obs['low'] < 0 or obs['low'] ** 2 < d2):
            flags.add('#sym_not_above_low')
            continue
        if not (obs['up'] > 0 and d2 < obs['up'] ** 2):
            flags.add('#sym_not_below_up')
            continue
        flags.add('#sym_pass')
        expected[frozenset((A, B))] = (frozenset((a, b)), d2)
    type_res = {a['atype']: res_of[site_bb[k]] for k, a in new if k in site_bb}
    got = {}
    conv = 2 ** (1 / 6)
    for p in obs['nb']:
        if len(p.atoms) != 2 or p.atoms[0] not in type_res or p.atoms[1] not in type_res:
            errs.append('Go potential %r is not between two virtual-site types' % (p.atoms,))
            if clash:
                finding = finding or 'F-C18-2'
            continue
        pair = frozenset(type_res[t] for t in p.atoms)
        got[pair] = got.get(pair, 0) + 1
        if pair in expected:
            # sigma = d / 2^(1/6)  <=>  sigma >= 0 and 2 sigma^6 = d^6 = (d^2)^3: checked on the exact value of the
            # double, relative tolerance 1e-12 on the sixth powers
            d6 = Fraction(expected[pair][1]) ** 3
            if not (p.sigma >= 0 and abs(2 * Fraction(float(p.sigma)) ** 6 - d6) <= SIGMA_TOL * d6):
                errs.append('sigma %r for %r: 2*sigma^6 differs from d^6 = %d^3 by more than 1e-12 (expected sigma %r)'
                            % (p.sigma, p.atoms, expected[pair][1], math.sqrt(expected[pair][1]) / conv))
            if p.epsilon != par['eps']:
                errs.append('epsilon %r for %r, requested %r' % (p.epsilon, p.atoms, par['eps']))
    for pair in expected:
        if got.get(pair, 0) != 1:
            errs.append('residues %s: %d Go potentials, contact is symmetric, separated and inside the window'
                        % (sorted(pair, key=repr), got.get(pair, 0)))
            if clash:
                finding = finding or 'F-C18-2'
    for pair in got:
        if pair not in expected:
            errs.append('residues %s: Go potential although the contact is not symmetric/separated/inside the window'
                        % (sorted(pair, key=repr),))
    # "the two backbone particles are excluded from each other": an exclusion the molecule carried before counts; the
    # pipeline adds exclusions for Go pairs only, at most one per pair
    want_excl = sorted(sorted(v[0]) for v in expected.values())
    got_excl = sorted(sorted(it.atoms) for it in obs['excl'])
    had_excl = [sorted(it.atoms) for name, its in obs['pre_inter'] if name == 'exclusions' for it in its]
    if any(p_ not in want_excl for p_ in got_excl) or any(got_excl.count(p_) > 1 for p_ in want_excl) or \
            any(p_ not in got_excl and p_ not in had_excl for p_ in want_excl):
        errs.append('exclusions added %r (before: %r), expected backbone pairs %r' % (got_excl, had_excl, want_excl))
    return errs, finding, flags


def go_files(ln, spec, obs):
    """the two files written for the result of one pipeline run -> (protocol line, impl string, nb text, at text, errors)"""
    system, par = obs['system'], spec['params']
    at_text, at_err = call_writer(write_atomtypes, system, False, 'go_atomtypes.itp')
    nb_text, nb_err = call_writer(write_nonbond_params, system, False, 'go_nbparams.itp')
    conv = 2 ** (1 / 6)
    nums, sig_ok, eps_ok, errs = [], [], [], []
    for p in obs['nb']:
        com = p.meta.get('comment') or ['']
        nums.append([qenc(float(p.sigma)), qenc(float(p.epsilon)), com[0][len('go bond '):]])
        d2 = int(round((float(p.sigma) * conv) ** 2))         # the squared lattice distance this sigma stands for
        fs = Fraction(float(p.sigma))
        sig_ok.append(bool(fs >= 0 and abs(2 * fs ** 6 - Fraction(d2) ** 3) <= SIGMA_TOL * Fraction(d2) ** 3))
        eps_ok.append(Fraction(float(p.epsilon)) == Fraction(float(par['eps'])))
        if not sig_ok[-1]:
            errs.append('sigma %r of %r is not d/2^(1/6) for any lattice distance (2 sigma^6 vs d^6, rel. 1e-12)'
                        % (p.sigma, p.atoms))
        if not eps_ok[-1]:
            errs.append('epsilon %r of %r is not the requested depth %r' % (p.epsilon, p.atoms, par['eps']))
        if not com[0].startswith('go bond '):
            errs.append('comment of the Go potential is %r' % (com,))
    fl = line('gofiles') + ln[len(enc('go')):] + ' ' + ' '.join(enc(x) for x in (nums, qenc(SIGMA_TOL),
                                                                                    qenc(float(par['eps']))))
    impl = 'at %s %s nb %s %s sigma %s eps %s' % (enc(at_text), at_err, enc(nb_text), nb_err, enc(sig_ok), enc(eps_ok))
    return fl, impl, nb_text, at_text, errs


def residue_member_orders(mol):
    """the node keys of every residue in the order its sub-graph is iterated.  make_residue_graph hands the SET of
    member keys built by collect_residues to Molecule.subgraph, which copies the nodes in the iteration order of that
    set; the same real function builds the same sets here (set layout is a function of the insertion history), the
    sub-graphs themselves are not built (that is two thirds of the cost of make_residue_graph)."""
    from vermouth.graph_utils import collect_residues
    return [list(members) for members in collect_residues(mol).values()]


def residue_orders(obs):
    """the node keys of every residue whose sub-graph networkx does not iterate in node order"""
    mol = obs['mol']
    pos = {k: i for i, k in enumerate(mol.nodes)}
    return [sub for sub in obs['member_orders'] if sub != sorted(sub, key=pos.get)]


def order_sensitive(spec, obs):
    """True if the result depends on the iteration order of a residue sub-graph that is not node order (the members
    of a residue are iterated in CPython set order).  Such cases are compared with the model given the order."""
    par = spec['params']
    mol = obs['mol']
    if 'member_orders' not in obs:
        obs['member_orders'] = residue_member_orders(mol)
    pos = {k: i for i, k in enumerate(mol.nodes)}
    for sub in obs['member_orders']:
        if sub == sorted(sub, key=pos.get):
            continue
        nbb = sum(1 for n in sub if mol.nodes[n].get('atomname') == par['backbone'])
        ntype = sum(1 for n in sub if mol.nodes[n].get('atype', '').startswith(par['prefix']))
        if nbb > 1 or ntype > 1:
            return True
    return False


# ----------------------------------------------------------------------------
# what is written for the Go model: [ nonbond_params ] and [ atomtypes ] (oracle on the real files)
# ----------------------------------------------------------------------------
def writer_oracle(obs, nb_text, at_text):
    errs = []
    rows = [l for l in nb_text.split('\n') if l.strip()]
    if not rows or rows[0].split() != ['[', 'nonbond_params', ']']:
        errs.append('nonbond_params file does not start with its directive')
    data = [l.split(';')[0].split() for l in rows[1:] if not l.lstrip().startswith(';')]
    want = list(obs['nb'])
    if len(data) != len(want):
        errs.append('%d lines written for %d Go potentials' % (len(data), len(want)))
    for t in data:
        if len(t) != 5 or t[2] != '1':
            errs.append('malformed nonbond_params line %r' % (t,))
    good = [t for t in data if len(t) == 5]
    count_file, count_want = {}, {}
    for t in good:
        count_file[frozenset(t[:2])] = count_file.get(frozenset(t[:2]), 0) + 1
    for p_ in want:
        count_want[frozenset(p_.atoms)] = count_want.get(frozenset(p_.atoms), 0) + 1
    for key in set(count_file) | set(count_want):
        if count_file.get(key, 0) != count_want.get(key, 0):
            errs.append('Go pair %r: %d potentials emitted, written %d times'
                        % (sorted(key), count_want.get(key, 0), count_file.get(key, 0)))
    if len(good) == len(want):
        # all Go potentials belong to one (conditional, group) block, which keeps the emission order
        for t, p_ in zip(good, want):
            if [t[0], t[1]] != list(p_.atoms):
                errs.append('Go pair %r written as %r' % (tuple(p_.atoms), t[:2]))
                continue
            try:
                if abs(float(t[3]) - p_.sigma) > 5.000001e-9 or abs(float(t[4]) - p_.epsilon) > 5.000001e-9:
                    errs.append('Go pair %r written with sigma/epsilon %s %s, computed %r %r'
                                % (tuple(p_.atoms), t[3], t[4], p_.sigma, p_.epsilon))
            except ValueError:
                errs.append('non-numeric sigma/epsilon tokens %r' % (t[3:],))
    rows = [l for l in at_text.split('\n') if l.strip()]
    if not rows or rows[0].split() != ['[', 'atomtypes', ']']:
        errs.append('atomtypes file does not start with its directive')
    data = [l.split(';')[0].split() for l in rows[1:] if not l.lstrip().startswith(';')]
    types = sorted(a.get('atype') for _, a in obs['new'])
    if sorted(t[0] for t in data if t) != types:
        errs.append('atomtypes lines %r do not list each virtual-site type once: %r' % ([t[0] for t in data if t], types))
    for t in data:
        try:
            if len(t) != 6 or t[3] != 'A' or any(float(x) != 0 for x in (t[1], t[2], t[4], t[5])):
                errs.append('virtual-site atomtype line %r is not "type 0 0 A 0 0"' % (t,))
        except ValueError:
            errs.append('non-numeric atomtype line %r' % (t,))
    return errs



# ----------------------------------------------------------------------------
# the written parameter files, byte for byte (model: lean/VermouthModel/C18_Write.lean)
# ----------------------------------------------------------------------------
ERRS = ((ValueError, 'valueerror'), (IndexError, 'indexerror'), (TypeError, 'typeerror'), (KeyError, 'keyerror'))
SIGMA_TOL = Fraction(1, 10 ** 12)      # relative, on the sixth powers (double rounding gives < 1e-14)


def qenc(x):
    """exact value of a Python number as [numerator, denominator]; None stays None"""
    if x is None:
        return None
    fr = Fraction(x)
    return [fr.numerator, fr.denominator]


def err_name(exc):
    for cls, name in ERRS:
        if isinstance(exc, cls):
            return name
    raise exc


def flush_writer():
    """finalise what the writers handed to the DeferredFileWriter (also the partial file left by an exception)"""
    DeferredFileWriter().write()


WDIR = os.path.join(TMP, 'writers')
os.makedirs(WDIR, exist_ok=True)


def call_writer(fn, system, c6, fname):
    path = os.path.join(WDIR, fname)
    err = 'ok'
    try:
        fn(system, path, C6C12=c6)
    except Exception as exc:
        err = err_name(exc)
    flush_writer()
    with open(path, newline='') as f:
        text = f.read()
    os.remove(path)
    return text, err


def comment_enc(meta):
    if 'comment' not in meta or meta['comment'] is None:
        return None
    c = meta['comment']
    return list(c)          # a str comment is joined character by character


def nb_enc(p):
    return [list(p.atoms), qenc(p.sigma), qenc(p.epsilon), p.meta.get('ifdef'), p.meta.get('ifndef'),
            p.meta.get('group'), comment_enc(p.meta)]


def at_enc(t):
    node = t.molecule.nodes[t.node] if t.node in t.molecule.nodes else {}
    f = lambda k: (str(node[k]) if k in node else None)
    return [f('atype'), f('mass'), f('charge'), qenc(t.sigma), qenc(t.epsilon), t.meta.get('ifdef'),
            t.meta.get('ifndef'), t.meta.get('group'), comment_enc(t.meta)]


def parse_param_file(text, name):
    """small independent reader of a parameter file -> (errors, rows); a row is
    (tokens before ';', comment text or None, open conditionals, group line in force)"""
    errs, rows = [], []
    if not text.endswith('\n'):
        errs.append('%s file does not end with a newline' % name)
    lines = text.split('\n')[:-1] if text.endswith('\n') else text.split('\n')
    if not lines or lines[0] != '[ %s ]' % name:
        errs.append('%s file does not start with its directive' % name)
    stack, group, unclosed_reopen = [], None, 0
    for l in lines[1:]:
        if l.startswith('#ifdef ') or l.startswith('#ifndef '):
            kw, _, cond = l.partition(' ')
            if stack:
                unclosed_reopen += 1
            stack.append((kw[1:], cond))
            group = None
        elif l == '#endif':
            if not stack:
                errs.append('#endif without an open block')
            else:
                stack.pop()
            group = None
        elif l.startswith('; '):
            group = l[2:]
        else:
            data, sep, com = l.partition(';')
            rows.append((data.split(), com if sep else None, tuple(stack), group))
    return errs, rows, len(stack), unclosed_reopen


def table_oracle(kind, entries, c6, text, err):
    """the property of the writers, stated on the file: every entry of the table is written exactly once, as
    `a b 1 nb1 nb2` / `type mass charge A nb1 nb2`, inside the conditional block and after the group line its meta
    asks for, (nb1, nb2) = (sigma, epsilon) or the Lennard-Jones (C6, C12) = (4 eps sigma^6, 4 eps sigma^12);
    blocks are closed.  -> (errors, finding)"""
    name = 'nonbond_params' if kind == 'nb' else 'atomtypes'
    if err != 'ok':
        return [], None                  # malformed tables: the exception kind is compared with the model only
    errs, rows, still_open, reopened = parse_param_file(text, name)
    want = []
    for e in entries:
        if kind == 'nb':
            atoms, sig, eps, meta = list(e.atoms), e.sigma, e.epsilon, e.meta
            head = [atoms[0], atoms[1]] if len(atoms) == 2 else [atoms[0], atoms[0]]
            head.append('1')
        else:
            nd = e.molecule.nodes[e.node]
            sig, eps, meta = e.sigma, e.epsilon, e.meta
            head = [str(nd['atype']), str(nd['mass']), str(nd['charge']), 'A']
        cond = ('ifdef', meta['ifdef']) if meta.get('ifdef') is not None else \
            (('ifndef', meta['ifndef']) if meta.get('ifndef') is not None else None)
        want.append((head, sig, eps, cond, meta.get('group') or None))
    if len(rows) != len(want):
        errs.append('%d data lines for %d table entries' % (len(rows), len(want)))
    exchanged = 0
    used = [False] * len(rows)

    def numbers_fit(toks, sig, eps):
        """-> (fits, carries the exchanged numbers instead of the Lennard-Jones ones)"""
        try:
            n1, n2 = float(toks[-2]), float(toks[-1])
        except ValueError:
            return False, False
        if not c6:
            return abs(n1 - sig) <= 5.000001e-9 and abs(n2 - eps) <= 5.000001e-9, False
        ok = abs(n1 - 4 * eps * sig ** 6) <= 5.000001e-9 * max(1, abs(n1)) and \
            abs(n2 - 4 * eps * sig ** 12) <= 5.000001e-9 * max(1, abs(n2))
        swapped = toks[-2] == '%.8F' % (4 * sig * eps ** 6) and toks[-1] == '%.8F' % (4 * sig * eps ** 12)
        return ok or swapped, (not ok) and swapped

    for head, sig, eps, cond, group in want:
        want_stack = (cond,) if cond else ()
        cands = []
        for i, (toks, com, stack, grp) in enumerate(rows):
            if not used[i] and toks[:len(head)] == head and len(toks) == len(head) + 2:
                fits, swapped = numbers_fit(toks, sig, eps)
                if fits:
                    placed = stack[-1:] == want_stack[-1:] and not (not cond and stack) and grp == group
                    cands.append((not placed, i, swapped))
        hit = None
        if cands:
            # identical lines may stand for entries of different blocks: take the one in the right place first
            _, hit, swapped = min(cands)
            toks, com, stack, grp = rows[hit]
            used[hit] = True
            if swapped:
                exchanged += 1
            if stack[-1:] != want_stack[-1:] or (not cond and stack):
                errs.append('entry %r is written inside %r, its meta asks for %r' % (head, stack, cond))
            if grp != group:
                errs.append('entry %r follows group line %r, its meta asks for %r' % (head, grp, group))
        if hit is None:
            errs.append('table entry %r (sigma %r epsilon %r) is not written' % (head, sig, eps))
    finding = None
    if exchanged:
        errs.append('%d lines carry 4*sigma*eps^6 / 4*sigma*eps^12 instead of C6 = 4*eps*sigma^6, C12 = 4*eps*sigma^12'
                    % exchanged)
    if still_open:
        errs.append('%d conditional block(s) never closed (no #endif)' % still_open)
    only_known = [m for m in errs if not (m.startswith('%d lines carry' % exchanged) or m.endswith('(no #endif)'))]
    if errs and not only_known:
        if exchanged and not still_open:
            finding = 'F-C18-4'
        elif still_open and not exchanged:
            finding = 'F-C18-5'
        elif 'F-C18-4' in KNOWN_IDS and 'F-C18-5' in KNOWN_IDS:
            finding = 'F-C18-4'           # both at once: generated only when both entries are known
    return errs, finding


SYN_TYPES = ['mol_1', 'mol_2', 'mol_10', 'P2', 'SC1', 'go_3', 'W', 'x_y_z_7', 'Q5n']
SYN_CONDS = ['GO_VIRT', 'FLEXIBLE', 'A', 'a', 'B', 'GO', '']
SYN_GROUPS = ['Go bonds', 'water bias', 'A', 'a', 'z z', None, None, '']
DYADIC = [Fraction(n, d) for n in range(0, 13) for d in (1, 2, 4, 8)]


def gen_number(rng, c6):
    """-> a Python number; for C6C12 small dyadic values, so that 4*s*e**12 is exact in doubles"""
    k = rng.random()
    if c6:
        v = rng.choice(DYADIC)
        if k < 0.2:
            return int(v) if v.denominator == 1 else float(v)
        return float(v) * (rng.choice([1, 1, 1, -1]) if v else 1)          # never -0.0 (no exact rational)
    if k < 0.25:
        return rng.choice([0.0, 0, 1, 0.5, 9.414, 12.0, 2, 1e-9, 5e-9, 0.000000005, 123456.789, 1e22])
    if k < 0.5:
        return rng.uniform(0, 2) / 2 ** (1 / 6)
    if k < 0.6:
        return -rng.uniform(0, 1e-8)
    if k < 0.7:
        return rng.choice([1, 3, 5, 7, 9, 11, 13]) * 2.0 ** -rng.choice([9, 10, 11, 20, 30])     # exact ties at 8 decimals
    return rng.uniform(-3, 30)


def gen_meta(rng, conds):
    meta = {}
    k = rng.random()
    if conds and k < 0.35:
        meta['ifdef' if rng.random() < 0.6 else 'ifndef'] = rng.choice(SYN_CONDS)
    elif conds and k < 0.38:
        meta['ifdef'], meta['ifndef'] = rng.choice(SYN_CONDS), rng.choice(SYN_CONDS)      # ValueError
    g = rng.choice(SYN_GROUPS)
    if g is not None:
        meta['group'] = g
    k = rng.random()
    if k < 0.35:
        meta['comment'] = ['go bond %r' % rng.uniform(0.3, 1.2)]
    elif k < 0.45:
        meta['comment'] = rng.choice([[], ['a', 'b  c'], ['']])
    elif k < 0.5:
        meta['comment'] = rng.choice(['', 'abc', 'x y'])
    elif k < 0.53:
        meta['comment'] = None
    return meta


def gen_tables(rng):
    """-> (system, kind, c6): a system whose table `kind` is filled with generated entries"""
    c6 = rng.random() < 0.3 and 'F-C18-4' in KNOWN_IDS
    conds = 'F-C18-5' in KNOWN_IDS
    kind = rng.choice(['nb', 'nb', 'at'])
    system = vermouth.System()
    n = rng.choice([0, 1, 2, 3, 5, 8, 12])
    bad = rng.random() < 0.15
    if kind == 'nb':
        for _ in range(n):
            k = rng.random()
            atoms = tuple(rng.choice(SYN_TYPES) for _ in range(2 if k < 0.8 else (1 if k < 0.93 else 3)))
            if bad and rng.random() < 0.15:
                atoms = ()
            sig, eps = gen_number(rng, c6), gen_number(rng, c6)
            if bad and rng.random() < 0.15:
                sig = None
            system.gmx_topology_params['nonbond_params'].append(
                NonbondParam(atoms=atoms, sigma=sig, epsilon=eps, meta=gen_meta(rng, conds)))
    else:
        mol = vermouth.molecule.Molecule(nrexcl=1)
        for i in range(n):
            attrs = {'atype': rng.choice(SYN_TYPES), 'mass': rng.choice([0.0, 72.0, 36, 0, 54.5]),
                     'charge': rng.choice([0, 0, 0.0, 1, -1.0, 0.5])}
            if bad and rng.random() < 0.15:
                del attrs[rng.choice(['atype', 'mass', 'charge'])]
            mol.add_node(i, **attrs)
            node = i if not (bad and rng.random() < 0.1) else 1000 + i
            sig, eps = (0.0, 0.0) if rng.random() < 0.5 else (gen_number(rng, c6), gen_number(rng, c6))
            if bad and rng.random() < 0.15:
                eps = None
            meta = gen_meta(rng, conds)
            if meta.get('comment', 0) is None:
                del meta['comment']           # `'comment' in meta` with a None value: TypeError in join, not generated
            system.gmx_topology_params['atomtypes'].append(Atomtype(molecule=mol, node=node, sigma=sig, epsilon=eps,
                                                                    meta=meta))
    return system, kind, c6


def c6_exact(entries, c6):
    """the model computes 4*s*e**6 and 4*s*e**12 exactly; usable only when the doubles do too"""
    if not c6:
        return True
    for e in entries:
        s_, e_ = e.sigma, e.epsilon
        if s_ is None or e_ is None:
            continue
        for k in (6, 12):
            r_ = 4 * s_ * e_ ** k
            if Fraction(r_) != 4 * Fraction(s_) * Fraction(e_) ** k or (r_ == 0 and math.copysign(1, r_) < 0):
                return False          # inexact in doubles, or -0.0 (printed with its sign; not a rational)
    return True


def run_topology(system, c6, paths, defines):
    """write_gmx_topology in a scratch directory -> (files as [name, text] in the order atomtypes, nonbond_params;
    error kind; text of the .top or None)"""
    d = tempfile.mkdtemp(dir=TMP)
    cwd = os.getcwd()
    os.chdir(d)
    err = 'ok'
    try:
        try:
            write_gmx_topology(system, 'out.top', itp_paths=paths, C6C12=c6, defines=defines)
        except Exception as exc:
            err = err_name(exc)
        flush_writer()
        files = []
        if isinstance(paths, dict):
            for key in ('atomtypes', 'nonbond_params'):
                if key in paths and os.path.exists(paths[key]):
                    with open(paths[key], newline='') as f:
                        files.append([paths[key], f.read()])
        top = open('out.top').read() if os.path.exists('out.top') else None
        others = sorted(set(os.listdir(d)) - {'out.top'} - {f_[0] for f_ in files})
    finally:
        os.chdir(cwd)
        shutil.rmtree(d)
    return files, err, top, others


# ----------------------------------------------------------------------------
# histories: ONE processor object applied to several systems in a row
# ----------------------------------------------------------------------------
def run_history(specs, mode):
    """mode: 'pipeline' (one GoProcessorPipeline), 'sites' (one VirtualSiteCreator, new bias processor each
    time), 'bias' (one VirtualSiteCreator and one ComputeStructuralGoBias).
    -> (protocol line, impl string, errors, finding, per-system observations)"""
    par = specs[0]['params']
    if mode == 'pipeline':
        pl = GoProcessorPipeline([SetMoleculeMeta, VirtualSiteCreator, ComputeStructuralGoBias])
        make_runner = lambda: pipeline_runner(pl)
    elif mode == 'sites':
        vsc = VirtualSiteCreator(go_anchor_bead=par['backbone'], go_atomname=par['vsname'])
        make_runner = lambda: processors_runner(vsc, new_bias_processor(par))
    else:
        vsc, bias = VirtualSiteCreator(go_anchor_bead=par['backbone'], go_atomname=par['vsname']), new_bias_processor(par)
        make_runner = lambda: processors_runner(vsc, bias)
    # F-C18-3 (table never cleared) was fixed in /repo: the reused processor is compared with the model that
    # clears the table; only a `known` entry switches back to the carried-table model
    carried = mode == 'bias' and 'F-C18-3' in KNOWN_IDS
    impls, jobs, errs, observations = [], [], [], []
    finding, other = None, False
    for k, sp in enumerate(specs):
        ln, impl, obs = run_real(sp, runner=make_runner())
        _, impl_fresh, _ = run_real(sp)
        impls.append(impl)
        observations.append(obs)
        jobs.append([obs['atoms'], obs['pre_edges'], [list(c) for c in obs['contacts']]])
        if impl != impl_fresh:
            errs.append('application %d of a reused %s object differs from a fresh one: %s instead of %s'
                        % (k + 1, {'pipeline': 'GoPipeline', 'sites': 'VirtualSiteCreator',
                                   'bias': 'ComputeStructuralGoBias'}[mode], clip(impl[impl.index(' go '):], 200),
                           clip(impl_fresh[impl_fresh.index(' go '):], 200)))
            if mode == 'bias' and k >= 1 and 'F-C18-3' in KNOWN_IDS:
                finding = 'F-C18-3'
            else:
                other = True
        else:
            e, f, _ = oracle(sp, obs)
            if e and not f:
                other = True
            errs += e
    low, up = Fraction(*par['low']), Fraction(*par['up'])
    ln = line('gohist', 0 if carried else 1, par['prefix'], par['backbone'], par['vsname'], low.numerator,
              low.denominator, up.numerator, up.denominator, par['sep'], jobs)
    return ln, ' | '.join(impls), errs, (None if other else finding), observations


def run_unmerged(specs):
    """ONE application of VirtualSiteCreator + ComputeStructuralGoBias to a system of several molecules that is
    not merged (each spec contributes its single molecule; contact map and parameters of the first spec).
    Expected: every molecule is treated as by a fresh processor."""
    par, contacts = specs[0]['params'], [tuple(c) for c in specs[0]['contacts']]
    system = build_system({'molecules': [sp['molecules'][0] for sp in specs]})
    system.go_params['go_map'] = [list(contacts)]
    pres = [[(k, dict(a)) for k, a in m.nodes(data=True)] for m in system.molecules]
    jobs = [[dump_atoms(m), [[a, b] for a, b in m.edges], [list(c) for c in contacts]] for m in system.molecules]
    low, up = Fraction(*par['low']), Fraction(*par['up'])
    status = 'ok'
    try:
        processors_runner(VirtualSiteCreator(go_anchor_bead=par['backbone'], go_atomname=par['vsname']),
                          new_bias_processor(par))(system, par, low, up)
    except SystemExit:
        status = 'exit'
    except KeyError:
        status = 'keyerror'
    except (ValueError, TypeError, IndexError, AttributeError) as exc:
        status = 'raised-' + type(exc).__name__
    nb = list(system.gmx_topology_params['nonbond_params'])
    impls, errs = [], []
    if status.startswith('raised-'):
        errs.append('VirtualSiteCreator / ComputeStructuralGoBias stopped with %s on an unmerged system' % status[7:])
    for m, pre, sp in zip(system.molecules, pres, specs):
        n_ex = len(m.interactions.get('exclusions', []))
        impl, _, _, _ = canon(m, pre, 0, 0, nb[:n_ex], status)
        nb = nb[n_ex:]
        impls.append(impl)
        one = dict(sp, contacts=[list(c) for c in contacts], params=par, molecules=[sp['molecules'][0]])
        _, fresh, _ = run_real(one)
        if impl != fresh:
            errs.append('molecule of an unmerged system is treated differently from a system of its own: %s instead of %s'
                        % (clip(impl[impl.index(' go '):], 200), clip(fresh[fresh.index(' go '):], 200)))
    ln = line('gohist', 1, par['prefix'], par['backbone'], par['vsname'], low.numerator, low.denominator,
              up.numerator, up.denominator, par['sep'], jobs)
    return ln, ' | '.join(impls), errs


# ----------------------------------------------------------------------------
# contact-map files
# ----------------------------------------------------------------------------
SEP = [' ', '  ', '     ', '\t', ' \t ']
GOOD_INT = ['%d', '%d', '%d', '+%d', '00%d', '%d']
BAD_INT = ['1A', '3.0', 'x', '--1', '1e2', '0x1', '1__0', '_1', '']


def gen_map(rng):
    """-> (file text, expected result computed from the way the file was built)"""
    rows, declared, bad = [], [], False
    for _ in range(rng.choice([0, 1, 2, 3, 5, 8, 12])):
        kind = rng.choice(['sel', 'sel', 'sel', 'sel', 'unsel', 'comment', 'header', 'short', 'long', 'blank',
                           'badint', 'badint-unsel', 'lower'])
        ra, rb = rng.choice([1, 5, 12, 130, -3, 0]), rng.choice([2, 7, 44, 1001, -1])
        ca, cb = rng.choice(['A', 'B', 'AB', '_', '1', 'Z']), rng.choice(['A', 'B', 'C', 'x'])
        fa, fb = (rng.choice(GOOD_INT) % ra), (rng.choice(GOOD_INT) % rb)
        if fa.startswith('+-') or fa.startswith('00-') or fb.startswith('+-') or fb.startswith('00-'):
            fa, fb = str(ra), str(rb)
        if rng.random() < 0.05 and ra >= 10:
            fa = str(ra)[0] + '_' + str(ra)[1:]          # int('1_2') == 12
        flags = rng.choice([['1', '1', '0', '1'], ['1', '0', '0', '0'], ['0', '1', '1', '1'], ['0', '0', '0', '1']])
        if kind in ('unsel', 'badint-unsel'):
            flags = rng.choice([['0', '1', '1', '0'], ['2', '0', '0', '1'], ['0', '0', '0', '0'], ['11', '1', '1', '1']])
        toks = ['R', str(len(rows)), '7', 'ALA', ca, fa, '8', 'GLY', cb, fb, '%.4f' % rng.uniform(3, 9)] + flags \
            + ['11', '369', '0']
        if kind in ('badint', 'badint-unsel'):
            b = rng.choice([t for t in BAD_INT if t])
            toks[rng.choice([5, 9])] = b
        if kind == 'short':
            toks = toks[:rng.choice([1, 6, 17])]
        elif kind == 'long':
            toks = toks + ['extra']
        elif kind == 'lower':
            toks[0] = rng.choice(['r', 'RR', 'R:', '#R'])
        elif kind == 'comment':
            toks = ['#', 'R', 'comment'] if rng.random() < 0.5 else ['Reading', 'file:', '../aa.pdb']
        elif kind == 'header':
            toks = ['Residue-Residue', 'Contacts']
        elif kind == 'blank':
            toks = []
        text = rng.choice(['', '', ' ', '\t', '   ']) + ''.join(t + rng.choice(SEP) for t in toks[:-1]) \
            + (toks[-1] if toks else '') + rng.choice(['', '', ' ', ' \t'])
        rows.append(text)
        if kind == 'sel' and not bad:
            declared.append([ra, ca, rb, cb])
        if kind == 'badint':
            bad = True
    nl = rng.choice(['\n', '\n', '\n', '\r\n', '\r'])
    text = nl.join(rows) + rng.choice(['', nl])
    if bad:
        want = 'valueerror'
    elif not declared:
        want = 'ioerror'
    else:
        want = 'ok ' + enc(declared)
    return text, want


def run_map(text):
    path = os.path.join(TMP, 'gen.map')
    with open(path, 'wb') as f:
        f.write(text.encode('ascii'))
    system = vermouth.System()
    try:
        read_go_map(system, path)
    except ValueError:
        return 'valueerror'
    except IOError:
        return 'ioerror'
    got = system.go_params['go_map']
    if len(got) != 1:
        return 'go_map has %d entries' % len(got)
    return 'ok ' + enc([list(c) for c in got[0]])


# ----------------------------------------------------------------------------
# generator
# ----------------------------------------------------------------------------
SECTIONS = ['bonds', 'angles', 'constraints', 'dihedrals', 'virtual_sites2', 'virtual_sites3', 'virtual_sitesn', 'exclusions',
            'pairs', 'position_restraints']
GO_EXCL_META = {'group': 'Go model exclusion'}


def gen_interactions(rng, atoms, dummies):
    """interactions a molecule carries before the Go pipeline runs: [[section, [[atoms, parameters, meta]...]]...]
    (sections in insertion order; `dummies` = keys of real particles that are constructed sites of the input)"""
    bbs = [k for k, a in atoms if a['atomname'] == 'BB']
    scs = [k for k, a in atoms if a['atomname'].startswith('SC')]
    allk = [k for k, _ in atoms]
    res_of = {k: (a['chain'], a['resid']) for k, a in atoms}
    table = {}

    def add(name, atoms_, params, meta):
        table.setdefault(name, []).append([list(atoms_), list(params), dict(meta)])
    for d in dummies:
        # a constructed site of the input (dummy / charge site of a custom residue), built from the backbone bead of its
        # residue, from side-chain beads, or from both; sometimes from beads of other residues too
        mine_bb = [k for k in bbs if res_of[k] == res_of[d]]
        mine_sc = [k for k in scs if res_of[k] == res_of[d]]
        k_ = rng.random()
        if k_ < 0.45 and mine_bb:
            frm = [mine_bb[0]]
        elif k_ < 0.75 and mine_bb and mine_sc:
            frm = [mine_bb[0]] + mine_sc[:rng.choice([1, 2])]
            if rng.random() < 0.3:
                frm.reverse()
        elif mine_sc:
            frm = mine_sc[:]
        else:
            frm = rng.sample(allk, min(len(allk), 2))
        if rng.random() < 0.2 and len(bbs) >= 2:
            frm = frm + [rng.choice(bbs)]
        frm = [k for i, k in enumerate(frm) if k != d and k not in frm[:i]]
        if frm:
            add('virtual_sitesn', [d] + frm, rng.choice([['1'], ['1'], ['2'], ['3', '0.5']]),
                rng.choice([{}, {}, {'comment': 'dummy site'}, {'go_vs': True, 'group': 'Virtual go site'}]))
    for _ in range(rng.choice([0, 1, 1, 2, 4])):
        name = rng.choice(SECTIONS)
        n = {'bonds': 2, 'constraints': 2, 'pairs': 2, 'exclusions': 2, 'angles': 3, 'dihedrals': 4, 'virtual_sites2': 3,
             'virtual_sites3': 4, 'position_restraints': 1}.get(name, rng.choice([2, 3]))
        if name == 'virtual_sitesn' and bbs and scs:
            if rng.random() < 0.7:
                # an existing bead declared a site constructed from a backbone bead
                add(name, [rng.choice(scs), rng.choice(bbs)], ['1'], {})
            else:
                # a backbone bead that is itself a constructed site
                add(name, [rng.choice(bbs)] + rng.sample(scs, min(len(scs), 2)), ['1'], {})
            continue
        pool = bbs if (name == 'exclusions' and len(bbs) >= 2 and rng.random() < 0.8) else allk
        if len(pool) < n:
            continue
        add(name, rng.sample(pool, n), {'exclusions': []}.get(name, rng.choice([['1', '0.35', '1250'], ['1'], []])),
            rng.choice([{}, {}, {'group': 'Backbone bonds'}, dict(GO_EXCL_META), {'ifdef': 'FLEXIBLE'}]))
    if rng.random() < 0.15:
        table.setdefault(rng.choice(['exclusions', 'virtual_sitesn', 'bonds']), [])          # a section that exists and is empty
    items = list(table.items())
    rng.shuffle(items)
    return [[name, its] for name, its in items]


def gen_spec(rng, want=None, chain_ids=None, extras=False):
    """want: None | 'resid-clash' | 'prefix-clash' | 'dup-key' | 'repeat' | 'no-bb'
    extras: molecules that already carry interactions, a system whose parameter tables already hold entries, real
    particles named like the Go sites, mass/charge attributes, and the legal falsy / boundary values (resid <= 0,
    chain None, _old_resid None, a molecule without backbone bead, cut-offs that are equal / zero / negative)"""
    nmol = rng.choice([1, 1, 2, 2, 3])
    chain_ids = chain_ids or rng.sample(['A', 'B', 'C', 'D', 'E', 'F', ''] + ([None, None] if extras else []), 6)
    vsname = rng.choice(['CA', 'CA', 'VS', 'GO'])
    with_inter = extras and rng.random() < 0.8
    molecules = []
    residues = []        # (chain, old_resid, mol index)
    pos = (rng.randint(0, 3), rng.randint(0, 3), rng.randint(0, 3))
    ci = 0
    for mi in range(nmol):
        nchains = rng.choice([1, 1, 2])
        atoms, edges = [], []
        keymode = rng.choice(['one', 'zero', 'sparse', 'sparse']) if mi == 0 else rng.choice(['one', 'zero', 'sparse'])
        key = {'one': 1, 'zero': 0, 'sparse': rng.randint(0, 9)}[keymode]
        resid = rng.choice([1, 1, 1, 3])
        if extras and mi == 0 and rng.random() < 0.3:
            resid = rng.choice([0, 0, -1, -4])           # legal residue numbers (later molecules are offset by the merge)
        with_cg = rng.choice([True, True, False])
        cg = rng.randint(1, 3)
        sc_beads = []
        dummies = []
        nobb_mol = extras and nmol >= 2 and rng.random() < 0.08     # a ligand / ion molecule among the chains
        with_mass = extras and rng.random() < 0.5
        for _ in range(nchains):
            chain = chain_ids[ci % len(chain_ids)]
            ci += 1
            if want == 'dup-key' and ci == 2:
                chain = chain_ids[0]
            nres = rng.randint(1, 6)
            old = rng.choice([1, 1, 1, 2, 7, 40, -2])
            prev_bb = None
            for _r in range(nres):
                resname = rng.choice(RESNAMES)
                step = rng.choice(STEPS)
                pos = (pos[0] + step[0], pos[1] + step[1], pos[2] + step[2])
                nsc = rng.choice([0, 1, 1, 2])
                names = ['BB'] + ['SC%d' % (i + 1) for i in range(nsc)]
                if (want == 'no-bb' and rng.random() < 0.3) or nobb_mol:
                    names = ['ION']
                elif want == 'two-bb' and rng.random() < 0.3:
                    names = ['BB', 'BB']
                if with_inter and rng.random() < 0.3:
                    # a real particle that is a constructed site of the INPUT, sometimes named like the Go sites
                    names = names + [rng.choice(['D1', 'D1', vsname, vsname, 'BBd'])]
                ss = rng.choice([None, 'H', 'E', 'C'])
                prev = None
                old_here = old
                if extras and rng.random() < 0.03:
                    old_here = None                  # what do_mapping stores when no constructing atom had a resid
                for ni, an in enumerate(names):
                    attrs = {'atomname': an, 'resid': resid, '_old_resid': old_here, 'resname': resname, 'chain': chain,
                             'atype': rng.choice(BB_TYPES if an == 'BB' else SC_TYPES),
                             'position': list(pos) if an == 'BB' else [pos[0], pos[1] + (1 if an == 'SC1' else 2), pos[2]]}
                    if ni >= 1 and not an.startswith('SC') and an != 'BB':
                        dummies.append(key)
                        attrs['atype'] = rng.choice(['D', 'TC4', 'U'])
                        if rng.random() < 0.7:
                            attrs['mass'] = 0.0
                    elif with_mass and rng.random() < 0.8:
                        attrs['mass'] = rng.choice([72.0, 54.0, 36.0, 72])
                        if rng.random() < 0.8:
                            attrs['charge'] = rng.choice([0.0, 0, 1.0, -1.0, 0.5])
                    if extras and an != 'BB' and rng.random() < 0.01:
                        del attrs['_old_resid']      # only backbone beads are read with atom['_old_resid']
                    if with_cg or (rng.random() < 0.1):
                        attrs['charge_group'] = cg
                        cg += rng.choice([1, 1, 2])
                    if ss is not None and rng.random() < 0.9:
                        attrs['cgsecstruct'] = ss
                    atoms.append([key, attrs])
                    if an == 'BB' and prev_bb is not None and prev is None:
                        if rng.random() < 0.93:
                            edges.append([prev_bb, key])
                    if prev is not None and an != 'BB':
                        edges.append([prev, key])
                    if an.startswith('SC'):
                        sc_beads.append(key)
                    if an == 'BB' and prev is None:
                        prev_bb = key
                    prev = key
                    key += 1 if keymode != 'sparse' else rng.choice([1, 1, 2, 4])
                if old_here is not None and not (nobb_mol and rng.random() < 0.7):
                    residues.append((chain, old, mi))
                old += rng.choice([1, 1, 1, 1, 2, 5])
                if want == 'resid-clash' and rng.random() < 0.4:
                    resid -= rng.choice([0, 1])
                resid += 1
            if want == 'resid-clash' and rng.random() < 0.5:
                resid = 1
        # cross-links (disulfide-like) inside the molecule, also between its chains
        for _ in range(rng.choice([0, 0, 1, 2])):
            cand = sc_beads if len(sc_beads) >= 2 and rng.random() < 0.8 else [k for k, _ in atoms]
            if len(cand) >= 2:
                a, b = rng.sample(cand, 2)
                edges.append([a, b])
        inter = gen_interactions(rng, atoms, dummies) if with_inter else []
        if mi == 0 and rng.random() < 0.15:
            # node order != key order in the first molecule (later ones are renumbered by the merge)
            rng.shuffle(atoms)
        molecules.append({'atoms': atoms, 'edges': edges, 'interactions': inter})
    # ---- contacts ----------------------------------------------------------------
    uniq = sorted(set((c, r) for c, r, _ in residues), key=lambda t: (t[0] is None, t[0] or '', t[1]))
    if not uniq:
        uniq = [('A', 1)]
    contacts = []
    npairs = rng.choice([0, 1, 2, 3, 4, 6, 8, 12, 16])
    pairs = set()
    for _ in range(npairs):
        k = rng.random()
        a = rng.choice(uniq)
        b = rng.choice(uniq)
        if k < 0.07:
            b = (b[0], b[1] + rng.choice([50, 100, -60]))          # absent residue
        elif k < 0.12:
            b = ('Z', b[1])                                         # absent chain
        elif k < 0.15:
            b = a                                                   # self contact
        if (a, b) in pairs or (b, a) in pairs:
            continue
        pairs.add((a, b))
        k = rng.random()
        fw, bw = (a[1], a[0], b[1], b[0]), (b[1], b[0], a[1], a[0])
        if k < 0.62:
            contacts += [fw, bw] if fw != bw else [fw]
        elif k < 0.81:
            contacts.append(fw)
        else:
            contacts.append(bw)
    rng.shuffle(contacts)
    if with_inter:
        # exclusions that exist already between exactly the backbone beads a Go contact will exclude (either orientation)
        for m in molecules:
            bb_here = {}
            for k_, a in m['atoms']:
                if a['atomname'] == 'BB':
                    bb_here.setdefault((a['chain'], a.get('_old_resid')), k_)
            extra = []
            for ra, ca, rb, cb in contacts:
                if (ca, ra) in bb_here and (cb, rb) in bb_here and bb_here[(ca, ra)] != bb_here[(cb, rb)] \
                        and rng.random() < 0.25:
                    extra.append([[bb_here[(ca, ra)], bb_here[(cb, rb)]], [],
                                  rng.choice([dict(GO_EXCL_META), dict(GO_EXCL_META), {}])])
            if extra:
                for sec in m['interactions']:
                    if sec[0] == 'exclusions':
                        sec[1].extend(extra)
                        break
                else:
                    m['interactions'].insert(rng.randint(0, len(m['interactions'])), ['exclusions', extra])
    if want == 'repeat' and contacts:
        for _ in range(rng.randint(1, 3)):
            contacts.insert(rng.randint(0, len(contacts)), rng.choice(contacts))
    # ---- parameters: cut-offs often exactly on an occurring distance ----------------
    bbpos = {}
    for m in molecules:
        for _, a in m['atoms']:
            if a['atomname'] == 'BB':
                bbpos.setdefault((a['chain'], a.get('_old_resid')), a['position'])
    d2s = []
    for ra, ca, rb, cb in contacts:
        if (ca, ra) in bbpos and (cb, rb) in bbpos:
            d2s.append(sum((x - y) ** 2 for x, y in zip(bbpos[(ca, ra)], bbpos[(cb, rb)])))
    squares = [d for d in d2s if d > 0 and math.isqrt(d) ** 2 == d]

    def cut(kind):
        k = rng.random()
        if k < 0.3:
            k = 2.0   # wide window: the other filters decide
        if squares and k < 0.6:
            return [math.isqrt(rng.choice(squares)), 1]
        if d2s and k < 0.85:
            q = rng.choice([1, 2, 4])
            base = math.sqrt(rng.choice(d2s))
            return [max(0, int(base * q) + rng.choice([-1, 0, 1, 2] if kind == 'up' else [-2, -1, 0, 1])), q]
        if kind == 'low':
            return rng.choice([[0, 1], [1, 2], [1, 1], [3, 2], [-1, 1], [5, 4]])
        return rng.choice([[6, 1], [9, 2], [12, 1], [25, 4], [3, 1], [100, 1]])
    low, up = cut('low'), cut('up')
    if rng.random() < 0.6 and Fraction(*low) >= Fraction(*up):
        low = rng.choice([[0, 1], [1, 2], [1, 1]])
    if extras:
        # boundary values of the window: a negative lower cut-off means "no lower bound", a zero or negative upper
        # cut-off admits nothing, equal cut-offs admit nothing
        k = rng.random()
        if k < 0.06:
            low = rng.choice([[-1, 1], [-3, 2], [-6, 1], [0, 1]])
        elif k < 0.10:
            up = rng.choice([[0, 1], [-1, 1], [-5, 4], [-12, 1]])
        elif k < 0.13:
            low = list(up)
        elif k < 0.15:
            low, up = rng.choice([[[-2, 1], [-1, 1]], [[-1, 1], [-2, 1]], [[-9, 1], [0, 1]]])
    prefix = rng.choice(SAFE_PREFIX)
    if want == 'prefix-clash':
        prefix = rng.choice(CLASH_PREFIX)
    sys_pre = None
    if extras and rng.random() < 0.3:
        sys_pre = {'atomtypes': rng.choice([None, 0, 1, 3]), 'nonbond_params': rng.choice([None, 0, 1, 2])}
    params = {'prefix': prefix, 'backbone': 'BB', 'vsname': vsname,
              'low': low, 'up': up, 'sep': rng.choice([0, 0, 1, 1, 2, 2, 3, 4]) if rng.random() < 0.97 else -1,
              'eps': rng.choice([9.414, 12.0, 2.1, 0.5, 0.5, 0, 0.0, -1.5])}  # 0 and 0.0 are legal (falsy) depths
    spec = {'molecules': molecules, 'contacts': [list(c) for c in contacts], 'params': params}
    if sys_pre:
        spec['sys'] = sys_pre
    return spec


# ----------------------------------------------------------------------------
# run
# ----------------------------------------------------------------------------
specs = []
for path in sorted(glob.glob(os.path.join(VERIF, 'corpus', 'c18_*.json'))):
    data = json.load(open(path))
    for i, sp in enumerate(data.get('cases', [])):
        if sp.get('requires_known') and sp['requires_known'] not in KNOWN_IDS:
            chk.count('corpus_case_needs_known_finding_entry')
            continue
        specs.append(('corpus-%s-%d' % (os.path.basename(path)[4:-5], i), sp))
rng = chk.rng('go')
N = 30000 if chk.thorough else 2500
for i in range(N):
    k = rng.random()
    want = None
    if k < 0.04:
        want = 'dup-key'
    elif k < 0.08:
        want = 'repeat'
    elif k < 0.11:
        want = 'no-bb'
    elif k < 0.14:
        want = 'two-bb'
    elif k < 0.17:
        want = 'resid-clash' if 'F-C18-1' in KNOWN_IDS else None
        if want is None:
            chk.count('stream_resid_clash_disabled(no F-C18-1 entry)')
    elif k < 0.20:
        want = 'prefix-clash' if 'F-C18-2' in KNOWN_IDS else None
        if want is None:
            chk.count('stream_prefix_clash_disabled(no F-C18-2 entry)')
    specs.append(('go-%d' % i, gen_spec(rng, want, extras=rng.random() < 0.4)))

def file_route_ok(sp):
    return bool(sp['contacts']) and all(isinstance(c[1], str) and isinstance(c[3], str) and c[1].strip() == c[1] != ''
                                        and c[3].strip() == c[3] != '' and ' ' not in c[1] + c[3]
                                        for c in sp['contacts'])


lines, impls, meta = [], [], []
for n_, (cid, sp) in enumerate(specs):
    via_file = n_ % 3 == 0 and file_route_ok(sp)
    if via_file:
        chk.count('contact_list_read_by_read_go_map')
    ln, impl, obs = run_real(sp, via_file=via_file)
    obs['order_sensitive'] = order_sensitive(sp, obs)
    if n_ % 25 == 0:
        # the short cut of residue_member_orders against the sub-graphs make_residue_graph really builds
        rg_ = make_residue_graph(obs['mol'])
        same_ = sorted(tuple(rg_.nodes[r]['graph'].nodes) for r in rg_.nodes) == sorted(tuple(m) for m in obs['member_orders'])
        chk.count('member_orders_checked_against_make_residue_graph' if same_ else 'HARNESS-ERROR:member_orders_differ')
        assert same_, 'residue_member_orders differs from make_residue_graph'
    # the result may depend on the set order in which networkx iterates a residue with two backbone beads / two
    # prefix-matching types: the observed order is handed to the model (lean/VermouthModel/C18_Order.lean)
    orders = residue_orders(obs) if obs['order_sensitive'] else []
    obs['writer_errs'] = obs['files'] = None
    plain = all(a[3] is not None and a[5] is not None for a in obs['atoms']) and not obs['pre_at'] and not obs['pre_nb'] \
        and all(c[1] is not None and c[3] is not None for c in obs['contacts'])
    if n_ % 3 == 1 and obs['status'] == 'ok' and not obs['order_sensitive'] and plain:
        obs['files'] = go_files(ln, sp, obs)
        obs['writer_errs'] = writer_oracle(obs, obs['files'][2], obs['files'][3])
    # every case goes to the model that threads the WHOLE state (interaction table, parameter tables): op `gox`
    ln = line('gox', *obs['x_args'], orders, obs['pre_table'],
              None if obs['pre_at'] is None else len(obs['pre_at']), None if obs['pre_nb'] is None else len(obs['pre_nb']))
    impl = obs['implx']
    lines.append(ln)
    impls.append(impl)
    meta.append((cid, sp, obs))
models = chk.drv.ask(lines) if chk.lean_ok else [None] * len(lines)
for ln, impl, mo, (cid, sp, obs) in zip(lines, impls, models, meta):
    errs, finding, flags = oracle(sp, obs)
    contacts = obs['contacts']
    listed = set(contacts)
    keys = {(a['chain'], a.get('_old_resid')) for _, a in obs['pre']}
    present = [c for c in contacts if (c[1], c[0]) in keys and (c[3], c[2]) in keys and (c[0], c[1]) != (c[2], c[3])]
    n_sym = sum(1 for c in present if (c[2], c[3], c[0], c[1]) in listed)
    n_one = sum(1 for c in present if (c[2], c[3], c[0], c[1]) not in listed)
    nontriv = n_sym >= 1 and n_one >= 1
    if obs['order_sensitive']:
        chk.count('compared_with_model_given_observed_subgraph_order')
    chk.count('status_' + obs['status'])
    # ---- what the molecule / the system carried before the pipeline ran, and the boundary values present ----
    par_ = sp['params']
    bb_keys = {a[0] for a in obs['atoms'] if a[1] == par_['backbone']}
    for name, items in obs['pre_table']:
        if not items:
            chk.count('pre:section_present_and_empty')
        for atoms_, tag_ in items:
            if name == 'virtual_sitesn':
                frm = set(atoms_[1:])
                chk.count('pre:virtual_sitesn_built_from_' + ('backbone_bead' if frm and frm <= bb_keys else
                                                            'side_chain_beads' if not frm & bb_keys else 'backbone_and_side_chain'))
            elif name.startswith('virtual_sites'):
                chk.count('pre:other_virtual_site_section')
            elif name == 'exclusions':
                if set(atoms_) <= bb_keys:
                    chk.count('pre:exclusion_between_backbone_beads')
                if any(sorted(it.atoms) == sorted(atoms_) for it in obs['excl']):
                    chk.count('pre:exclusion_of_a_pair_the_go_model_excludes_too(written_again)')
            else:
                chk.count('pre:bonded_section')
    if obs['pre_at']:
        chk.count('pre:atomtypes_table_has_entries')
    if obs['pre_nb']:
        chk.count('pre:nonbond_params_table_has_entries')
    if obs['pre_at'] == [] or obs['pre_nb'] == []:
        chk.count('pre:parameter_table_present_and_empty')
    if any(a[1] == par_['vsname'] for a in obs['atoms']):
        chk.count('pre:real_particle_named_like_the_sites')
    if any('mass' in a for _, a in obs['pre']):
        chk.count('pre:beads_with_mass_attribute')
    if any('mass' not in a for k, a in obs['pre'] if k in bb_keys):
        chk.count('pre:backbone_bead_without_mass_attribute')
    seen_ = set()
    for a in obs['atoms']:
        if a[2] <= 0:
            seen_.add('resid<=0')
        if a[5] is None:
            seen_.add('chain=None')
        elif a[5] == '':
            seen_.add("chain=''")
        if a[3] is None:
            seen_.add('_old_resid=None_or_missing')
        elif a[3] == 0:
            seen_.add('_old_resid=0')
        if a[7] is None:
            seen_.add('bead_without_charge_group')
    for flag, label in ((all(a[7] is None for a in obs['atoms']), 'no_charge_group_at_all'),
                        (par_['sep'] == 0, 'res_dist=0'), (obs['low'] == obs['up'], 'cutoffs_equal'),
                        (obs['low'] < 0, 'cutoff_short<0'), (obs['up'] < 0, 'cutoff_long<0'),
                        (obs['up'] == 0, 'cutoff_long=0'), (obs['low'] == 0, 'cutoff_short=0'),
                        (obs['low'] > obs['up'], 'cutoff_short>cutoff_long'), (par_['eps'] == 0, 'go_eps=0'),
                        (not obs['contacts'], 'empty_contact_list')):
        if flag:
            seen_.add(label)
    named_ = {}
    for c in obs['contacts']:
        for x in ((c[1], c[0]), (c[3], c[2])):
            named_[x] = named_.get(x, 0) + 1
        if c[0] == c[2] and c[1] == c[3]:
            seen_.add('contact_of_a_residue_with_itself')
    if named_ and max(named_.values()) > 2:
        seen_.add('residue_named_by_several_contacts')
    for label in sorted(seen_):
        chk.count('boundary:' + label)
    if len(sp['molecules']) > 1 and any(not any(a['atomname'] == par_['backbone'] for _, a in m['atoms'])
                                        for m in sp['molecules']):
        chk.count('boundary:molecule_without_backbone_bead_among_others')
    chk.count('n_emitted=%d' % min(len(obs['nb']), 4))
    chk.count('n_sites=%s' % ('0' if not obs['new'] else '1-5' if len(obs['new']) <= 5 else '6+'))
    chk.count('n_molecules=%d' % len(sp['molecules']))
    for f in sorted(flags):
        chk.count(('case_has:' + f[1:]) if f.startswith('#') else ('go_oracle_not_applied:' + f))
    flags = {f for f in flags if not f.startswith('#')}
    if obs['status'] == 'ok' and not flags:
        par = sp['params']
        bbp = {}
        for _, a in obs['pre']:
            if a['atomname'] == par['backbone']:
                bbp.setdefault((a['chain'], a.get('_old_resid')), a['position'])
        for c in present:
            d2 = sum(int(round(x - y)) ** 2 for x, y in zip(bbp[(c[1], c[0])], bbp[(c[3], c[2])])) \
                if (c[1], c[0]) in bbp and (c[3], c[2]) in bbp else None
            if d2 is not None and (Fraction(d2) == obs['low'] ** 2 or Fraction(d2) == obs['up'] ** 2):
                chk.count('contact_exactly_on_a_cutoff')
    if obs['file_err']:
        errs = errs + [obs['file_err']]
    if obs['writer_errs'] is not None:
        chk.count('written_files_checked')
        errs = errs + obs['writer_errs']
    if finding:
        chk.count('finding_' + finding)
    chk.case(cid, ln, impl, mo, errs, nontriv, finding=finding)
    obs['model_compared'] = mo is not None

# ---- the files written for these results: model of the pipeline + model of the writers, byte for byte ----
fjobs = [(cid, obs) for cid, sp, obs in meta if obs['files'] is not None]
fmodels = chk.drv.ask([obs['files'][0] for _, obs in fjobs]) if chk.lean_ok else [None] * len(fjobs)
for (cid, obs), mo in zip(fjobs, fmodels):
    fl, fimpl, _, _, ferrs = obs['files']
    if not obs['model_compared']:
        mo = None                           # residue sub-graph iterated in set order: the pipeline model is not applicable
    chk.count('go_files_compared_bytewise' if mo is not None else 'go_files_oracle_only')
    chk.count('go_files_pairs=%d' % min(len(obs['nb']), 4))
    chk.case(cid + '-files', fl, fimpl, mo, ferrs, len(obs['nb']) >= 1)

# ---- histories: one processor object, several systems ---------------------------------------
hists = []
for path in sorted(glob.glob(os.path.join(VERIF, 'corpus', 'c18_*.json'))):
    for i, h in enumerate(json.load(open(path)).get('histories', [])):
        if h.get('requires_known') and h['requires_known'] not in KNOWN_IDS | FIXED_IDS:
            chk.count('corpus_case_needs_known_finding_entry')
            continue
        hists.append(('corpus-%s-hist-%d' % (os.path.basename(path)[4:-5], i), h['mode'], h['specs']))
rng = chk.rng('history')
NH = 2400 if chk.thorough else 200
for i in range(NH):
    mode = rng.choice(['pipeline', 'sites', 'bias', 'bias', 'unmerged'])
    cids = rng.sample(['A', 'B', 'C', 'D', 'E', 'F', ''], rng.choice([2, 3, 6])) if rng.random() < 0.8 else None
    hs = [gen_spec(rng, chain_ids=cids and rng.sample(cids, len(cids))) for _ in range(rng.choice([2, 2, 3]))]
    for sp in hs[1:]:
        sp['params'] = hs[0]['params']
    if rng.random() < 0.12:
        # a molecule without atoms: add_virtual_sites returns at once, nothing is selected
        k_ = rng.randrange(len(hs))
        hs[k_] = dict(hs[k_], molecules=[{'atoms': [], 'edges': []}])
        chk.count('history_with_empty_molecule')
    hists.append(('hist-%d' % i, mode, hs))
hl, hmeta = [], []
for cid, mode, hs in hists:
    if mode == 'unmerged':
        ln, impl, errs = run_unmerged(hs)
        finding, observations = None, []
    else:
        ln, impl, errs, finding, observations = run_history(hs, mode)
    hl.append(ln)
    hmeta.append((cid, mode, hs, impl, errs, finding, observations))
hmodels = chk.drv.ask(hl) if chk.lean_ok else [None] * len(hl)
for ln, mo, (cid, mode, hs, impl, errs, finding, observations) in zip(hl, hmodels, hmeta):
    if any(order_sensitive(sp, obs) for sp, obs in zip(hs, observations)):
        chk.count('excluded_from_model_comparison:subgraph_set_order')
        mo = None
    chk.count('history_mode_' + mode)
    chk.count('history_length=%d' % len(hs))
    if finding:
        chk.count('finding_' + finding)
    if mode == 'bias' and observations:
        chk.count('reused_bias_aborted' if any(o['status'] != 'ok' for o in observations[1:]) else 'reused_bias_ok')
    chk.case(cid, ln, impl, mo, errs, sum(1 for o in observations if o['nb']) >= 1 or mode == 'unmerged', finding=finding)

# ---- contact-map files ------------------------------------------------------------------------
rng = chk.rng('map')
texts = []
for path in sorted(glob.glob(os.path.join(VERIF, 'corpus', 'c18_*.json'))):
    for m in json.load(open(path)).get('maps', []):
        texts.append((m['text'], m.get('want')))
for i in range(12000 if chk.thorough else 1500):
    texts.append(gen_map(rng))
ml = [line('gomap', t) for t, _ in texts]
mimpl = [run_map(t) for t, _ in texts]
mmodels = chk.drv.ask(ml) if chk.lean_ok else [None] * len(ml)
for i, ((t, want), ln, im, mo) in enumerate(zip(texts, ml, mimpl, mmodels)):
    errs = []
    if want is not None and im != want:
        errs.append('read_go_map gives %s, the file declares %s' % (clip(im, 200), clip(want, 200)))
    chk.count('map_' + im.split()[0])
    chk.case('map-%d' % i, ln, im, mo, errs, im.startswith('ok') and ('\t' in t or '#' in t or 'Residue' in t))

# ---- generated parameter tables through the two writers -----------------------------------------------------
rng = chk.rng('tables')
tl, tmeta = [], []
for i in range(12000 if chk.thorough else 900):
    system, kind, c6 = gen_tables(rng)
    key = 'nonbond_params' if kind == 'nb' else 'atomtypes'
    entries = list(system.gmx_topology_params[key])
    if not c6_exact(entries, c6):
        chk.count('table_c6c12_not_exact_in_doubles(excluded)')
        continue
    fn = write_nonbond_params if kind == 'nb' else write_atomtypes
    text, err = call_writer(fn, system, c6, 'x.itp')
    tl.append(line('wnb' if kind == 'nb' else 'wat', c6, [(nb_enc if kind == 'nb' else at_enc)(e) for e in entries]))
    tmeta.append((i, kind, c6, entries, text, err))
tmodels = chk.drv.ask(tl) if chk.lean_ok else [None] * len(tl)
for ln, mo, (i, kind, c6, entries, text, err) in zip(tl, tmodels, tmeta):
    errs, finding = table_oracle(kind, entries, c6, text, err)
    chk.count('table_%s_%s%s' % (kind, err, '_c6c12' if c6 else ''))
    conds = {(e.meta.get('ifdef'), e.meta.get('ifndef')) for e in entries} - {(None, None)}
    chk.count('table_conditional_blocks=%d' % min(len(conds), 3))
    if finding:
        chk.count('finding_' + finding)
    chk.case('table-%d' % i, ln, enc(text) + ' ' + err, mo, errs,
             err == 'ok' and len(entries) >= 2 and len({(e.meta.get('group'), e.meta.get('ifdef')) for e in entries}) >= 2,
             finding=finding)

# ---- write_gmx_topology: which parameter files, where ---------------------------------------------------------
rng = chk.rng('topology')
pl_, pmeta = [], []
for i in range(1500 if chk.thorough else 120):
    system, kind, c6 = gen_tables(rng)
    other, _, _ = gen_tables(rng)
    for key in ('atomtypes', 'nonbond_params'):
        if key in other.gmx_topology_params and key not in system.gmx_topology_params and rng.random() < 0.7:
            system.gmx_topology_params[key] = other.gmx_topology_params[key]
    if rng.random() < 0.1:
        system.gmx_topology_params['atomtypes']           # the defaultdict creates an empty table on access
    ents = [e for key in ('atomtypes', 'nonbond_params') for e in system.gmx_topology_params.get(key, [])]
    if not c6_exact(ents, c6):
        chk.count('table_c6c12_not_exact_in_doubles(excluded)')
        continue
    k = rng.random()
    if k < 0.7:
        paths = {'atomtypes': 'go_atomtypes.itp', 'nonbond_params': 'go_nbparams.itp'}
    elif k < 0.8:
        paths = {'atomtypes': 'virtual_sites_atomtypes.itp', 'nonbond_params': 'virtual_sites_nonbond_params.itp'}
    elif k < 0.87:
        paths = {'nonbond_params': 'nb.itp'}
    elif k < 0.94:
        paths = {'atomtypes': 'at.itp'}
    else:
        paths = []                                        # what martinize2 passes without a Go model
    nmol = 0 if rng.random() < 0.05 else 1
    if nmol:
        m = vermouth.molecule.Molecule(nrexcl=1)
        m.add_node(0, atomname='BB', atype='P2', resname='ALA', resid=1, charge_group=1, chain='A',
                   position=np.zeros(3), mass=72.0, charge=0)
        m.meta['moltype'] = 'mol_0'
        system.add_molecule(m)
    system.meta['header'] = ['verif']
    defines = ('GO_VIRT',) if rng.random() < 0.7 else ()
    files, err, top, others = run_topology(system, c6, paths, defines)
    tab = lambda key, f: ([f(e) for e in system.gmx_topology_params[key]] if key in system.gmx_topology_params else None)
    pl_.append(line('wtop', c6, nmol, tab('atomtypes', at_enc), tab('nonbond_params', nb_enc),
                    [[a, b] for a, b in paths.items()] if isinstance(paths, dict) else None))
    pmeta.append((i, files, err, top, others, defines, paths, system))
pmodels = chk.drv.ask(pl_) if chk.lean_ok else [None] * len(pl_)
for ln, mo, (i, files, err, top, others, defines, paths, system) in zip(pl_, pmodels, pmeta):
    errs = []
    if err == 'ok':
        lines_ = top.split('\n') if top is not None else []
        if top is None:
            errs.append('no .top written')
        elif [l for l in lines_ if l.startswith('#define')] != ['#define %s' % d for d in defines]:
            errs.append('.top defines %r, asked for %r' % ([l for l in lines_ if l.startswith('#define')], defines))
        elif [l for l in lines_ if l.startswith('#include')] != ['#include "martini.itp"', '#include "mol_0.itp"']:
            errs.append('.top includes %r' % [l for l in lines_ if l.startswith('#include')])
        if others != ['mol_0.itp']:
            errs.append('files written besides the parameter files and the .top: %r' % (others,))
        for key, name in (('atomtypes', 'atomtypes'), ('nonbond_params', 'nonbond_params')):
            have = [f_ for f_ in files if f_[0] == paths.get(key)] if isinstance(paths, dict) else []
            if (key in system.gmx_topology_params) != (len(have) == 1):
                errs.append('table %s %s, file %s' % (key, 'present' if key in system.gmx_topology_params else 'absent',
                                                      'written' if have else 'not written'))
            elif have and not have[0][1].startswith('[ %s ]\n' % name):
                errs.append('%s does not start with [ %s ]' % (have[0][0], name))
    elif top is not None or others:
        errs.append('after %s: .top %s, other files %r' % (err, 'written' if top is not None else 'not written', others))
    chk.count('topology_%s' % err)
    chk.count('topology_param_files=%d' % len(files))
    chk.case('top-%d' % i, ln, enc(files) + ' ' + err, mo, errs, err == 'ok' and len(files) == 2)

# ---- -go-write-file: what _write_contacts writes, and what read_go_map makes of it -----------------------------
from scipy.spatial.distance import euclidean
from vermouth import __version__ as VERMOUTH_VERSION
MAP_EXTRA = []          # columns after `Count`: the code writes none (17 columns); read_go_map wants 18
RESN = ['ALA', 'GLY', 'LYS', 'TRP', 'CYS', 'A', 'DA', 'HSDX', 'res0']
rng = chk.rng('mapwrite')
wl, wmeta = [], []
for i in range(4000 if chk.thorough else 300):
    nres = rng.randint(1, 7)
    G = nx.Graph()
    ca_pos = []
    for r in range(nres):
        G.add_node(r, resname=rng.choice(RESN), chain=rng.choice(['A', 'A', 'B', 'C', 'x', 'AB']),
                   resid=rng.choice([r + 1, r + 1, r + 1, 100 + r, 9998 + r, -r, 12345 + r]))
        ca_pos.append(np.array([rng.uniform(-30, 30) if rng.random() < 0.8 else float(rng.randint(-9, 9))
                                for _ in range(3)]))
    all_contacts, rows = [], []
    for _ in range(rng.choice([0, 1, 2, 3, 5, 9])):
        a, b = rng.randrange(nres), rng.randrange(nres)
        over = rng.choice([0, 0, 1, 1, 2, 0.0, 1.0])
        cont = rng.choice([0, 0, 1, 7, 23, 369, 100000, 4.0])
        stab = rng.choice([0, 1, 5, 12])
        rcsu = rng.choice([True, False, np.bool_(True), np.bool_(False)])
        i1, i2 = rng.choice([(a + 1, b + 1), (np.int64(a + 1), np.int64(b + 1)), (a + 100000, b + 1)])
        all_contacts.append([i1, i2, a, b, over, cont, stab, rcsu])
        rows.append([int(i1), int(i2), G.nodes[a]['resname'], G.nodes[a]['chain'], int(G.nodes[a]['resid']),
                     G.nodes[b]['resname'], G.nodes[b]['chain'], int(G.nodes[b]['resid']),
                     qenc(euclidean(ca_pos[a], ca_pos[b]) * 10), int(over), int(cont), int(stab), bool(rcsu)])
    d = tempfile.mkdtemp(dir=TMP)
    path = os.path.join(d, 'contacts.out')
    _write_contacts(path, all_contacts, ca_pos, G)
    flush_writer()
    with open(path, newline='') as f:
        text = f.read()
    sysr = vermouth.System()
    try:
        read_go_map(sysr, path)
        back = 'ok ' + enc([list(c) for c in sysr.go_params['go_map'][0]])
    except ValueError:
        back = 'valueerror'
    except IOError:
        back = 'ioerror'
    shutil.rmtree(d)
    wl.append(line('gomapw', MAP_EXTRA, VERMOUTH_VERSION, rows))
    wmeta.append((i, rows, text, back))
wmodels = chk.drv.ask(wl) if chk.lean_ok else [None] * len(wl)
for ln, mo, (i, rows, text, back) in zip(wl, wmodels, wmeta):
    errs = []
    # independent statement: the file lists every entry of all_contacts on one `R` line with the residues' chain and
    # number in columns 5/6 and 9/10, and reading it back gives the contacts _get_contacts selects
    rl = [l.split() for l in text.split('\n') if l.startswith('R ')]
    if len(rl) != len(rows):
        errs.append('%d R lines for %d contacts' % (len(rl), len(rows)))
    for t, r in zip(rl, rows):
        if len(t) < 15 or [t[4], t[5], t[8], t[9], t[11], t[14]] != [r[3], str(r[4]), r[6], str(r[7]), str(r[9]),
                                                                      '1' if r[12] else '0']:
            errs.append('R line %r does not carry the contact %r' % (t, r))
    selected = [[r[4], r[3], r[7], r[6]] for r in rows if r[9] == 1 or (r[9] == 0 and r[12])]
    # OBSERVATION, not a clause of C18: the written file has 17 columns per R line, read_go_map accepts 18 only, so a map
    # written with -go-write-file is never read back (Lean: written_map_not_readable).  Both functions are compared
    # with their models as they are; the mismatch is counted, not judged.
    finding = None
    want = ('ok ' + enc(selected)) if selected else 'ioerror'
    chk.count('written_map_read_back_as_selected_contacts' if back == want else
              'observation:written_map_not_read_back(17_columns_written,18_wanted)')
    for t in rl:
        chk.count('mapwrite_columns=%d' % len(t))
    chk.count('mapwrite_rows=%d' % min(len(rows), 4))
    chk.count('mapwrite_selected=%d' % min(len(selected), 3))
    if finding:
        chk.count('finding_' + finding)
    chk.case('mapwrite-%d' % i, ln, enc(text) + ' read ' + back, mo, errs, len(selected) >= 1, finding=finding)
shutil.rmtree(TMP, ignore_errors=True)
chk.finish()
