"""Entry point of ./check: runs harness/cXX.py, and DEEPENS the search when the repository differs from the
baseline this machinery was last validated against.

    ./check Cxx [--tier quick|thorough] [--seed N] [--replay file]

Plain run: the property's harness with seed VERIF_SEED (default 0) - exactly what it always did.

Deepening (quick tier only, no explicit --seed/--replay): every run hashes the source files of the package
(vermouth/**/*.py outside tests, vermouth/data/**, bin/*) and compares them with harness/repo_baseline.json
(written by tools/repo_baseline.py after every commit to /repo made by this project).  When some file
differs - somebody changed the code - and the seed-0 stream found nothing, the same check is repeated with
further seeds (VERIF_SEED+1 .. VERIF_SEED+VERIF_ESCALATE_SEEDS, default 3 of them, run concurrently), i.e. with independent generated
streams.  A violation found by any of them is reported exactly as the harness reports it (VIOLATION line with
its replay, exit 1) and its evidence file replaces the seed-0 one.  On the unchanged tree nothing is added:
no extra time, no extra output.  The extra streams are the same generators whose seeds 0-4 are run on the
unchanged tree when the machinery is validated (no alarm there), so deepening cannot raise an alarm that a
plain run with another seed would not raise.
"""
import hashlib
import json
import os
import subprocess
import sys

HERE = os.path.dirname(os.path.abspath(__file__))
VERIF = os.path.dirname(HERE)
REPO = os.path.abspath(os.environ.get('VERIF_REPO', '/repo'))


def repo_files(root):
    out = []
    for base in ('vermouth', 'bin'):
        top = os.path.join(root, base)
        for d, dirs, files in os.walk(top):
            dirs[:] = sorted(x for x in dirs if x not in ('__pycache__', 'tests', '.hypothesis'))
            rel = os.path.relpath(d, root)
            for f in sorted(files):
                if f.endswith(('.pyc', '.pyo')) or f.startswith('.'):
                    continue
                if base == 'vermouth' and not (f.endswith('.py') or rel.startswith(os.path.join('vermouth', 'data'))):
                    continue
                out.append(os.path.join(rel, f))
    return out


def repo_hashes(root):
    res = {}
    for rel in repo_files(root):
        try:
            with open(os.path.join(root, rel), 'rb') as fh:
                res[rel] = hashlib.sha1(fh.read()).hexdigest()
        except OSError:
            res[rel] = 'unreadable'
    return res


def changed_files(root):
    try:
        base = json.load(open(os.path.join(HERE, 'repo_baseline.json')))['files']
    except Exception:
        return None
    now = repo_hashes(root)
    return sorted(f for f in set(base) | set(now) if base.get(f) != now.get(f))


def main():
    argv = sys.argv[1:]
    pid = argv[0]
    rest = argv[1:]
    script = os.path.join(HERE, pid.lower() + '.py')
    base_cmd = ['/venv/bin/python', '-W', 'ignore', script]
    tier = os.environ.get('VERIF_TIER', 'quick')
    if '--tier' in rest:
        tier = rest[rest.index('--tier') + 1]
    plain = ('--seed' in rest or '--replay' in rest or tier != 'quick' or os.environ.get('VERIF_NO_ESCALATE') == '1')
    try:
        base_seed = int(os.environ.get('VERIF_SEED', '0'))   # the seed of the ordinary run (the harness reads it too)
    except ValueError:
        base_seed = 0
    rc = subprocess.call(base_cmd + rest, cwd=HERE)
    if plain or rc != 0:
        sys.exit(rc)
    changed = changed_files(REPO)
    if not changed:
        sys.exit(rc)
    n = int(os.environ.get('VERIF_ESCALATE_SEEDS', '3'))
    print('%s: %d source file(s) differ from the validated baseline (%s%s): deepening the search with %d further '
          'seeds' % (pid, len(changed), ', '.join(changed[:4]), ', ...' if len(changed) > 4 else '', n), flush=True)
    procs = []
    for s in range(base_seed + 1, base_seed + n + 1):
        evdir = os.path.join(VERIF, 'replays', 'evidence_escalation', 'seed%d' % s)
        os.makedirs(evdir, exist_ok=True)
        env = dict(os.environ, VERIF_EVIDENCE_DIR=evdir, VERIF_ANCHOR_COV='0')
        procs.append((s, evdir, subprocess.Popen(base_cmd + rest + ['--seed', str(s)], cwd=HERE, env=env,
                                                 stdout=subprocess.PIPE, stderr=subprocess.STDOUT, text=True)))
    final = 0
    for s, evdir, p in procs:
        out, _ = p.communicate()
        lines = [l for l in out.split('\n') if l.startswith(('VIOLATION', 'KNOWN-FINDING', pid + ' ', 'TIMEOUT'))]
        if p.returncode == 1 and any(l.startswith('VIOLATION') for l in lines):
            if final == 0:
                for l in lines:
                    if not l.startswith('KNOWN-FINDING'):
                        print(l, flush=True)
                # the evidence of the run that found the violation is the evidence of this check run
                src = os.path.join(evdir, pid + '.json')
                dst = os.path.join(VERIF, 'evidence', pid + '.json') if REPO == '/repo' else None
                if dst and os.path.exists(src):
                    ev = json.load(open(src))
                    ev.setdefault('coverage', {})['deepening'] = {'changed_files': changed[:50], 'seed': s}
                    json.dump(ev, open(dst, 'w'), indent=1, default=str)
            final = 1
        elif p.returncode not in (0, 1):
            print('%s: deepening seed %d ended with status %d (ignored)' % (pid, s, p.returncode), flush=True)
        else:
            for l in lines:
                if l.startswith(pid + ' '):
                    print(l, flush=True)
    dst = os.path.join(VERIF, 'evidence', pid + '.json')
    if final == 0 and REPO == '/repo' and os.path.exists(dst):
        try:
            ev = json.load(open(dst))
            ev.setdefault('coverage', {})['deepening'] = {'changed_files': changed[:50], 'extra_seeds': n,
                                                          'violations_found': 0}
            json.dump(ev, open(dst, 'w'), indent=1, default=str)
        except Exception:
            pass
    sys.exit(final)


if __name__ == '__main__':
    main()
