"""C17, extension round: the residue partition as computed (order of the atoms inside a residue tuple =
CPython set order), sequence_from_residues / convert_dssp_annotation_to_martini on NON-uniform and partly
annotated residues, AnnotateMartiniSecondaryStructures.run_system, annotate_dssp / AnnotateDSSP with a fake
callable, run_dssp with a fake executable, read_dssp2 on generated DSSP texts, _savefile_path, and the
-dssp / -ss / -collagen statement of bin/martinize2 (extracted from its AST and executed; a few real
in-process command-line runs on top).  Called from c17.py with its globals."""
import ast
import copy
import io
import os
import shutil
import stat
import sys
import tempfile

from common import REPO, VERIF, enc, line, dec, clip, json


def run(chk, G):
    import numpy as np
    from vermouth.molecule import Molecule
    from vermouth.system import System
    from vermouth.dssp import dssp as D
    from vermouth import selectors

    build_molecule = G['build_molecule']
    gen_atoms = G['gen_atoms']
    oracle_residues = G['oracle_residues']
    res_codes = G['res_codes']
    convert_oracle = G['convert_oracle']
    exc_name = G['exc_name']
    DOC_TABLE = G['DOC_TABLE']
    max_run = G['max_run']
    ATTR = G['ATTR']
    N = (lambda q, t: t if chk.thorough else q)

    def ask(lines):
        return chk.drv.ask(lines) if chk.lean_ok else [None] * len(lines)

    # ------------------------------------------------------------------ values
    MULTI = {}

    def vcode(v):
        """attribute value -> natural: one-character strings by code point, small ints as themselves
        (control characters: never keys of SS_CG), anything else 0x110000 + n ('not a character')"""
        if v is None:
            return None
        if isinstance(v, str) and len(v) == 1:
            return ord(v)
        if isinstance(v, int) and not isinstance(v, bool) and 0 <= v < 32:
            return v
        return 0x110000 + MULTI.setdefault(repr(v), len(MULTI))

    def exc2(e):
        if isinstance(e, KeyError):
            return 'keyerror'
        if isinstance(e, ValueError):
            return 'valueerror'
        return 'exc:' + type(e).__name__

    # ------------------------------------------------------------------ part 5: CPython set order
    rng = chk.rng('pyset')
    cases = [[6, 7, 8, 9], [8, 16, 24, 32, 40], [-1, -2], list(range(100, 140)), [2 ** 61 - 1, 2 ** 61, 0], []]
    for _ in range(N(1200, 12000)):
        n = rng.choice([1, 2, 3, 4, 5, 6, 8, 10, 18, 19, 20, 30, 77, 150])
        mode = rng.random()
        if mode < 0.3:
            ks = rng.sample(range(0, 4 * n + 3), n)
        elif mode < 0.5:
            b = rng.randrange(5000)
            ks = list(range(b, b + n))
        elif mode < 0.65:
            ks = rng.sample(range(-60, 60), min(n, 100))
        elif mode < 0.8:
            ks = [rng.randrange(-2 ** 70, 2 ** 70) for _ in range(n)]
        else:
            ks = [rng.choice([8, 16, 32, 64, 128, 1024]) * rng.randrange(0, 50) + rng.choice([0, 0, 1]) for _ in range(n)]
        cases.append(list(dict.fromkeys(ks)))
    lines = [line('pyset', ks) for ks in cases]
    models = ask(lines)
    for i, (ks, ln, mo) in enumerate(zip(cases, lines, models)):
        s = set()
        for k in ks:
            s.add(k)
        real = list(s)
        errs = [] if sorted(real) == sorted(ks) else ['set lost or invented elements']
        disordered = real != sorted(real)
        chk.count('pyset_n<=4' if len(ks) <= 4 else ('pyset_n<=18' if len(ks) <= 18 else 'pyset_n>18'))
        if disordered:
            chk.count('pyset_order_differs_from_sorted')
        if real != ks:
            chk.count('pyset_order_differs_from_insertion')
        chk.case('pyset-%d' % i, ln, enc(real) + ' exact 1', mo, errs, disordered)

    # ------------------------------------------------------------------ part 6: molecules, non-uniform
    def gen_atoms_nu(rng):
        """atoms [key, chain, resid, resname, icode, value]: as gen_atoms, with bigger residues, keys whose
        set order differs from their numeric order, and per-ATOM values (non-uniform, partly absent)"""
        atoms = gen_atoms(rng)
        if atoms and rng.random() < 0.45:
            # fatten one or two residues (set resize at the 5th and the 19th element)
            idents = list(dict.fromkeys((a[1], a[2], a[3], a[4]) for a in atoms))
            for ident in rng.sample(idents, min(len(idents), rng.choice([1, 1, 2]))):
                for _ in range(rng.choice([2, 3, 4, 6, 9, 17, 22])):
                    atoms.insert(rng.randrange(len(atoms) + 1), [None, ident[0], ident[1], ident[2], ident[3], None])
        n = len(atoms)
        km = rng.random()
        if km < 0.25:
            keys = list(range(n))
        elif km < 0.5:
            b = rng.choice([1, 3, 6, 14, 30, 100, 1000, 4093])
            keys = list(range(b, b + n))
        elif km < 0.65:
            keys = rng.sample(range(-n - 3, 3 * n + 3), n)
        elif km < 0.8:
            step = rng.choice([8, 16, 32])
            keys = [step * i + rng.choice([0, 0, 1]) for i in rng.sample(range(0, 3 * n + 2), n)]
        elif km < 0.9:
            keys = set()
            while len(keys) < n:
                keys.add(rng.randrange(-2 ** 40, 2 ** 63))
            keys = list(keys)
            rng.shuffle(keys)
        else:
            keys = [a[0] if a[0] is not None else None for a in atoms]
            free = [k for k in range(-5, 5 * n + 5) if k not in keys]
            rng.shuffle(free)
            keys = [k if k is not None else free.pop() for k in keys]
        vm = rng.random()
        idents = {}
        out = []
        for key, a in zip(keys, atoms):
            ident = (a[1], a[2], a[3], a[4])
            if vm < 0.3:        # residue-uniform, complete
                v = idents.setdefault(ident, rng.choice('HHHHGIECTSB'))
            elif vm < 0.4:      # residue-uniform, some residues without
                v = idents.setdefault(ident, rng.choice(['H', 'E', 'C', None]))
            elif vm < 0.5:
                v = None
            elif vm < 0.8:      # per atom, complete
                v = rng.choice('HHHECTSG')
            else:               # per atom, anything
                v = rng.choice(['H', 'H', 'E', 'C', 'T', None, None, 3, 'HH', 'P', ' '])
            out.append([key, a[1], a[2], a[3], a[4], v])
        return out

    def mline(atoms):
        return [[a[0], rc, vcode(a[5])] for a, rc in zip(atoms, res_codes(atoms))]

    def build2(atoms, dst):
        m = build_molecule([[a[0], a[1], a[2], a[3], a[4], None] for a in atoms], True)
        for a, d in zip(atoms, dst):
            if a[5] is not None:
                m.nodes[a[0]]['aasecstruct'] = a[5]
            if d is not None:
                m.nodes[a[0]]['cgsecstruct'] = d
        return m

    def m2line(atoms, dst):
        return [[a[0], rc, vcode(a[5]), vcode(d)] for a, rc, d in zip(atoms, res_codes(atoms), dst)]

    def conv_oracle_observed(atoms, chosen, outcome, aa_after, cg_before, cg_after):
        """the documented behaviour of convert_dssp_annotation_to_martini, stated on what was observed:
        `chosen` is what the real sequence_from_residues reported, one element per residue"""
        errs = []
        groups = oracle_residues(atoms)
        by_key = {a[0]: a[5] for a in atoms}
        if len(chosen) != len(groups):
            return ['sequence_from_residues gave %d elements for %d residues' % (len(chosen), len(groups))]
        for k, (g, c) in enumerate(zip(groups, chosen)):
            if not any(by_key[key] == c and type(by_key[key]) is type(c) for key in g):
                errs.append('element %d of sequence_from_residues (%r) is carried by no atom of residue %d (%r)'
                            % (k, c, k, sorted((key, by_key[key]) for key in g)))
        if aa_after != by_key:
            errs.append('the attribute that is read was modified')
        some = [c for c in chosen if c is not None]
        if chosen and not some:
            if outcome != 'ok' or cg_after != cg_before:
                errs.append('molecule without any class was changed (%s)' % outcome)
        elif len(some) != len(chosen):
            if outcome != 'valueerror':
                errs.append('incomplete annotation did not raise ValueError: %s' % outcome)
            if cg_after != cg_before:
                errs.append('incomplete annotation, but cgsecstruct changed')
        elif any(not (isinstance(c, str) and c in DOC_TABLE) for c in chosen):
            if outcome != 'keyerror':
                errs.append('class outside the table accepted: %s' % outcome)
        elif outcome != 'ok':
            errs.append('complete supported annotation raised %s' % outcome)
        else:
            s = ''.join(chosen)
            got = []
            for g in groups:
                vals = {cg_after[key] for key in g}
                if len(vals) != 1:
                    errs.append('atoms of one residue got different classes: %r' % (vals,))
                got.append(sorted(vals, key=repr)[0])
            if not errs:
                if any(not (isinstance(x, str) and len(x) == 1) for x in got):
                    errs.append('a residue has no single-letter class: %r' % (got,))
                else:
                    errs.extend(convert_oracle(s, ''.join(got)))
        return errs[:3]

    rng = chk.rng('molecules-nonuniform')
    mol_cases = []
    corp = json.load(open(os.path.join(VERIF, 'corpus', 'c17_ext.json')))
    for c in corp['molecules']:
        mol_cases.append(('corpus:' + c['name'], c['atoms'], c.get('cg', [None] * len(c['atoms']))))
    for _ in range(N(600, 9000)):
        atoms = gen_atoms_nu(rng)
        dst = [rng.choice([None, None, None, 'X', 'C', 5]) for _ in atoms] if rng.random() < 0.5 else [None] * len(atoms)
        mol_cases.append(('rnd', atoms, dst))
    L, meta = [], []
    for name, atoms, dst in mol_cases:
        groups = oracle_residues(atoms)
        by_key = {a[0]: a[5] for a in atoms}
        uniform = all(len({repr(by_key[k]) for k in g}) == 1 for g in groups)
        # (a) iter_residues, exact tuples
        m = build_molecule(atoms, True)
        tuples = [list(r) for r in m.iter_residues()]
        errs = []
        if [sorted(t) for t in tuples] != [sorted(g) for g in groups]:
            errs.append('iter_residues gives %r; residues by identity ordered by lowest key are %r'
                        % (tuples, [sorted(g) for g in groups]))
        hashy = any(t != sorted(t) for t in tuples)
        L.append(line('iterres', mline(atoms)))
        meta.append(('iterres', enc(tuples) + ' exact 1', errs, hashy))
        # (b) sequence_from_residues
        seq = list(D.sequence_from_residues(m, ATTR))
        errs = []
        if len(seq) != len(groups):
            errs.append('%d elements for %d residues' % (len(seq), len(groups)))
        else:
            for k, (g, c) in enumerate(zip(groups, seq)):
                if not any(by_key[key] == c and type(by_key[key]) is type(c) for key in g):
                    errs.append('element %d (%r) is carried by no atom of residue %d' % (k, c, k))
                if uniform and c != by_key[min(g)]:
                    errs.append('uniform residue %d: element %r, value %r' % (k, c, by_key[min(g)]))
                if k < len(tuples) and tuples[k] and (by_key.get(tuples[k][0]) != c or type(by_key.get(tuples[k][0])) is not type(c)):
                    errs.append('element %d is %r; the first node of the residue tuple %r (documented source of the value) carries %r'
                                % (k, c, tuples[k], by_key.get(tuples[k][0])))
        first_in_node_order = [by_key[next(a[0] for a in atoms if a[0] in g)] for g in groups]
        lowest_key = [by_key[min(g)] for g in groups]
        nt = not uniform
        if seq != first_in_node_order:
            chk.count('seqres_differs_from_first_atom_in_node_order')
        if seq != lowest_key:
            chk.count('seqres_differs_from_lowest_key_atom')
        # default= : only for atoms that lack the attribute
        seq_d = list(D.sequence_from_residues(m, ATTR, default='DFLT'))
        if [('DFLT' if c is None else c) for c in seq] != seq_d:
            errs.append('default= not applied where the first atom lacks the attribute: %r vs %r' % (seq, seq_d))
        L.append(line('seqres', mline(atoms)))
        meta.append(('seqres_uniform' if uniform else 'seqres_nonuniform', enc([vcode(c) for c in seq]), errs[:3], nt))
        # (c) annotate_residues_from_sequence over the tuples
        nres = len(groups)
        k = rng.random()
        n = nres if k < 0.6 else (1 if k < 0.8 else max(0, nres + rng.choice([-1, 1, 2])))
        sq = [rng.choice('HECTS') for _ in range(n)]
        m = build_molecule(atoms, True)
        before = {k_: m.nodes[k_].get(ATTR) for k_ in m.nodes}
        try:
            D.annotate_residues_from_sequence(m, ATTR, ''.join(sq) if rng.random() < 0.5 else sq)
            outcome = 'ok'
        except Exception as e:
            outcome = exc2(e)
        after = {k_: m.nodes[k_].get(ATTR) for k_ in m.nodes}
        errs = []
        if n == nres or n == 1:
            want = sq * nres if (n == 1 and nres != 1) else sq
            if outcome != 'ok':
                errs.append('valid sequence raised ' + outcome)
            else:
                for kk, g in enumerate(groups):
                    for key in g:
                        if after[key] != want[kk]:
                            errs.append('atom %d of residue %d has %r, expected %r' % (key, kk, after[key], want[kk]))
        else:
            if outcome != 'valueerror':
                errs.append('%d elements for %d residues: %s' % (n, nres, outcome))
            if before != after:
                errs.append('mismatch but attributes changed')
        L.append(line('annotmol2', mline(atoms), [ord(c) for c in sq]))
        meta.append(('annotmol2_' + outcome, ('ok ' + enc([vcode(after[a[0]]) for a in atoms])) if outcome == 'ok' else outcome,
                     errs[:3], hashy))
        # (d) convert_dssp_annotation_to_martini through the processor's run_molecule
        m = build2(atoms, dst)
        chosen = list(D.sequence_from_residues(m, 'aasecstruct'))
        cg_before = {k_: m.nodes[k_].get('cgsecstruct') for k_ in m.nodes}
        try:
            r = D.AnnotateMartiniSecondaryStructures.run_molecule(m)
            outcome = 'ok' if r is m else 'exc:returned-another-object'
        except Exception as e:
            outcome = exc2(e)
        aa_after = {k_: m.nodes[k_].get('aasecstruct') for k_ in m.nodes}
        cg_after = {k_: m.nodes[k_].get('cgsecstruct') for k_ in m.nodes}
        errs = conv_oracle_observed(atoms, chosen, outcome, aa_after, cg_before, cg_after)
        L.append(line('convmol2', m2line(atoms, dst)))
        meta.append(('convmol2_' + ('uniform_' if uniform else 'nonuniform_') + outcome,
                     ('ok ' + enc([[vcode(aa_after[a[0]]), vcode(cg_after[a[0]])] for a in atoms])) if outcome == 'ok' else outcome,
                     errs, (not uniform) or max_run(''.join(c if isinstance(c, str) and len(c) == 1 else 'C' for c in chosen)) >= 5))
    models = ask(L)
    for i, (ln, (kind, impl, errs, nt), mo) in enumerate(zip(L, meta, models)):
        chk.count('mol2_' + kind)
        if kind == 'iterres' and nt:
            chk.count('mol2_iterres_tuple_not_in_key_order')
        chk.case('mol2-%d' % i, ln, impl, mo, errs, nt)

    # ------------------------------------------------------------------ part 7: annotate_dssp / AnnotateDSSP
    PROT = ('ALA', 'GLY')

    def gen_protein_atoms(rng, protein=True, nres=None):
        atoms = gen_atoms_nu(rng) if nres is None else gen_atoms(rng, nres)
        if protein:
            atoms = [[a[0], a[1], a[2], a[3] if a[3] in PROT else 'ALA', a[4], a[5]] for a in atoms]
        elif atoms and all(a[3] in PROT for a in atoms):
            j = rng.randrange(len(atoms))
            ident = tuple(atoms[j][1:5])
            atoms = [[a[0], a[1], a[2], 'LIG' if tuple(a[1:5]) == ident else a[3], a[4], a[5]] for a in atoms]
        return atoms

    def gen_positions(rng, atoms):
        groups = oracle_residues(atoms)
        pm = rng.random()
        if pm < 0.5:
            return [True] * len(atoms)
        if pm < 0.6:
            return [False] * len(atoms)
        if pm < 0.8:     # whole residues without coordinates
            keep = [g for g in groups if rng.random() < 0.6]
            keys = set().union(*keep) if keep else set()
            return [a[0] in keys for a in atoms]
        if pm < 0.9 and groups:     # exactly one residue with coordinates
            keys = rng.choice(groups)
            return [a[0] in keys for a in atoms]
        return [rng.random() < 0.7 for _ in atoms]

    def put_positions(m, atoms, pos, rng):
        for a, p in zip(atoms, pos):
            if p:
                m.nodes[a[0]]['position'] = np.array([float(a[0] % 97), 1.0, 2.0])
            else:
                k = rng.random()
                if k < 0.4:
                    m.nodes[a[0]]['position'] = None
                elif k < 0.6:
                    m.nodes[a[0]]['position'] = np.array([np.nan, 0.0, 0.0])
                elif k < 0.7:
                    m.nodes[a[0]]['position'] = np.array([np.inf, 0.0, 0.0])

    class FakeDSSP:
        """stands for run_dssp / run_mdtraj: records what it is given, answers what it was told to"""
        def __init__(self, answers):
            self.answers = list(answers)
            self.seen = []

        def __call__(self, system):
            mols = list(system.molecules)
            self.seen.append([[list(r) for r in mol.iter_residues()] for mol in mols])
            return self.answers.pop(0)

    def dssp_answer(rng, atoms, pos):
        clean = [a for a, p in zip(atoms, pos) if p]
        nclean, nall = len(oracle_residues(clean)), len(oracle_residues(atoms))
        k = rng.random()
        if k < 0.65:
            n = nclean                  # a faithful DSSP: one class per residue it was shown
        elif k < 0.75:
            n = nall
        elif k < 0.85:
            n = 1
        else:
            n = max(0, nclean + rng.choice([-1, 1, 2]))
        return [rng.choice('HHHHGIECTSB') for _ in range(n)]

    def dssp_oracle(atoms, pos, prot, answer, called, outcome, before, after):
        errs = []
        nall = len(oracle_residues(atoms))
        if not prot or not any(pos):
            if called:
                errs.append('the callable was run for a molecule that is %s' % ('not a protein' if not prot else 'without positions'))
            if outcome != 'ok' or before != after:
                errs.append('molecule that must be skipped was changed (%s)' % outcome)
            return errs
        if not called:
            return ['the callable was not run for a protein with positions']
        if len(answer) == nall or len(answer) == 1:
            want = answer * nall if (len(answer) == 1 and nall != 1) else answer
            if outcome != 'ok':
                errs.append('answer of valid length raised ' + outcome)
            else:
                for k, g in enumerate(oracle_residues(atoms)):
                    for key in g:
                        if after[key] != want[k]:
                            errs.append('atom %d of residue %d has %r, DSSP said %r' % (key, k, after[key], want[k]))
        else:
            if outcome != 'valueerror':
                errs.append('%d classes for %d residues: %s' % (len(answer), nall, outcome))
            if before != after:
                errs.append('length mismatch but attributes changed')
        return errs[:3]

    rng = chk.rng('annotate-dssp')
    L, meta = [], []
    for i in range(N(500, 5000)):
        prot = rng.random() < 0.85
        atoms = gen_protein_atoms(rng, prot)
        pos = gen_positions(rng, atoms)
        answer = dssp_answer(rng, atoms, pos)
        m = build_molecule(atoms, True, attr='aasecstruct')
        put_positions(m, atoms, pos, rng)
        real_prot = bool(selectors.is_protein(m))
        fake = FakeDSSP([list(answer)])
        before = {k_: m.nodes[k_].get('aasecstruct') for k_ in m.nodes}
        try:
            r = D.AnnotateDSSP(executable=fake).run_molecule(m)
            outcome = 'ok' if r is m else 'exc:returned-another-object'
        except Exception as e:
            outcome = exc2(e)
        after = {k_: m.nodes[k_].get('aasecstruct') for k_ in m.nodes}
        errs = dssp_oracle(atoms, pos, all(a[3] in PROT for a in atoms), answer, bool(fake.seen), outcome, before, after)
        if fake.seen and len(fake.seen[0]) != 1:
            errs.append('the callable got a system of %d molecules' % len(fake.seen[0]))
        inp = enc(fake.seen[0][0]) if fake.seen else '-'
        nclean = len(oracle_residues([a for a, p in zip(atoms, pos) if p]))
        nall = len(oracle_residues(atoms))
        kind = 'skipped' if not fake.seen else ('ok_all_positions' if all(pos) else
                                               ('ok_single_class_broadcast_over_%s_residues' % ('1' if nall == 1 else 'n')
                                                if outcome == 'ok' and len(answer) == 1 else outcome + '_partial_positions'))
        if fake.seen and nclean != nall and outcome == 'ok' and len(answer) == nclean:
            kind = 'ok_partial_positions_answer_fits_by_one_element_rule'
        L.append(line('dssp', 1 if real_prot else 0, mline([[a[0], a[1], a[2], a[3], a[4], a[5]] for a in atoms]),
                      [1 if p else 0 for p in pos], [ord(c) for c in answer]))
        impl = (('ok ' + enc([vcode(after[a[0]]) for a in atoms])) if outcome == 'ok' else outcome) + ' input ' + inp
        meta.append((kind, impl, errs, bool(fake.seen)))
    models = ask(L)
    for i, (ln, (kind, impl, errs, nt), mo) in enumerate(zip(L, meta, models)):
        chk.count('dssp_' + kind)
        chk.case('dssp-%d' % i, ln, impl, mo, errs, nt)

    # ------------------------------------------------------------------ part 8: systems, the martinize2 statement
    def extract_cli():
        """the `if args.dssp: ... elif args.ss is not None: ... elif args.collagen: ...` statement of
        bin/martinize2 as a function of (args, system, target_ff), and the `type=` of the -ss option"""
        path = os.path.join(REPO, 'bin', 'martinize2')
        tree = ast.parse(open(path).read())
        stmt = None
        for node in ast.walk(tree):
            if isinstance(node, ast.If) and ast.unparse(node.test) == 'args.dssp':
                stmt = node
                break
        if stmt is None:
            raise RuntimeError('statement `if args.dssp:` not found in bin/martinize2')
        fn = ast.FunctionDef(name='ss_statement',
                             args=ast.arguments(posonlyargs=[], args=[ast.arg('args'), ast.arg('system'), ast.arg('target_ff')],
                                                kwonlyargs=[], kw_defaults=[], defaults=[]),
                             body=[stmt], decorator_list=[], type_params=[])
        mod = ast.fix_missing_locations(ast.Module(body=[fn], type_ignores=[]))
        ss_type = None
        group = None
        for node in ast.walk(tree):
            if isinstance(node, ast.Call) and isinstance(node.func, ast.Attribute) and node.func.attr == 'add_argument' \
                    and node.args and isinstance(node.args[0], ast.Constant) and node.args[0].value in ('-ss', '-dssp', '-collagen'):
                if node.args[0].value == '-ss':
                    kw = {k.arg: k.value for k in node.keywords}
                    ss_type = ast.unparse(kw['type']) if 'type' in kw else None
                    ss_dest = ast.literal_eval(kw['dest']) if 'dest' in kw else 'ss'
                    if ss_dest != 'ss':
                        raise RuntimeError('-ss is stored in args.%s' % ss_dest)
                group = (group or set()) | {ast.unparse(node.func.value)}
        import logging
        ns = {'AnnotateDSSP': D.AnnotateDSSP, 'AnnotateMartiniSecondaryStructures': D.AnnotateMartiniSecondaryStructures,
              'AnnotateResidues': D.AnnotateResidues, 'selectors': selectors, 'dssp': D,
              'LOGGER': logging.getLogger('verif-c17-cli'), 'vermouth': __import__('vermouth')}
        ns['LOGGER'].addHandler(logging.NullHandler())
        ns['LOGGER'].propagate = False

        class _L:   # the script's LOGGER is a StyleAdapter: accepts type=
            def warning(self, *a, **k):
                pass
            info = debug = error = warning
        ns['LOGGER'] = _L()
        exec(compile(mod, path, 'exec'), ns)
        conv = eval(ss_type, {'str': str}) if ss_type else (lambda s: s)
        return ns['ss_statement'], conv, group

    cli_error = None
    try:
        ss_statement, ss_conv, ss_groups = extract_cli()
        if ss_groups is None or len(ss_groups) != 1:
            cli_error = '-dssp / -ss / -collagen are not added to one (mutually exclusive) group: %r' % (ss_groups,)
    except Exception as e:
        cli_error = '%s: %s' % (type(e).__name__, e)
    if cli_error:
        chk.broken.append(('extract:martinize2-ss-statement', cli_error))

    class Args:
        def __init__(self, dssp=None, ss=None, collagen=False):
            self.dssp, self.ss, self.collagen = dssp, ss, collagen

    class FF:
        name = 'verif'

        def has_feature(self, f):
            return True

    def gen_sys2(rng):
        nm = rng.choice([1, 2, 2, 3, 3, 4])
        same = rng.random() < 0.35
        n0 = rng.choice([1, 2, 3, 5, 9])
        mols = []
        for _ in range(nm):
            prot = rng.random() < 0.7
            atoms = gen_protein_atoms(rng, prot, n0 if (same and prot) else rng.choice([1, 2, 3, 4, 6, 9, 12]))
            # in a command-line run no molecule has aasecstruct yet; some streams leave old values in
            atoms = [[a[0], a[1], a[2], a[3], a[4], None] for a in atoms]
            mols.append(atoms)
        return mols

    def sys_snapshot(system):
        return [[[vcode(m.nodes[k].get('aasecstruct')), vcode(m.nodes[k].get('cgsecstruct'))] for k in m.nodes]
                for m in system.molecules]

    def raw_snapshot(system):
        return [{k: (m.nodes[k].get('aasecstruct'), m.nodes[k].get('cgsecstruct')) for k in m.nodes} for m in system.molecules]

    def build_system(mols, dsts=None, olds=None):
        system = System()
        for j, atoms in enumerate(mols):
            m = build2(atoms if olds is None else [[a[0], a[1], a[2], a[3], a[4], o] for a, o in zip(atoms, olds[j])],
                       dsts[j] if dsts else [None] * len(atoms))
            system.add_molecule(m)
        return system

    def ss_oracle(mols, prots, ss, outcome, before, after):
        """-ss: documented behaviour, stated independently"""
        errs = []
        sel = [(i, oracle_residues(a)) for i, a in enumerate(mols) if prots[i]]
        lengths = [len(r) for _, r in sel]
        total, n = sum(lengths), len(ss)
        up = ss.upper()
        if n == total and not (n and not sel):
            want = list(up)
        elif n == 1 and sel:
            want = list(up) * total
        elif sel and all(l == lengths[0] for l in lengths) and n == lengths[0]:
            want = list(up) * len(sel)
        else:
            want = None
        if want is None:
            if outcome != 'valueerror':
                errs.append('-ss of %d letters for protein residue counts %s did not raise ValueError: %s' % (n, lengths, outcome))
            if before != after:
                errs.append('length mismatch but attributes changed')
            return errs
        k = 0
        per_mol = {}
        for i, residues in sel:
            per_mol[i] = want[k:k + len(residues)]
            k += len(residues)
        if any(c not in DOC_TABLE for c in want):
            if outcome != 'keyerror':
                errs.append('class outside the table accepted: %s' % outcome)
            return errs
        if outcome != 'ok':
            return ['valid -ss raised ' + outcome]
        for i, residues in sel:
            got = []
            for kk, g in enumerate(residues):
                for key in g:
                    aa, cg = after[i][key]
                    if aa != per_mol[i][kk]:
                        errs.append('molecule %d atom %d: aasecstruct %r, letter %d of the sequence is %r' % (i, key, aa, kk, per_mol[i][kk]))
                vals = {after[i][key][1] for key in g}
                if len(vals) != 1:
                    errs.append('molecule %d residue %d: several cgsecstruct %r' % (i, kk, vals))
                got.append(sorted(vals, key=repr)[0])
            if not errs and all(isinstance(x, str) for x in got):
                errs.extend('molecule %d: %s' % (i, e) for e in convert_oracle(''.join(per_mol[i]), ''.join(got)))
            elif not errs:
                errs.append('molecule %d: cgsecstruct missing: %r' % (i, got))
        for i in range(len(mols)):
            if not prots[i] and before[i] != after[i]:
                errs.append('non-protein molecule %d changed' % i)
        return errs[:3]

    rng = chk.rng('cli-statement')
    L, meta = [], []
    if not cli_error:
        corp_sys = [('corpus:' + c['name'], c['molecules'], c['ss']) for c in corp['cli_ss']]
        for i in range(len(corp_sys) + N(220, 5000)):
            if i < len(corp_sys):
                name, mols, raw = corp_sys[i]
            else:
                name = 'rnd'
                mols = gen_sys2(rng)
                raw = None
            prots = [all(a[3] in PROT for a in atoms) for atoms in mols]
            lengths = [len(oracle_residues(a)) for a, p in zip(mols, prots) if p]
            total = sum(lengths)
            if raw is None:
                k = rng.random()
                if k < 0.45:
                    n = total
                elif k < 0.6:
                    n = 1
                elif k < 0.8:
                    n = lengths[0] if lengths else rng.choice([0, 1, 2])
                else:
                    n = max(0, total + rng.choice([-2, -1, 1, 3]))
                alpha = 'hhhhhhhhceHHHHCETSBGI123' if rng.random() < 0.9 else 'hHcCeEpx'
                raw = ''.join(rng.choice(alpha) for _ in range(n))
            system = build_system(mols)
            real_prots = [bool(selectors.is_protein(m)) for m in system.molecules]
            before = raw_snapshot(system)
            try:
                ss_statement(Args(ss=ss_conv(raw)), system, FF())
                outcome = 'ok'
            except Exception as e:
                outcome = exc2(e)
            after = raw_snapshot(system)
            errs = ss_oracle(mols, prots, raw, outcome, before, after)
            if real_prots != prots:
                errs.append('is_protein disagrees with "every residue name is a protein residue name"')
            L.append(line('cliss', [[1 if p else 0, m2line(a, [None] * len(a))] for a, p in zip(mols, real_prots)], raw))
            unsel_first = any((not p) and any(real_prots[j + 1:]) for j, p in enumerate(real_prots))
            meta.append(('cliss_' + outcome + ('_lowercase' if raw != raw.upper() else ''),
                         ('ok ' + enc(sys_snapshot(system))) if outcome == 'ok' else outcome, errs, unsel_first or len(lengths) > 1))
        # -collagen
        for i in range(N(60, 1500)):
            mols = gen_sys2(rng)
            dsts = [[rng.choice([None, None, 'C', 'H']) for _ in a] for a in mols]
            system = build_system(mols, dsts)
            real_prots = [bool(selectors.is_protein(m)) for m in system.molecules]
            before = raw_snapshot(system)
            try:
                ss_statement(Args(collagen=True), system, FF())
                outcome = 'ok'
            except Exception as e:
                outcome = exc2(e)
            after = raw_snapshot(system)
            errs = []
            if not any(real_prots):
                if outcome != 'valueerror' or before != after:
                    errs.append('-collagen without a protein molecule: %s' % outcome)
            elif outcome != 'ok':
                errs.append('-collagen raised ' + outcome)
            else:
                for j, p in enumerate(real_prots):
                    for key in after[j]:
                        want = (before[j][key][0], 'F') if p else before[j][key]
                        if after[j][key] != want:
                            errs.append('molecule %d atom %d: %r, expected %r' % (j, key, after[j][key], want))
            L.append(line('clicollagen', [[1 if p else 0, m2line(a, d)] for a, p, d in zip(mols, real_prots, dsts)]))
            meta.append(('clicollagen_' + outcome, ('ok ' + enc(sys_snapshot(system))) if outcome == 'ok' else outcome,
                         errs[:3], not all(real_prots)))
        # -dssp (run_mdtraj replaced by a recording fake)
        for i in range(N(120, 2500)):
            mols = gen_sys2(rng)
            poss = [gen_positions(rng, a) if rng.random() < 0.4 else [True] * len(a) for a in mols]
            answers = [dssp_answer(rng, a, p) if rng.random() < 0.3 else
                       [rng.choice('HHHHHGIECTSB') for _ in oracle_residues(a)] for a, p in zip(mols, poss)]
            system = build_system(mols)
            for m, a, p in zip(system.molecules, mols, poss):
                put_positions(m, a, p, rng)
            real_prots = [bool(selectors.is_protein(m)) for m in system.molecules]
            called_for = [j for j, (pr, p) in enumerate(zip(real_prots, poss)) if pr and any(p)]
            fake = FakeDSSP([list(answers[j]) for j in called_for])
            saved = (D.run_mdtraj, D.run_dssp, D.HAVE_MDTRAJ)
            D.run_mdtraj, D.HAVE_MDTRAJ = fake, True
            before = raw_snapshot(system)
            try:
                ss_statement(Args(dssp=True), system, FF())
                outcome = 'ok'
            except Exception as e:
                outcome = exc2(e)
            finally:
                D.run_mdtraj, D.run_dssp, D.HAVE_MDTRAJ = saved
            after = raw_snapshot(system)
            errs = []
            if outcome == 'ok':
                if len(fake.seen) != len(called_for):
                    errs.append('DSSP was run %d times for %d proteins with positions' % (len(fake.seen), len(called_for)))
                for j, (a, pr, p, ans) in enumerate(zip(mols, real_prots, poss, answers)):
                    groups = oracle_residues(a)
                    if not (pr and any(p)):
                        if after[j] != before[j]:
                            errs.append('molecule %d (no protein / no positions) changed' % j)
                        continue
                    want = ans * len(groups) if (len(ans) == 1 and len(groups) != 1) else ans
                    if len(want) != len(groups):
                        errs.append('molecule %d: %d classes from DSSP for %d residues, and no error' % (j, len(ans), len(groups)))
                        continue
                    got = []
                    for kk, g in enumerate(groups):
                        for key in g:
                            if after[j][key][0] != want[kk]:
                                errs.append('molecule %d atom %d: aasecstruct %r, DSSP said %r' % (j, key, after[j][key][0], want[kk]))
                        got.append(after[j][min(g)][1])
                    if not errs:
                        if any(not isinstance(x, str) for x in got):
                            errs.append('molecule %d: cgsecstruct missing' % j)
                        else:
                            errs.extend(convert_oracle(''.join(want), ''.join(got)))
            else:
                bad = [j for j in called_for if len(answers[j]) not in (1, len(oracle_residues(mols[j])))]
                if outcome != 'valueerror' or not bad:
                    errs.append('-dssp raised %s (molecules with an answer of the wrong length: %r)' % (outcome, bad))
            L.append(line('clidssp', [[1 if pr else 0, m2line(a, [None] * len(a)), [1 if x else 0 for x in p], [ord(c) for c in ans]]
                                      for a, pr, p, ans in zip(mols, real_prots, poss, answers)]))
            meta.append(('clidssp_' + outcome, ('ok ' + enc(sys_snapshot(system))) if outcome == 'ok' else outcome, errs[:3],
                         len(called_for) > 1 or not all(real_prots)))
    # AnnotateMartiniSecondaryStructures().run_system on systems with old, partial, non-uniform annotations
    rng = chk.rng('martini-system')
    for i in range(N(150, 3000)):
        mols = [gen_atoms_nu(rng) for _ in range(rng.choice([1, 2, 2, 3]))]
        if rng.random() < 0.6:      # most molecules convertible or blank, so that later molecules are reached
            mols = [[[a[0], a[1], a[2], a[3], a[4], a[5] if isinstance(a[5], str) and a[5] in DOC_TABLE else 'C'] for a in atoms]
                    if rng.random() < 0.7 else [[a[0], a[1], a[2], a[3], a[4], None] for a in atoms] for atoms in mols]
        dsts = [[rng.choice([None, None, 'X', 4]) for _ in a] for a in mols]
        system = build_system(mols, dsts)
        chosen = [list(D.sequence_from_residues(m, 'aasecstruct')) for m in system.molecules]
        before = raw_snapshot(system)
        mol_ids = [id(m) for m in system.molecules]
        try:
            D.AnnotateMartiniSecondaryStructures().run_system(system)
            outcome = 'ok'
        except Exception as e:
            outcome = exc2(e)
        after = raw_snapshot(system)
        errs = []
        if outcome == 'ok':
            if [id(m) for m in system.molecules] != mol_ids:
                errs.append('run_system replaced the molecules')
            for j, atoms in enumerate(mols):
                cgb = {k: v[1] for k, v in before[j].items()}
                cga = {k: v[1] for k, v in after[j].items()}
                aaa = {k: v[0] for k, v in after[j].items()}
                errs.extend('molecule %d: %s' % (j, e) for e in conv_oracle_observed(atoms, chosen[j], 'ok', aaa, cgb, cga))
        else:
            def expected_exc(c):
                some = [x for x in c if x is not None]
                if c and some and len(some) != len(c):
                    return 'valueerror'
                if some and any(not (isinstance(x, str) and x in DOC_TABLE) for x in c):
                    return 'keyerror'
                return None
            exp = [expected_exc(c) for c in chosen]
            first = next((e for e in exp if e), None)
            if first != outcome:
                errs.append('run_system raised %s; first molecule that cannot be converted gives %r' % (outcome, first))
        L.append(line('martini', [m2line(a, d) for a, d in zip(mols, dsts)]))
        meta.append(('martini_' + outcome, ('ok ' + enc(sys_snapshot(system))) if outcome == 'ok' else outcome, errs[:3], len(mols) > 1))
    models = ask(L)
    for i, (ln, (kind, impl, errs, nt), mo) in enumerate(zip(L, meta, models)):
        chk.count('sys2_' + kind)
        chk.case('sys2-%d' % i, ln, impl, mo, errs, nt)
    # gmx_system_header (oracle only; it is what AnnotateMartiniSecondaryStructures.run_system calls first): the
    # sequence of the residue-uniform attribute 'secstruct' of the protein molecules goes to the header when it is
    # complete; a molecule flagged modified_cgsecstruct adds the SS_CG image of the cgsecstruct sequence
    rng = chk.rng('gmx-header')
    for i in range(N(60, 600)):
        mols = gen_sys2(rng)
        system = build_system(mols)
        prots = [all(a[3] in PROT for a in atoms) for atoms in mols]
        complete = rng.random() < 0.7
        want_ss, want_cg = [], []
        for m, atoms, p in zip(system.molecules, mols, prots):
            for g in oracle_residues(atoms):
                v = rng.choice('HECTS') if (complete or rng.random() < 0.6) else None
                c = rng.choice('123HGIBETSC')
                for key in g:
                    if v is not None:
                        m.nodes[key]['secstruct'] = v
                    m.nodes[key]['cgsecstruct'] = c
                if p:
                    want_ss.append(v)
                    want_cg.append(DOC_TABLE[c])
        flagged = rng.random() < 0.4
        if flagged and system.molecules:
            rng.choice(system.molecules).meta['modified_cgsecstruct'] = True
        try:
            D.gmx_system_header(system)
            outcome = 'ok'
        except Exception as e:
            outcome = exc2(e)
        header = list(system.meta.get('header', []))
        errs = []
        if outcome != 'ok':
            errs.append('gmx_system_header raised ' + outcome)
        else:
            has_ss = bool(want_ss) and None not in want_ss
            joined = ''.join(want_ss) if has_ss else None
            if has_ss != (joined in header):
                errs.append('header %r; complete secstruct sequence of the proteins: %r' % (header, joined))
            if (flagged and bool(system.molecules)) != (''.join(want_cg) in header[3 if has_ss else 0:] and len(header) > (3 if has_ss else 0)):
                errs.append('header %r; flagged=%r, Martini classes of the proteins %r' % (header, flagged, ''.join(want_cg)))
            if not has_ss and not flagged and header:
                errs.append('header written without a complete sequence: %r' % header)
        chk.count('gmx_header_%s%s' % ('with_sequence' if (want_ss and None not in want_ss) else 'without_sequence', '_flagged' if flagged else ''))
        chk.case('gmxheader-%d' % i, 'gmx_system_header stream', outcome, None, errs[:2], flagged)

    # ------------------------------------------------------------------ part 9: read_dssp2, run_dssp, _savefile_path
    HEADER = '  #  RESIDUE AA STRUCTURE BP1 BP2  ACC     N-H-->O    O-->H-N    N-H-->O    O-->H-N    TCO  KAPPA ALPHA  PHI   PSI    X-CA   Y-CA   Z-CA'

    def res_line(rng, num, cls):
        aa = rng.choice('ACDEFGHIKLMNPQRSTVWY')
        ch = rng.choice('AAB')
        head = '%5d%5d %s %s  %s' % (num, num, ch, aa, cls)
        tail = rng.choice(['', ' ', '  >  S-     0   0   78      0, 0.0     2,-0.3     0, 0.0     4,-0.2   0.000 360.0 360.0 360.0 -10.1',
                           '    -A   15   0A 130     13,-0.2    27,-2.1'])
        return head + tail

    def gen_dssp_text(rng):
        """(lines, description): mostly well-formed DSSP output, with breaks, blank lines, truncation,
        unknown classes, missing / doubled / first-line headers"""
        lines = []
        k = rng.random()
        if k < 0.6:
            lines.append('==== Secondary Structure Definition by the program DSSP, CMBI version 3.0.0 ==== DATE=2020-01-01')
        elif k < 0.7:
            lines.append('**** SECONDARY STRUCTURE DEFINITION BY THE PROGRAM DSSP, VERSION OCT. 1988 ****')
        elif k < 0.8:
            lines.append('')
        elif k < 0.9:
            lines.append('REFERENCE W. KABSCH AND C.SANDER, BIOPOLYMERS 22 (1983) 2577-2637')
        # else: no line before the header line -> the header is line 1 and is not recognised
        for _ in range(rng.choice([0, 0, 1, 3, 6])):
            lines.append(rng.choice(['COMPND', 'SOURCE', '   29  1  0  0  0 TOTAL NUMBER OF RESIDUES', '  1  2  3  4  5  6', '',
                                     '#  RESIDUE AA (not the header: no leading blanks)', '  #  RESIDUE  AA']))
        k = rng.random()
        if k < 0.9:
            lines.append(HEADER if rng.random() < 0.8 else '  #  RESIDUE AA')
        body = []
        nres = rng.choice([0, 1, 2, 5, 12, 30])
        num = 1
        for _ in range(nres):
            k = rng.random()
            if k < 0.8:
                body.append(res_line(rng, num, rng.choice('HHHBEGITS     ')))
            elif k < 0.86:
                body.append('%5d        !%s             0   0    0' % (num, rng.choice(['', '*'])))
            elif k < 0.9:
                body.append('')
            elif k < 0.93:
                body.append(res_line(rng, num, rng.choice('PCXhb-?')))       # classes read_dssp2 does not know
            elif k < 0.96:
                body.append(res_line(rng, num, 'H')[:rng.choice([1, 5, 15, 16, 17, 18])])   # truncated line
            elif k < 0.98:
                body.append(HEADER)                                           # a second header line
            else:
                body.append(res_line(rng, num, 'E') + ' !')                   # a residue line with a '!' somewhere
            num += 1
        lines += body
        k = rng.random()
        if k < 0.3:
            lines.append('')
        elif k < 0.35 and lines:
            lines[-1] = lines[-1][:rng.randrange(0, 20)]
        fm = rng.random()
        if fm < 0.75:
            return lines, 'split'
        if fm < 0.9:                    # what a file handle yields
            return [l + '\n' for l in lines], 'filehandle'
        return [], 'empty'

    def read_oracle(lines, out):
        """read_dssp2 stated independently on its result"""
        errs = []
        if not lines:
            return [] if out == 'stopiteration' else ['no line at all: %s' % out]     # (documented: IOError)
        if lines[0].startswith('****'):
            return [] if out == 'ioerror' else ['DSSP version 1 header accepted: %s' % out]
        start = next((i for i, l in enumerate(lines) if i > 0 and l.startswith('  #  RESIDUE AA')), None)
        if start is None:
            return [] if out == 'ioerror' else ['no header line after line 1, but: %s' % out]
        res = [l for l in lines[start + 1:] if l and '!' not in l]
        bad = [l for l in res if len(l) < 17 or l[16] not in 'HBEGITS ']
        if bad:
            return [] if out == 'ioerror' else ['unreadable residue line %r accepted: %s' % (bad[0], out)]
        if not isinstance(out, list):
            return ['well-formed text raised %s' % out]
        if len(out) != len(res):
            return ['%d classes for %d residue lines' % (len(out), len(res))]
        for k, (l, c) in enumerate(zip(res, out)):
            if c != ('C' if l[16] == ' ' else l[16]):
                errs.append('residue line %d %r read as %r' % (k, l[:20], c))
        return errs[:3]

    def run_read(lines):
        try:
            out = D.read_dssp2(lines)
            return out if isinstance(out, list) else 'exc:type'
        except StopIteration:
            return 'stopiteration'
        except IOError:
            return 'ioerror'
        except Exception as e:
            return 'exc:' + type(e).__name__

    rng = chk.rng('read-dssp2')
    texts = []
    ddir = os.path.join(REPO, 'vermouth', 'tests', 'data', 'dssp_tests')
    real_files = sorted(f for f in os.listdir(ddir) if f.endswith('.ssd')) if os.path.isdir(ddir) else []
    for f in real_files:
        raw = open(os.path.join(ddir, f)).read()
        texts.append((raw.split('\n'), 'real-file'))
        texts.append((raw.splitlines(True), 'real-file-handle'))
        ls = raw.split('\n')
        for _ in range(N(3, 12)):
            cut = rng.randrange(len(ls))
            texts.append((ls[:cut] + [ls[cut][:rng.randrange(0, 30)]], 'real-file-truncated'))
            j = rng.randrange(len(ls))
            texts.append((ls[:j] + ['%5d        !*             0   0    0' % j] + ls[j:], 'real-file-with-break'))
            texts.append((ls[1 + rng.randrange(0, 12):], 'real-file-head-trimmed'))
    for c in corp['dssp_texts']:
        texts.append((c['lines'], 'corpus'))
    for _ in range(N(700, 7000)):
        texts.append(gen_dssp_text(rng))
    L, meta = [], []
    for lines_, kind in texts:
        out = run_read(iter(lines_) if rng.random() < 0.3 else list(lines_))
        errs = read_oracle(lines_, out)
        impl = ('ok ' + enc(''.join(out))) if isinstance(out, list) else out
        L.append(line('readdssp', list(lines_)))
        tag = 'ok' if isinstance(out, list) else out
        meta.append(('read_%s_%s' % (kind, tag), impl, errs, isinstance(out, list) and len(out) > 0))
        if isinstance(out, list) and any(('!' in l) for l in lines_):
            chk.count('read_ok_with_break_lines')
    # run_dssp with a fake executable: version check, PDB written, stdout split into lines, parsed;
    # savedir -> _savefile_path -> deferred writer
    tmp = tempfile.mkdtemp(prefix='verif_c17_')
    cwd = os.getcwd()
    SAVE = []
    try:
        os.chdir(tmp)
        exe = os.path.join(tmp, 'fakedssp.sh')
        with open(exe, 'w') as f:
            f.write('#!/bin/sh\nif [ "$1" = "--version" ]; then cat "%s/version"; exit 0; fi\n'
                    'if [ -f "%s/fail" ]; then echo broken >&2; exit 3; fi\ncp "$2" "%s/seen.pdb"\ncat "%s/out.dssp"\n' % (tmp, tmp, tmp, tmp))
        os.chmod(exe, os.stat(exe).st_mode | stat.S_IXUSR)
        from vermouth.file_writer import DeferredFileWriter
        for i in range(N(25, 150)):
            lines_, kind = gen_dssp_text(rng)
            lines_ = [l.rstrip('\n') for l in lines_] or ['']
            text = '\n'.join(lines_)
            with open(os.path.join(tmp, 'out.dssp'), 'w') as f:
                f.write(text)
            with open(os.path.join(tmp, 'version'), 'w') as f:
                f.write(rng.choice(['mkdssp 3.0.0\n', 'dssp 2.2.1\n', 'mkdssp version 4.0.4\n']))
            nmol = rng.choice([1, 2, 3])
            system = System()
            chains = []
            for j in range(nmol):
                m = Molecule()
                ch = rng.choice(['A', 'B', 'C', 'A', None, 'b', 'AB'])
                for k in range(rng.choice([1, 2, 4])):
                    d = dict(atomname='CA', resname='ALA', resid=k + 1, position=np.array([float(k), float(j), 0.0]), element='C')
                    if ch is not None or k > 0:
                        d['chain'] = ch if k == 0 else 'Z'
                    m.add_node(k, **d)
                chains.append(ch)
                system.add_molecule(m)
            use_save = rng.random() < 0.6
            savedir = os.path.join(tmp, 'save%d' % i) if use_save else None
            if use_save:
                os.mkdir(savedir)
            try:
                out = D.run_dssp(system, executable=exe, savedir=savedir)
                out = out if isinstance(out, list) else 'exc:type'
            except IOError:
                out = 'ioerror'
            except ValueError:
                out = 'savedir-valueerror'
            except Exception as e:
                out = 'exc:' + type(e).__name__
            errs = []
            if use_save and not any(c is not None for c in chains):
                if out != 'savedir-valueerror':
                    errs.append('savedir without any chain did not raise ValueError: %r' % (out,))
                out_cmp = None
            else:
                # what run_dssp hands to read_dssp2 is stdout.split('\n')
                errs = read_oracle(text.split('\n'), out)
                out_cmp = ('ok ' + enc(''.join(out))) if isinstance(out, list) else out
                if use_save:
                    DeferredFileWriter().write()
                    want_name = 'chain_%s.ssd' % ','.join(sorted({c for c in chains if c is not None}))
                    found = os.listdir(savedir)
                    if found != [want_name]:
                        errs.append('saved DSSP output: files %r, expected %r' % (found, want_name))
                    elif open(os.path.join(savedir, want_name)).read() != text:
                        errs.append('saved DSSP output differs from what the executable wrote')
                if not os.path.exists(os.path.join(tmp, 'seen.pdb')):
                    errs.append('the executable was not given an input file')
            left = [f for f in os.listdir(tmp) if f.startswith('dssp_in_')]
            if left:
                errs.append('temporary DSSP input left behind: %r' % left)
                for f in left:
                    os.remove(os.path.join(tmp, f))
            if os.path.exists(os.path.join(tmp, 'seen.pdb')):
                os.remove(os.path.join(tmp, 'seen.pdb'))
            if out_cmp is not None:
                L.append(line('readdssp', text.split('\n')))
                meta.append(('run_dssp_%s' % ('ok' if isinstance(out, list) else out), out_cmp, errs, isinstance(out, list) and len(out) > 0))
            else:
                chk.count('run_dssp_savedir_without_chain')
                chk.case('run_dssp-nochain-%d' % i, 'savedir without chain', 'valueerror', None, errs, False)
            if isinstance(out, list):
                # the processor configured with the PATH of an executable: AnnotateDSSP -> run_dssp -> read_dssp2 ->
                # annotate_residues_from_sequence on a protein with as many residues as DSSP printed (or one more)
                nres = max(0, len(out) + rng.choice([0, 0, 0, 1]))
                atoms = gen_protein_atoms(rng, True, nres)
                m = build_molecule(atoms, True, attr='aasecstruct')
                for a in atoms:
                    m.nodes[a[0]].update(position=np.array([1.0, 2.0, float(a[0] % 50)]), element='C', atomname='CA')
                before = {k_: m.nodes[k_].get('aasecstruct') for k_ in m.nodes}
                try:
                    proc = D.AnnotateDSSP(executable=exe, savedir=None)
                    r = proc.run_molecule(m)
                    outcome = 'ok' if r is m else 'exc:returned-another-object'
                except Exception as e:
                    outcome = exc2(e)
                after = {k_: m.nodes[k_].get('aasecstruct') for k_ in m.nodes}
                called = bool(atoms)
                errs2 = dssp_oracle(atoms, [True] * len(atoms), True, out, called, outcome, before, after)
                inp = enc([list(r_) for r_ in m.iter_residues()]) if atoms else '-'
                L.append(line('dssp', 1, mline(atoms), [1] * len(atoms), [ord(c) for c in out]))
                meta.append(('AnnotateDSSP_executable_' + outcome,
                             (('ok ' + enc([vcode(after[a[0]]) for a in atoms])) if outcome == 'ok' else outcome) + ' input ' + inp,
                             errs2, True))
                for f in [f for f in os.listdir(tmp) if f.startswith('dssp_in_') or f == 'seen.pdb']:
                    os.remove(os.path.join(tmp, f))
            SAVE.append((use_save, chains))
        # a failing executable and a missing one are DSSPError
        open(os.path.join(tmp, 'fail'), 'w').close()
        m = Molecule()
        m.add_node(0, atomname='CA', resname='ALA', resid=1, chain='A', position=np.array([0.0, 0.0, 0.0]), element='C')
        system = System()
        system.add_molecule(m)
        for ex, what in ((exe, 'failing executable'), (os.path.join(tmp, 'nonexistent'), 'missing executable'),
                         (exe, 'versionless executable')):
            if what.startswith('versionless'):
                os.remove(os.path.join(tmp, 'fail'))
                with open(os.path.join(tmp, 'version'), 'w') as f:
                    f.write('DSSP, no number\n')
            try:
                D.run_dssp(system, executable=ex)
                r = 'ok'
            except D.DSSPError:
                r = 'dssperror'
            except Exception as e:
                r = 'exc:' + type(e).__name__
            chk.case('run_dssp-' + what.split()[0], what, r, None, [] if r == 'dssperror' else ['%s: %s' % (what, r)], False)
            for f in [f for f in os.listdir(tmp) if f.startswith('dssp_in_')]:
                os.remove(os.path.join(tmp, f))     # kept on purpose when DSSP fails
    finally:
        os.chdir(cwd)
        shutil.rmtree(tmp, ignore_errors=True)
    # how AnnotateDSSP chooses the callable
    saved = D.HAVE_MDTRAJ
    try:
        errs = []
        D.HAVE_MDTRAJ = True
        if D.AnnotateDSSP().dssp is not D.run_mdtraj:
            errs.append('without executable and with MDTraj the callable is not run_mdtraj')
        D.HAVE_MDTRAJ = False
        p_ = D.AnnotateDSSP(savedir='SD').dssp
        if getattr(p_, 'func', None) is not D.run_dssp or p_.keywords != {'executable': 'dssp', 'savedir': 'SD'}:
            errs.append('without executable and without MDTraj the callable is not run_dssp(executable="dssp", savedir)')
        p_ = D.AnnotateDSSP(executable='/x/mkdssp', savedir='SD').dssp
        if getattr(p_, 'func', None) is not D.run_dssp or p_.keywords != {'executable': '/x/mkdssp', 'savedir': 'SD'}:
            errs.append('a str executable is not handed to run_dssp')
        f_ = FakeDSSP([])
        if D.AnnotateDSSP(executable=f_).dssp is not f_:
            errs.append('a callable executable is not used as it is')
    finally:
        D.HAVE_MDTRAJ = saved
    chk.case('AnnotateDSSP-init', 'AnnotateDSSP.__init__ branches', 'ok', None, errs, False)
    models = ask(L)
    for i, (ln, (kind, impl, errs, nt), mo) in enumerate(zip(L, meta, models)):
        chk.count(kind)
        chk.case('dssptext-%d' % i, ln, impl, mo, errs, nt)
    # _savefile_path
    rng = chk.rng('savefile')
    L, meta = [], []
    for i in range(N(200, 2000)):
        system = System()
        firsts = []
        for j in range(rng.choice([0, 1, 1, 2, 3, 4])):
            m = Molecule()
            n = rng.choice([0, 1, 1, 2, 3]) if rng.random() < 0.15 else rng.choice([1, 2, 3])
            for k in range(n):
                ch = rng.choice(['A', 'B', 'C', 'a', 'AA', '', None, None, 'Z', '1'])
                d = {'atomname': 'X'}
                if ch is not None or rng.random() < 0.3:
                    d['chain'] = ch
                m.add_node(k * 3 + 1, **d)
                if k == 0:
                    firsts.append([ch])
            if n == 0:
                firsts.append([])
            system.add_molecule(m)
        try:
            p = D._savefile_path(system, 'SAVEDIR')
            impl = 'ok ' + enc(os.path.relpath(p, 'SAVEDIR'))
        except IndexError:
            impl = 'indexerror'
        except ValueError:
            impl = 'valueerror'
        except Exception as e:
            impl = 'exc:' + type(e).__name__
        errs = []
        if D._savefile_path(system, None) is not None:
            errs.append('a path without savedir')
        L.append(line('savefile', firsts))
        meta.append(('savefile_' + impl.split()[0], impl, errs, len({f[0] for f in firsts if f and f[0] is not None}) > 1))
    models = ask(L)
    for i, (ln, (kind, impl, errs, nt), mo) in enumerate(zip(L, meta, models)):
        chk.count(kind)
        chk.case('savefile-%d' % i, ln, impl, mo, errs, nt)

    # ------------------------------------------------------------------ part 10: real in-process command-line runs
    def cli_runs():
        import runpy
        import logging
        src = open(os.path.join(REPO, 'vermouth', 'tests', 'data', 'tri_alanine.pdb')).read().split('\n')
        atoms = [l for l in src if l.startswith('ATOM')]
        pdb = []
        for ch, dx in (('A', 0.0), ('B', 30.0)):
            for l in atoms:
                x = float(l[30:38]) + dx
                pdb.append(l[:21] + ch + l[22:30] + '%8.3f' % x + l[38:])
            pdb.append('TER')
        pdb.append('END')
        tmp = tempfile.mkdtemp(prefix='verif_c17_cli_')
        cwd = os.getcwd()
        inp = os.path.join(tmp, 'in.pdb')
        open(inp, 'w').write('\n'.join(pdb) + '\n')

        class Stop(BaseException):
            pass
        cap = {}
        o_ar, o_ms = D.AnnotateResidues.run_system, D.AnnotateMartiniSecondaryStructures.run_system

        def grab(system):
            mols = []
            for m in system.molecules:
                mols.append([[k, d.get('chain'), d.get('resid'), d.get('resname'), d.get('insertion_code'), None]
                             for k, d in m.nodes(data=True)])
            return mols

        def ar(self, system):
            cap['mols'] = grab(system)
            cap['before'] = raw_snapshot(system)
            cap['prots'] = [bool(selectors.is_protein(m)) for m in system.molecules]
            return o_ar(self, system)

        def ms(self, system):
            o_ms(self, system)
            cap['after'] = raw_snapshot(system)
            cap['snap'] = sys_snapshot(system)
            raise Stop()
        runs = [('hcE', 'ok')] + N([], [('hhhh', 'valueerror'), ('c', 'ok'), ('HHHHHH', 'ok'), ('eeeee', 'valueerror'), ('', 'valueerror')])
        res = []
        argv, stdout, stderr = sys.argv, sys.stdout, sys.stderr
        try:
            os.chdir(tmp)
            if chk._cov is not None:
                chk._cov.stop()     # line tracing makes a whole command-line run five times slower; nothing anchored is lost
            D.AnnotateResidues.run_system, D.AnnotateMartiniSecondaryStructures.run_system = ar, ms
            for raw, _ in runs:
                cap.clear()
                sys.argv = ['martinize2', '-f', inp, '-x', 'cg.pdb', '-o', 'topol.top', '-ff', 'martini3001', '-ss', raw]
                sys.stdout = sys.stderr = io.StringIO()
                try:
                    runpy.run_path(os.path.join(REPO, 'bin', 'martinize2'), run_name='__main__')
                    outcome = 'exc:ran-to-the-end'
                except Stop:
                    outcome = 'ok'
                except SystemExit as e:
                    outcome = 'exit:%r' % (e.code,)
                except Exception as e:
                    outcome = exc2(e)
                finally:
                    sys.stdout, sys.stderr = stdout, stderr
                    lg = logging.getLogger('vermouth')
                    for h in list(lg.handlers):
                        lg.removeHandler(h)
                res.append((raw, outcome, dict(cap)))
        finally:
            D.AnnotateResidues.run_system, D.AnnotateMartiniSecondaryStructures.run_system = o_ar, o_ms
            sys.argv, sys.stdout, sys.stderr = argv, stdout, stderr
            os.chdir(cwd)
            shutil.rmtree(tmp, ignore_errors=True)
            G['quiet_vermouth_logs']()
            if chk._cov is not None:
                chk._cov.start()
        return res

    L, meta = [], []
    _cli = cli_runs()
    for raw, outcome, cap in _cli:
        if 'mols' not in cap:
            chk.case('cli-%s' % raw, 'martinize2 -ss %s' % raw, outcome, None,
                     ['martinize2 -ss %s ended with %s before AnnotateResidues.run_system was reached' % (raw, outcome)], True)
            continue
        mols, prots = cap['mols'], cap['prots']
        after = cap.get('after', cap['before'])
        errs = ss_oracle(mols, prots, raw, outcome, cap['before'], after)
        L.append(line('cliss', [[1 if p else 0, m2line(a, [None] * len(a))] for a, p in zip(mols, prots)], raw))
        meta.append(('cli_run_' + outcome, ('ok ' + enc(cap['snap'])) if outcome == 'ok' else outcome, errs, True))
    models = ask(L)
    for i, (ln, (kind, impl, errs, nt), mo) in enumerate(zip(L, meta, models)):
        chk.count(kind)
        chk.case('cli-%d' % i, ln, impl, mo, errs, nt)

    # ------------------------------------------------------------------ which lines of the functions of this round ran
    try:
        fns = ['read_dssp2', '_savefile_path', 'run_dssp', 'annotate_dssp', 'sequence_from_residues',
               'annotate_residues_from_sequence', 'convert_dssp_annotation_to_martini', 'gmx_system_header',
               'AnnotateDSSP.__init__', 'AnnotateDSSP.run_molecule', 'AnnotateMartiniSecondaryStructures.run_molecule',
               'AnnotateMartiniSecondaryStructures.run_system', 'AnnotateResidues.run_molecule']
        path = os.path.join(REPO, 'vermouth', 'dssp', 'dssp.py')
        if chk._cov is not None:
            data = chk._cov.get_data()
            hit = set(data.lines(path) or [])
            from coverage.python import PythonParser
            pp = PythonParser(filename=path)
            pp.parse_source()
            spans = {}

            def walk(node, prefix):
                for ch in ast.iter_child_nodes(node):
                    if isinstance(ch, (ast.FunctionDef, ast.ClassDef)):
                        spans[prefix + ch.name] = (ch.lineno, ch.end_lineno)
                        walk(ch, prefix + ch.name + '.')
            walk(ast.parse(open(path).read()), '')
            rep = {}
            for q in fns:
                if q in spans:
                    lo, hi = spans[q]
                    ex = [l for l in sorted(pp.statements) if lo < l <= hi]
                    rep[q] = {'executable': len(ex), 'hit': len([l for l in ex if l in hit]),
                              'missing_lines': [l for l in ex if l not in hit]}
            chk.extra['extension_function_line_coverage'] = rep
    except Exception as e:
        chk.notes.append('extension coverage not measured: %r' % (e,))

    # for the follow-up round (harness/c17_sel.py)
    G['_ext'] = {'ss_statement': None if cli_error else ss_statement, 'ss_conv': None if cli_error else ss_conv,
                 'cli_error': cli_error, 'Args': Args, 'FF': FF, 'FakeDSSP': FakeDSSP, 'ss_oracle': ss_oracle,
                 'conv_oracle_observed': conv_oracle_observed}

    chk.trusted.append('harness/c17_ext.py: AST extraction of the `if args.dssp: ... elif args.ss ... elif args.collagen` statement '
                       'and of the type= of -ss from bin/martinize2; fake DSSP callable / executable; coding of attribute values')
    chk.assumptions.append('node keys are Python ints (the order of the atoms inside a residue tuple is the iteration order of a CPython '
                           '3.12 set of ints, transcribed in the model and compared differentially; other key types, e.g. str with '
                           'randomised hashes, are not covered)')
    chk.assumptions.append('-ss strings are ASCII (str.upper is modelled on ASCII letters only)')
