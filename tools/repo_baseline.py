#!/venv/bin/python
"""Record the source files of /repo (hash per file) as the baseline the checks were validated against.
Run after every commit this project makes to /repo (fix: commits) and commit the result.
harness/run_check.py deepens the search (further seeds) when the tree differs from this baseline."""
import json, os, subprocess, sys
sys.path.insert(0, '/verif/harness')
import run_check
root = sys.argv[1] if len(sys.argv) > 1 else '/repo'
head = subprocess.run(['git', '-C', root, 'rev-parse', 'HEAD'], stdout=subprocess.PIPE, text=True).stdout.strip()
json.dump({'repo_head': head, 'files': run_check.repo_hashes(root)},
          open('/verif/harness/repo_baseline.json', 'w'), indent=0, sort_keys=True)
print('baseline of', len(run_check.repo_hashes(root)), 'files at', head[:8])
