#!/venv/bin/python
"""Confirm a seeded breaking change and run the property's check against it.

usage: tools/seeded.py <dir with patch.diff, demo.py, meta.json> [<id>] [--tier quick|thorough] [--keep]

Steps (all in a scratch git worktree of /repo under /tmp, removed afterwards; /repo is never touched):
  1. the patch applies to /repo's HEAD;
  2. the pinned test suite still passes with it (tools/baseline.py);
  3. demo.py exits 0 on /repo and 1 on the patched tree;
  4. `VERIF_REPO=<patched tree> ./check <property>` -> exit code, VIOLATION line, replay kind;
  5. the result is stored in /verif/seeded/<id>/ (patch.diff, demo.py, meta.json with what was run).
"""
import json, os, shutil, subprocess, sys, time

V = os.environ.get('VERIF_HOME', '/verif')
src = os.path.abspath(sys.argv[1])
args = sys.argv[2:]
tier = 'quick'
if '--tier' in args:
    tier = args[args.index('--tier') + 1]
meta = json.load(open(os.path.join(src, 'meta.json')))
pid = meta['property']
sid = next((a for a in args if not a.startswith('--') and a not in ('quick', 'thorough')), os.path.basename(src.rstrip('/')))
wt = '/tmp/sw_%s_%d' % (sid, os.getpid())


def sh(cmd, **kw):
    p = subprocess.run(cmd, stdout=subprocess.PIPE, stderr=subprocess.STDOUT, text=True, **kw)
    return p.returncode, p.stdout


res = {'id': sid, 'property': pid, 'ran_at_repo_head': sh(['git', '-C', '/repo', 'rev-parse', '--short', 'HEAD'])[1].strip()}
rc, out = sh(['git', '-C', '/repo', 'worktree', 'add', '--detach', wt, 'HEAD'])
try:
    rc, out = sh(['git', '-C', wt, 'apply', os.path.join(src, 'patch.diff')])
    if rc != 0:
        # /repo moved on since the patch was written: let patch(1) place the hunks by context
        sh(['git', '-C', wt, 'checkout', '--', '.'])
        rc, out2 = sh(['patch', '-p1', '--no-backup-if-mismatch', '-i', os.path.join(src, 'patch.diff')], cwd=wt)
        out += out2
        res['applied_with'] = 'patch -p1 (offsets/fuzz)'
    res['applies'] = rc == 0
    if rc != 0:
        res['apply_error'] = out[-400:]
        print(json.dumps(res, indent=1))
        raise SystemExit
    rc, out = sh([os.path.join(V, 'tools/baseline.py'), wt])
    for _ in range(3):
        if rc == 0:
            break
        # the suite has a few hypothesis tests with deadlines that fail under machine load: retry
        time.sleep(20)
        rc, out = sh([os.path.join(V, 'tools/baseline.py'), wt])
    res['suite'] = out.strip().split('\n')[-1] if rc == 0 else out.strip()[-400:]
    res['suite_passes'] = rc == 0
    rc0, _ = sh(['/venv/bin/python', os.path.join(src, 'demo.py'), '/repo'], cwd='/tmp', timeout=900)
    rc1, o1 = sh(['/venv/bin/python', os.path.join(src, 'demo.py'), wt], cwd='/tmp', timeout=900)
    res['demo_unchanged_exit'], res['demo_changed_exit'] = rc0, rc1
    res['demo_output'] = o1.strip()[-300:]
    t0 = time.time()
    env = dict(os.environ, VERIF_REPO=wt)
    rc, out = sh([os.path.join(V, 'check'), pid, '--tier', tier], env=env, cwd=V, timeout=3600)
    lines = [l for l in out.split('\n') if l.startswith(('VIOLATION', 'KNOWN-FINDING', pid + ' '))]
    res['check_cmd'] = 'VERIF_REPO=<patched worktree> ./check %s --tier %s' % (pid, tier)
    res['check_exit'] = rc
    res['check_wall_s'] = round(time.time() - t0, 1)
    res['check_lines'] = [l[:300] for l in lines]
    viol = [l for l in lines if l.startswith('VIOLATION')]
    res['detected'] = rc == 1 and bool(viol)
    res['with_failing_input'] = bool(viol) and 'no-failing-input-found' not in viol[0]
    if viol:
        rp = viol[0].split('replay=')[1].split()[0]
        try:
            r = json.load(open(rp))
            res['replay_kind'] = r.get('kind')
            res['replay_case'] = r.get('case')
            res['replay_clause'] = str(r.get('oracle_clause') or r.get('broken'))[:300]
        except Exception as e:
            res['replay_kind'] = 'unreadable: %r' % e
finally:
    # the run regenerated lean/Generated from the patched tree: put the committed tables back
    sh(['git', '-C', V, 'checkout', '--', 'lean/Generated'])
    sh(['git', '-C', '/repo', 'worktree', 'remove', '--force', wt])
    shutil.rmtree(wt, ignore_errors=True)
confirmed = res.get('applies') and res.get('suite_passes') and res.get('demo_unchanged_exit') == 0 and res.get('demo_changed_exit') == 1
res['confirmed'] = bool(confirmed)
print(json.dumps(res, indent=1))
if confirmed:
    dst = os.path.join(V, 'seeded', sid)
    os.makedirs(dst, exist_ok=True)
    shutil.copy(os.path.join(src, 'patch.diff'), dst)
    shutil.copy(os.path.join(src, 'demo.py'), dst)
    m = dict(meta)
    m['confirmed_by_integrator'] = {k: res[k] for k in ('ran_at_repo_head', 'suite', 'demo_unchanged_exit', 'demo_changed_exit')}
    m['check_result'] = {k: res.get(k) for k in ('check_cmd', 'check_exit', 'detected', 'with_failing_input', 'replay_kind',
                                                 'replay_case', 'replay_clause', 'check_wall_s', 'check_lines')}
    json.dump(m, open(os.path.join(dst, 'meta.json'), 'w'), indent=1)
