#!/venv/bin/python
"""Run the repository's pinned test suite (guard off) and compare with BASELINE.json stable_pass.
usage: tools/baseline.py [repo_root]   exit 0 iff every stable_pass test passed."""
import json, os, subprocess, sys, tempfile, xml.etree.ElementTree as ET
repo = sys.argv[1] if len(sys.argv) > 1 else '/repo'
base = json.load(open('/root/.vp/BASELINE.json'))
fd, xml = tempfile.mkstemp(suffix='.xml'); os.close(fd)
env = dict(os.environ); env.pop('VERMOUTH_VERIF', None)
env['HYPOTHESIS_STORAGE_DIRECTORY'] = tempfile.mkdtemp(prefix='hypo_')  # do not persist rare failing examples of the suite's own hypothesis tests
subprocess.run(['/venv/bin/python', '-m', 'pytest', '-q', '-p', 'no:cacheprovider', '--timeout=900',
                '--continue-on-collection-errors', '-n', '16', '--junitxml=' + xml],
               cwd=repo, env=env, stdout=subprocess.DEVNULL, stderr=subprocess.DEVNULL)
passed, failed = set(), set()
for tc in ET.parse(xml).getroot().iter('testcase'):
    tid = (tc.get('classname') or '') + '::' + (tc.get('name') or '')
    if tc.find('failure') is not None or tc.find('error') is not None: failed.add(tid)
    elif tc.find('skipped') is None: passed.add(tid)
passed -= failed
os.remove(xml)
missing = sorted(set(base['stable_pass']) - passed)
print('stable_pass', len(base['stable_pass']), 'passed now', len(passed), 'missing', len(missing))
for m in missing[:40]: print('  MISSING', m)
sys.exit(1 if missing else 0)
