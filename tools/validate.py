#!/opt/veriftools/pyvenv/bin/python
"""Validate MANIFEST.json and every evidence file against the schemas."""
import json, sys, glob, jsonschema
ok = True
m = json.load(open('/verif/MANIFEST.json'))
try:
    jsonschema.validate(m, json.load(open('/root/.vp/MANIFEST.schema.json')))
    print('MANIFEST ok:', len(m['checks']), 'checks,', len(m.get('not_applicable', [])), 'not applicable')
except jsonschema.ValidationError as e:
    ok = False; print('MANIFEST INVALID', e.message)
es = json.load(open('/root/.vp/EVIDENCE.schema.json'))
for c in m['checks']:
    f = c['evidence_file']
    try:
        ev = json.load(open(f))
        jsonschema.validate(ev, es)
        assert ev['level'] == c['level_claimed']['category'], 'level mismatch'
        cov = ev['coverage']
        if ev['level'] == 'proof':
            assert cov['obligations'] == cov['discharged'], 'undischarged obligations'
        print(' ', c['property_id'], 'evidence ok', ev['tier'], 'wall', ev['wall_s'], 'viol', ev.get('violations'))
    except Exception as e:
        ok = False; print(' ', c['property_id'], 'EVIDENCE PROBLEM', f, repr(e)[:300])
ids = {json.loads(l)['id'] for l in open('/verif/properties.jsonl')}
claimed = {c['property_id'] for c in m['checks']}
na = {n['property_id'] for n in m.get('not_applicable', [])}
if claimed | na != ids or claimed & na:
    ok = False; print('coverage of ids wrong: missing', ids - claimed - na, 'both', claimed & na)
# the deepening baseline must describe /repo as committed (tools/repo_baseline.py after every fix: commit)
import subprocess, os
sys.path.insert(0, '/verif/harness')
try:
    import run_check
    ch = run_check.changed_files('/repo')
    dirty = subprocess.run(['git', '-C', '/repo', 'status', '--porcelain', '--untracked-files=no'], stdout=subprocess.PIPE, text=True).stdout.strip()
    if ch and not dirty:
        ok = False; print('harness/repo_baseline.json is stale: run tools/repo_baseline.py (differs:', ch[:5], ')')
    else:
        print('repo baseline ok' if not ch else 'repo working tree is modified: %s' % ch[:5])
except Exception as e:
    print('repo baseline not checked:', repr(e))
sys.exit(0 if ok else 1)
