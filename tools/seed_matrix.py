#!/venv/bin/python
"""Print the markdown table of seeded changes (seeded/<id>/meta.json) for DESIGN.md section 10."""
import json, glob, os
rows = []
for f in sorted(glob.glob('/verif/seeded/*/meta.json')):
    m = json.load(open(f))
    sid = os.path.basename(os.path.dirname(f))
    c = m.get('check_result', {})
    verdict = ('caught, failing input' if c.get('detected') and c.get('with_failing_input')
               else 'caught, no failing input' if c.get('detected') else 'MISSED')
    hist = m.get('history', '')
    rows.append('| %s | %s | %s | %s | %s%s |' % (sid, m['property'], m['summary'].replace('|', '/').replace('\n', ' ')[:150],
                                              m['needs'].replace('|', '/').replace('\n', ' ')[:140], verdict,
                                              (' — ' + hist) if hist else ''))
print('| id | property | change | needs | result of `./check <property>` (quick) |')
print('|----|----------|--------|-------|------|')
print('\n'.join(rows))
