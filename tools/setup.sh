#!/bin/sh
# Build the Lean project (models, proofs, drivers) offline. Idempotent.
# A module that does not build (e.g. a table theorem that no longer holds of the tables extracted
# from /repo) must not stop the others: every check rebuilds what it needs and reports a broken
# theorem itself, so failures here are only logged.
export PATH="/opt/veriftools/lean/bin:$PATH"
cd /verif/lean || exit 1
lake build || echo "setup: some modules did not build (see above); building the rest module by module"
for f in VermouthProps/*.lean; do
  m="VermouthProps.$(basename "$f" .lean)"
  lake build "$m" >/dev/null 2>&1 || echo "setup: $m does not build"
done
# drivers (native executables, Mathlib-free import closure)
for d in $(sed -n 's/^name = "\(driver_[a-z0-9]*\)"/\1/p' lakefile.toml); do
  lake build "$d" >/dev/null 2>&1 || echo "setup: driver $d failed to build; the interpreter fallback will be used"
done
mkdir -p /verif/evidence /verif/replays
exit 0
