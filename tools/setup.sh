#!/bin/sh
# Build the Lean project (models, proofs, drivers) offline. Idempotent.
set -e
export PATH="/opt/veriftools/lean/bin:$PATH"
cd /verif/lean
lake build
# drivers (native executables, Mathlib-free import closure)
for d in $(sed -n 's/^name = "\(driver_[a-z0-9]*\)"/\1/p' lakefile.toml); do
  lake build "$d" || echo "driver $d failed to link; the interpreter fallback will be used"
done
mkdir -p /verif/evidence /verif/replays
