#!/venv/bin/python
"""Refresh the seeded-change table of DESIGN.md section 10.3 from seeded/*/meta.json."""
import subprocess
p = '/verif/DESIGN.md'
s = open(p).read()
tab = subprocess.run(['/verif/tools/seed_matrix.py'], capture_output=True, text=True).stdout
a, b = '<!-- SEED-MATRIX-BEGIN -->\n', '<!-- SEED-MATRIX-END -->'
s = s[:s.index(a) + len(a)] + tab + s[s.index(b):]
open(p, 'w').write(s)
