#!/venv/bin/python
"""Re-run the property checks against the stored seeded changes (seeded/<id>/patch.diff) - regression of the
detection matrix after the checks were changed.  No test-suite run, no demo run (tools/seeded.py does those when a
change is first confirmed).

usage: tools/seeded_regress.py [-j N] [--tier quick] [ids or property ids ...]   (default: all)

One scratch worktree of /repo per change under /tmp (removed afterwards); changes of ONE property run one after the
other (they regenerate the same lean/Generated files), different properties run in parallel.  Results are written
to seeded/<id>/regress.json and summarised on stdout; a change whose patch no longer applies to /repo's HEAD (because
a later fix: commit rewrote the lines) is reported as 'stale'.
"""
import json, os, shutil, subprocess, sys, time
from concurrent.futures import ThreadPoolExecutor

V = os.environ.get('VERIF_HOME', '/verif')
args = sys.argv[1:]
jobs = 4
tier = 'quick'
if '-j' in args:
    i = args.index('-j'); jobs = int(args[i + 1]); del args[i:i + 2]
if '--tier' in args:
    i = args.index('--tier'); tier = args[i + 1]; del args[i:i + 2]
all_ids = sorted(d for d in os.listdir(V + '/seeded') if os.path.exists('%s/seeded/%s/patch.diff' % (V, d)))
sel = [s for s in all_ids if not args or s in args or s[:3] in args]


def sh(cmd, **kw):
    p = subprocess.run(cmd, stdout=subprocess.PIPE, stderr=subprocess.STDOUT, text=True, **kw)
    return p.returncode, p.stdout


def one(sid):
    src = '%s/seeded/%s' % (V, sid)
    pid = json.load(open(src + '/meta.json'))['property']
    wt = '/tmp/sr_%s_%d' % (sid, os.getpid())
    res = {'id': sid, 'property': pid, 'tier': tier,
           'repo_head': sh(['git', '-C', '/repo', 'rev-parse', '--short', 'HEAD'])[1].strip(),
           'verif_head': sh(['git', '-C', V, 'rev-parse', '--short', 'HEAD'])[1].strip()}
    sh(['git', '-C', '/repo', 'worktree', 'add', '--detach', wt, 'HEAD'])
    try:
        rc, out = sh(['git', '-C', wt, 'apply', src + '/patch.diff'])
        if rc != 0:
            sh(['git', '-C', wt, 'checkout', '--', '.'])
            rc, out = sh(['patch', '-p1', '--no-backup-if-mismatch', '-i', src + '/patch.diff'], cwd=wt)
        if rc != 0:
            res['status'] = 'stale'
            return res
        t0 = time.time()
        rc, out = sh([V + '/check', pid, '--tier', tier], env=dict(os.environ, VERIF_REPO=wt), cwd=V, timeout=3600)
        lines = [l for l in out.split('\n') if l.startswith(('VIOLATION', pid + ' ', pid + ':', 'TIMEOUT'))]
        viol = [l for l in lines if l.startswith('VIOLATION')]
        res.update(check_exit=rc, wall_s=round(time.time() - t0, 1), lines=[l[:240] for l in lines],
                   detected=rc == 1 and bool(viol),
                   with_failing_input=bool(viol) and 'no-failing-input-found' not in viol[0],
                   deepened=any('deepening' in l for l in lines))
        res['status'] = ('caught' if res['with_failing_input'] else 'caught-no-input') if res['detected'] else 'MISSED'
        return res
    finally:
        sh(['git', '-C', '/repo', 'worktree', 'remove', '--force', wt])
        shutil.rmtree(wt, ignore_errors=True)


def per_property(ids):
    out = []
    for sid in ids:
        try:
            r = one(sid)
        except Exception as e:  # keep going
            r = {'id': sid, 'status': 'error', 'error': repr(e)[:300]}
        json.dump(r, open('%s/seeded/%s/regress.json' % (V, sid), 'w'), indent=1)
        print('%-6s %-16s %6.1fs %s' % (sid, r.get('status'), r.get('wall_s', 0), 'deepened' if r.get('deepened') else ''), flush=True)
        out.append(r)
    return out


groups = {}
for s in sel:
    groups.setdefault(s[:3], []).append(s)
with ThreadPoolExecutor(jobs) as ex:
    results = [r for rs in ex.map(per_property, groups.values()) for r in rs]
sh(['git', '-C', V, 'checkout', '--', 'lean/Generated'])
bad = [r['id'] for r in results if r.get('status') not in ('caught', 'stale')]
print('%d changes: %d caught with failing input, %d stale, other: %s'
      % (len(results), sum(r.get('status') == 'caught' for r in results), sum(r.get('status') == 'stale' for r in results), bad))
