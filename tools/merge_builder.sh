#!/bin/sh
# usage: tools/merge_builder.sh Cxx   - merge the clone /tmp/vb_Cxx (branch main) into /verif, rebuild, run the check, commit
set -e
id="$1"
cd /verif
git pull -q --no-edit ${VB:-/tmp/vb_$id} main || true
# evidence files are regenerated below: on conflict take the builder's copy
for f in $(git diff --name-only --diff-filter=U); do
  case "$f" in
    evidence/*) git checkout --theirs "$f"; git add "$f";;
    *) echo "CONFLICT in $f - resolve by hand"; exit 1;;
  esac
done
git commit -q --no-edit 2>/dev/null || true
export PATH="/opt/veriftools/lean/bin:$PATH"
(cd lean && lake build 2>&1 | grep -E "error|✖|Build completed" | head -5)
(cd lean && lake build driver_$(echo $id | tr 'A-Z' 'a-z') 2>&1 | tail -1)
./check $id --tier quick 2>&1 | grep -v conda | tail -3
tools/gen_manifest.py > /dev/null
tools/validate.py | grep -v "evidence ok" || true
git add -A && git commit -qm "merge $id extension round; evidence; manifest" && echo merged $id
