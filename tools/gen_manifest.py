#!/venv/bin/python
"""Compose /verif/MANIFEST.json from harness/manifest_parts/Cxx.json (one file per claimed property).
Properties without a part file are listed under not_applicable with the reason in NOT_CLAIMED."""
import json, os, glob
V = '/verif'
ids = [json.loads(l)['id'] for l in open(V + '/properties.jsonl')]
NOT_CLAIMED = json.load(open(V + '/harness/manifest_parts/_not_claimed.json'))
checks, na = [], []
for pid in ids:
    p = V + '/harness/manifest_parts/%s.json' % pid
    if os.path.exists(p):
        part = json.load(open(p))
        c = {
            'property_id': pid,
            'quick_cmd': './check %s --tier quick' % pid,
            'thorough_cmd': './check %s --tier thorough' % pid,
            'evidence_file': '/verif/evidence/%s.json' % pid,
            'replay_cmd_template': './check %s --replay {path}' % pid,
            'engine': 'lean-model+differential',
        }
        c.update(part)
        checks.append(c)
    else:
        na.append({'property_id': pid, 'reason': NOT_CLAIMED.get(pid, 'check not built yet in this round; see DESIGN.md section 5')})
man = {
    'version': 1,
    'setup_cmd': 'cd /verif && sh tools/setup.sh',
    'hooks': {
        'guard': 'VERMOUTH_VERIF',
        'enable': 'no source hooks are needed: the harness wraps functions from outside (runpy, sys.addaudithook, monkeypatched module attributes); checks export VERMOUTH_VERIF=1 for completeness',
        'baseline_off_cmd': 'cd /repo && /venv/bin/python -m pytest -ra -q -p no:cacheprovider --timeout=900 --continue-on-collection-errors',
        'source_commits': [],
        'add_only': True,
    },
    'engines': [{
        'name': 'lean-model+differential',
        'path': '/verif/lean + /verif/harness',
        'serves_properties': [c['property_id'] for c in checks],
        'kind_free_text': 'Lean 4 executable models with kernel-checked property theorems (lake build + #print axioms audit on every run), tables re-extracted from /repo into lean/Generated, tied to the real code by differential runs through a line protocol plus an independent Python oracle of the property on the real code',
    }],
    'checks': checks,
    'not_applicable': na,
    'notes': 'See DESIGN.md. Fix commits in /repo and known findings are listed in known_findings.json.',
}
json.dump(man, open(V + '/MANIFEST.json', 'w'), indent=1)
print('claimed', [c['property_id'] for c in checks])
