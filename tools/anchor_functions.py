#!/usr/bin/env python3
"""Resolve the `where` strings of every property's anchors (file:line ranges at the PINNED commit) to function
qualified names, so that the line coverage of the anchored code by the correspondence stream can be measured on the
CURRENT tree whatever the line numbers have become.  Writes harness/anchor_functions.json (committed; regenerate only
when properties.jsonl changes - it never does).

usage: tools/anchor_functions.py [pinned-commit]     (default: the root commit of /repo)
"""
import ast, json, os, re, subprocess, sys

VERIF = os.path.dirname(os.path.dirname(os.path.abspath(__file__)))
REPO = '/repo'
pin = sys.argv[1] if len(sys.argv) > 1 else subprocess.run(
    ['git', '-C', REPO, 'rev-list', '--max-parents=0', 'HEAD'], capture_output=True, text=True).stdout.split()[0]
tracked = subprocess.run(['git', '-C', REPO, 'ls-tree', '-r', '--name-only', pin], capture_output=True, text=True).stdout.split()


def resolve(name, files):
    cands = [f for f in files if f == name or f.endswith('/' + name)]
    if not cands:
        cands = [f for f in tracked if (f == name or f.endswith('/' + name)) and (f.startswith('vermouth/') or f.startswith('bin/'))]
    return cands[0] if cands else None


def functions(path):
    src = subprocess.run(['git', '-C', REPO, 'show', '%s:%s' % (pin, path)], capture_output=True, text=True).stdout
    out = []

    def walk(node, prefix):
        for ch in ast.iter_child_nodes(node):
            if isinstance(ch, (ast.FunctionDef, ast.AsyncFunctionDef, ast.ClassDef)):
                q = prefix + ch.name
                if not isinstance(ch, ast.ClassDef):
                    out.append((q, ch.lineno, ch.end_lineno))
                walk(ch, q + '.')
    walk(ast.parse(src), '')
    return out


res = {}
for l in open(os.path.join(VERIF, 'properties.jsonl')):
    d = json.loads(l)
    a = d['anchors']
    got = {}
    for item in a.get('state', []) + a.get('mechanism', []):
        w = item['where']
        for m in re.finditer(r'([\w/]+\.py|bin/martinize2):([\d,\s-]+)', w):
            path = resolve(m.group(1), a['files'])
            if not path:
                continue
            fns = functions(path)
            for r in re.finditer(r'(\d+)(?:-(\d+))?', m.group(2)):
                lo = int(r.group(1)); hi = int(r.group(2) or r.group(1))
                for q, s, e in fns:
                    # a function is anchored when the range covers at least 3 of its lines, its def line, or lies inside it
                    ov = min(hi, e) - max(lo, s) + 1
                    if ov >= 3 or (lo <= s <= hi) or (s <= lo and hi <= e):
                        got.setdefault(path, set()).add(q)
    res[d['id']] = {p: sorted(v) for p, v in sorted(got.items())}
json.dump({'pinned_commit': pin, 'functions': res}, open(os.path.join(VERIF, 'harness', 'anchor_functions.json'), 'w'), indent=1)
for k, v in res.items():
    print(k, sum(len(x) for x in v.values()), 'functions in', len(v), 'files')
