#!/venv/bin/python
"""Differential regression guard for `fix:` commits that touch the pipeline: run the repository's
tier-0/tier-1 integration commands (which the pinned suite cannot collect in this sandbox) with two
repo roots and report every written file that differs (comment lines ignored).
usage: tools/integration.py <repo_old> <repo_new>"""
import os, shlex, subprocess, sys, tempfile, shutil
from concurrent.futures import ThreadPoolExecutor
old, new = [os.path.abspath(p) for p in sys.argv[1:3]]

def run_case(repo, tier, prot):
    data = os.path.join(repo, 'vermouth/tests/data/integration_tests')
    d = os.path.join(data, tier, prot, 'martinize2')
    cmd = shlex.split(open(os.path.join(d, 'command')).read().strip())
    args = ['/venv/bin/python']
    for t in cmd:
        if t.startswith('martinize2'):
            args.append(os.path.join(repo, 'bin/martinize2'))
        elif t.startswith('.'):
            args.append(os.path.join(d, t))
        else:
            args.append(t)
    tmp = tempfile.mkdtemp(prefix='integ_')
    try:
        env = dict(os.environ, PYTHONPATH=repo, PYTHONHASHSEED='0')
        p = subprocess.run(args, cwd=tmp, env=env, stdout=subprocess.PIPE, stderr=subprocess.PIPE, text=True, timeout=900)
        files = {}
        for f in sorted(os.listdir(tmp)):
            files[f] = [l.rstrip() for l in open(os.path.join(tmp, f), errors='replace')
                        if not l.startswith(';') and not l.startswith('REMARK') and not l.startswith('TITLE')]
        warns = sorted(l.split(' - ', 2)[-1][:120] for l in p.stderr.split('\n') if 'WARNING -' in l or 'ERROR -' in l)
        return p.returncode, files, warns
    except subprocess.TimeoutExpired:
        return 'timeout', {}, []
    finally:
        shutil.rmtree(tmp, ignore_errors=True)

data = os.path.join(new, 'vermouth/tests/data/integration_tests')
cases = [(t, p) for t in ('tier-0', 'tier-1') for p in sorted(os.listdir(os.path.join(data, t)))
         if os.path.exists(os.path.join(data, t, p, 'martinize2', 'command'))]
jobs = [(r, t, p) for (t, p) in cases for r in (old, new)]
with ThreadPoolExecutor(14) as ex:
    res = list(ex.map(lambda j: run_case(*j), jobs))
ndiff = 0
for i, (t, p) in enumerate(cases):
    a, b = res[2 * i], res[2 * i + 1]
    msgs = []
    if a[0] != b[0]:
        msgs.append('exit %s -> %s' % (a[0], b[0]))
    if a[2] != b[2]:
        msgs.append('warnings %s -> %s' % (a[2], b[2]))
    for f in sorted(set(a[1]) | set(b[1])):
        x, y = a[1].get(f), b[1].get(f)
        if x != y:
            if x is None or y is None:
                msgs.append('%s only in %s' % (f, 'new' if x is None else 'old'))
            else:
                k = next((i for i, (u, v) in enumerate(zip(x, y)) if u != v), min(len(x), len(y)))
                msgs.append('%s differs at line %d: %r -> %r' % (f, k, x[k] if k < len(x) else None, y[k] if k < len(y) else None))
    ndiff += bool(msgs)
    print('%s/%s exit=%s %s' % (t, p, b[0], 'SAME' if not msgs else 'DIFF ' + ' | '.join(msgs)))
print('cases with differences:', ndiff)
