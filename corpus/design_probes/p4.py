import warnings; warnings.filterwarnings('ignore')
import numpy as np
from vermouth.molecule import Molecule
from vermouth.system import System
from vermouth.dssp.dssp import AnnotateResidues, convert_dssp_to_martini
def mk(nres, resname):
    m = Molecule()
    k=0
    for r in range(nres):
        for a in range(2):
            m.add_node(k, atomname=f'A{a}', resname=resname, resid=r+1, chain='A'); k+=1
    return m
s = System()
s.add_molecule(mk(2,'LIG'))   # unselected first
s.add_molecule(mk(3,'ALA'))   # selected
sel = lambda mol: all(mol.nodes[n]['resname']=='ALA' for n in mol)
try:
    AnnotateResidues('ss', 'HEC', molecule_selector=sel).run_system(s)
    for m in s.molecules:
        print([(d['resname'], d['resid'], d.get('ss')) for _,d in m.nodes(data=True)])
except Exception as e:
    print('ERR', type(e), e)
s = System()
s.add_molecule(mk(3,'LIG'))   # unselected first, same length
s.add_molecule(mk(3,'ALA'))   # selected
AnnotateResidues('ss', 'HEC', molecule_selector=sel).run_system(s)
for m in s.molecules:
    print([(d['resname'], d['resid'], d.get('ss')) for _,d in m.nodes(data=True)])
print(convert_dssp_to_martini('CHHHHHHHHHHCHC'), convert_dssp_to_martini('HHHHHHHH'), convert_dssp_to_martini('GGGHHHIIIC'))
