import warnings; warnings.filterwarnings('ignore')
import numpy as np, networkx as nx
from vermouth.molecule import Molecule
def mk(n, tag):
    m = Molecule(nrexcl=1)
    for i in range(n):
        m.add_node(i, atomname=f'{tag}{i}', resid=1, charge_group=1)
    for i in range(n-1):
        m.add_edge(i,i+1); m.add_interaction('bonds',(i,i+1),['1'])
    return m
m = Molecule(nrexcl=1)
m.merge_molecule(mk(2,'a')); print(m.max_node, list(m.nodes))
m.merge_molecule(mk(2,'b')); print(m.max_node, list(m.nodes))
m.add_nodes_from([(5,{'atomname':'x5','resid':9,'charge_group':9}),(6,{'atomname':'x6','resid':9,'charge_group':9})])
print(m.max_node, list(m.nodes))
c = m.merge_molecule(mk(2,'c')); print(c, m.max_node, [(k,d['atomname']) for k,d in m.nodes(data=True)])
# scenario 2: add_node with arbitrary key after merges
m = Molecule(nrexcl=1)
m.merge_molecule(mk(2,'a')); m.merge_molecule(mk(2,'b'))
m.add_node(10, atomname='x', resid=3, charge_group=3); print(m.max_node)
try:
    m.merge_molecule(mk(2,'c')); print([(k,d['atomname']) for k,d in m.nodes(data=True)])
except Exception as e: print('ERR', type(e), e)
# scenario 3: remove last node after merges
m = Molecule(nrexcl=1)
m.merge_molecule(mk(2,'a')); m.merge_molecule(mk(2,'b'))
m.remove_node(4)
try:
    m.merge_molecule(mk(2,'c')); print([(k,d['atomname']) for k,d in m.nodes(data=True)])
except Exception as e: print('ERR', type(e), e)
# scenario 4: remove_nodes_from with generator
m = mk(4,'a')
m.remove_nodes_from(n for n in [1])
print(dict(m.interactions), list(m.nodes))
# scenario 5: copy retains max_node?
m = Molecule(nrexcl=1)
m.merge_molecule(mk(2,'a')); m.merge_molecule(mk(2,'b'))
c = m.copy(); print('copy max_node', c.max_node)
# scenario 6: re-add existing node via add_node
m = Molecule(nrexcl=1)
m.merge_molecule(mk(2,'a')); m.merge_molecule(mk(2,'b'))
m.add_node(2, foo=1); print(m.max_node, list(m.nodes))
try:
    c=m.merge_molecule(mk(2,'c')); print(c,[(k,d['atomname']) for k,d in m.nodes(data=True)])
except Exception as e: print('ERR', type(e), e)
