import warnings; warnings.filterwarnings('ignore')
import sys, os, logging, itertools
from pathlib import Path
import numpy as np, networkx as nx
import vermouth, vermouth.forcefield
from vermouth import DATA_PATH
from vermouth.map_input import read_mapping_directory, generate_all_self_mappings, combine_mappings
from vermouth.processors.do_mapping import do_mapping
ffs = vermouth.forcefield.find_force_fields(Path(DATA_PATH)/'force_fields')
maps = read_mapping_directory(Path(DATA_PATH)/'mappings', ffs)
combine_mappings(maps, generate_all_self_mappings(ffs.values()))
logs=[]
class H(logging.Handler):
    def emit(self, r): logs.append((r.levelname, getattr(r,'type','?')))
logging.getLogger('vermouth').addHandler(H())
def universal(path):
    s = vermouth.System()
    vermouth.PDBInput(str(path), exclude=('HOH','SOL'), ignh=False, modelidx=1).run_system(s)
    s.force_field = ffs['charmm']
    vermouth.MakeBonds(allow_name=True, allow_dist=True, fudge=1.2).run_system(s)
    vermouth.AnnotateMutMod([['cter','C-ter'],['nter','N-ter']], []).run_system(s)
    vermouth.RepairGraph(delete_unknown=True, include_graph=False).run_system(s)
    vermouth.CanonicalizeModifications().run_system(s)
    return s
base = Path('/repo/vermouth/tests/data/integration_tests/tier-1')
for prot in ['bpti','3i40','1UBQ']:
    s = universal(base/prot/'aa.pdb')
    print(prot, 'molecules', len(s.molecules), [len(m) for m in s.molecules])
    for mol in s.molecules:
        logs.clear()
        out = do_mapping(mol, maps, ffs['martini3001'], attribute_keep=('cgsecstruct','chain','secstruct'), attribute_must=('resname',), attribute_stash=('resid',))
        # oracle: resid consecutive
        resids = [out.nodes[n]['resid'] for n in out]
        uniq = sorted(set(resids))
        cons = uniq == list(range(1, len(uniq)+1))
        # constituent map
        cons_of = {n: set(out.nodes[n]['graph'].nodes) for n in out}
        # edges between different residues
        bad=0
        for u,v in itertools.combinations(out.nodes,2):
            if out.nodes[u]['resid']==out.nodes[v]['resid']: continue
            bonded = any(mol.has_edge(a,b) for a in cons_of[u] for b in cons_of[v])
            if bonded != out.has_edge(u,v): bad+=1
        mapped = set().union(*cons_of.values())
        unm = [n for n in mol if n not in mapped and mol.nodes[n].get('element')!='H']
        print('  out', len(out), 'residues', len(uniq), 'consecutive', cons, 'edge mismatches', bad, 'unmapped nonH', len(unm), 'warnings', sorted(set(logs)))
        # dangling interactions
        dang = [i for t,l in out.interactions.items() for i in l if any(a not in out for a in i.atoms)]
        print('  dangling interactions', len(dang), 'old_resid sample', [out.nodes[n].get('_old_resid') for n in list(out)[:3]])
