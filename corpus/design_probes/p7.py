import warnings; warnings.filterwarnings('ignore')
import os, tempfile, shutil
from vermouth.file_writer import DeferredFileWriter
d = tempfile.mkdtemp(); os.chdir(d)
W = type.__call__(DeferredFileWriter)
open('a.txt','w').write('OLD')
with W.open('a.txt','a') as f: f.write('x')
with W.open('a.txt','w') as f: f.write('y')
print(list(W.open_files))
W.write()
print(sorted(os.listdir('.')), open('a.txt').read())
# w then a
open('b.txt','w').write('OLD')
with W.open('b.txt','w') as f: f.write('x')
with W.open('b.txt','a') as f: f.write('y')
W.write(); print(sorted(os.listdir('.')), open('b.txt').read())
# backup collision
open('c.txt','w').write('OLD'); open('#c.txt.1#','w').write('BK1')
with W.open('c.txt','w') as f: f.write('new')
with W.open('#c.txt.2#','w') as f: f.write('other')
W.write(); print(sorted(os.listdir('.')), {n: open(n).read() for n in sorted(os.listdir('.')) if 'c.txt' in n})
shutil.rmtree(d)
