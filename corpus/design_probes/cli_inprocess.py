import warnings; warnings.filterwarnings('ignore')
import sys, os, runpy, time, io
opened = []
def hook(ev, args):
    if ev == 'open':
        path, mode, flags = args
        if isinstance(mode, str) and any(c in mode for c in 'wax+'):
            opened.append((str(path), mode))
        elif mode is None and isinstance(flags, int) and (flags & (os.O_WRONLY|os.O_RDWR)):
            opened.append((str(path), 'flags=%o' % flags))
sys.addaudithook(hook)
def cli(argv):
    sys.argv = ['martinize2'] + argv
    t=time.time()
    try:
        runpy.run_path('/repo/bin/martinize2', run_name='__main__')
        code = 0
    except SystemExit as e:
        code = e.code
    return code, time.time()-t
aa = '/repo/vermouth/tests/data/integration_tests/tier-0/mini-protein1_betasheet/aa.pdb'
before = set(os.listdir('.'))
code, dt = cli(['-f', aa, '-x', 'cg.pdb', '-o', 'topol.top', '-ff', 'martini22', '-ss', 'C', '-noscfix', '-scfix'])
print('exit', code, 'time %.1f' % dt, 'new files', sorted(set(os.listdir('.'))-before))
print([o for o in opened if not o[0].startswith('/dev')][:20])
opened.clear()
before = set(os.listdir('.'))
code, dt = cli(['-f', aa, '-x', 'cg.pdb', '-o', 'topol.top', '-ff', 'martini22', '-ss', 'C', '-noscfix', '-scfix', '-maxwarn', '1'])
print('exit', code, 'time %.1f' % dt, 'new files', sorted(set(os.listdir('.'))-before))
print([o for o in opened if not o[0].startswith('/dev')][:20])
