import warnings; warnings.filterwarnings('ignore')
import itertools, re, time
from vermouth.dssp.dssp import convert_dssp_to_martini
def spec(s):
    SS_CG = {'1': 'H', '2': 'H', '3': 'H', 'H': 'H', 'G': 'H', 'I': 'H','B': 'E', 'E': 'E', 'T': 'T', 'S': 'S', 'C': 'C'}
    cg = ''.join(SS_CG[c] for c in s)
    def rw(m):
        L = len(m.group(0))
        if L <= 4: return '3'*L
        if L == 5: return '13332'
        if L == 6: return '113322'
        if L == 7: return '1113222'
        return '1111' + 'H'*(L-8) + '2222'
    return re.sub('H+', rw, cg)
t=time.time(); n=0; bad=0
for L in range(0, 17):
    for tup in itertools.product('HC', repeat=L):
        s=''.join(tup); n+=1
        if convert_dssp_to_martini(s) != spec(s):
            bad+=1
            if bad<5: print('DIFF', s, convert_dssp_to_martini(s), spec(s))
print(n, bad, time.time()-t)
import random
r=random.Random(1)
for i in range(20000):
    s=''.join(r.choice('123HGIBETSC') for _ in range(r.randint(0,60)))
    if convert_dssp_to_martini(s) != spec(s):
        print('DIFF', s); break
else: print('random ok')
