import warnings; warnings.filterwarnings('ignore')
import numpy as np
from vermouth.molecule import Molecule
def mk(resid, charge):
    m = Molecule(nrexcl=1)
    m.add_node(0, atomname='A', atype='P1', resname='ION', resid=resid, charge_group=1, charge=charge)
    return m
print('resid 100000 vs 100001 share:', mk(100000,1.0).share_moltype_with(mk(100001,1.0)))
print('resid 1 vs 2 share:', mk(1,1.0).share_moltype_with(mk(2,1.0)))
print('charge 1.0 vs 1.000001 share:', mk(1,1.0).share_moltype_with(mk(1,1.000001)))
