import warnings; warnings.filterwarnings('ignore')
import networkx as nx, logging
from vermouth.molecule import Molecule, Link
from vermouth.forcefield import ForceField
from vermouth.processors.canonicalize_modifications import fix_ptm
ff = ForceField(name='t')
mod = Link(force_field=ff); mod.name='anchoronly'
mod.add_node(0, atomname='CA', PTM_atom=False, element='C')
mod.graph['name']='anchoronly'
ff.modifications['anchoronly'] = mod
m = Molecule(force_field=ff)
m.add_node(0, atomname='CA', element='C', resid=1, resname='ALA', chain='A', atomid=1)
m.add_node(1, atomname='X1', element='O', resid=1, resname='ALA', chain='A', atomid=2, PTM_atom=True)
m.add_edge(0,1)
try:
    fix_ptm(m); print('ok', list(m.nodes))
except RecursionError as e: print('RecursionError')
except Exception as e: print('ERR', type(e), e)
