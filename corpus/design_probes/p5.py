import warnings; warnings.filterwarnings('ignore')
import logging
import numpy as np
import vermouth, vermouth.forcefield
from vermouth.molecule import Molecule
from vermouth.system import System
from vermouth.processors.annotate_mut_mod import AnnotateMutMod, parse_residue_spec
class H(logging.Handler):
    def emit(self, r): print('LOG', r.levelname, r.getMessage())
logging.getLogger('vermouth').addHandler(H())
ff = vermouth.forcefield.get_native_force_field('charmm')
def mk(resnames):
    m = Molecule(force_field=ff)
    k=0
    for r,rn in enumerate(resnames):
        for a in ('N','CA','C'):
            m.add_node(k, atomname=a, resname=rn, resid=r+1, chain='A'); k+=1
        if r>0: m.add_edge(k-3, k-4)
    return m
s = System(force_field=ff); s.add_molecule(mk(['GLY','ALA','GLY']))
p = AnnotateMutMod(modifications=[['cter','C-ter'],['nter','N-ter']], mutations=[['A-PHE45','ALA']])
p.run_system(s)
print(p.resspec_counts)
print('--- only failing')
s = System(force_field=ff); s.add_molecule(mk(['GLY','ALA','GLY']))
p = AnnotateMutMod(mutations=[['A-PHE45','ALA']]); p.run_system(s); print(p.resspec_counts)
print('--- fail then succeed')
s = System(force_field=ff); s.add_molecule(mk(['GLY','ALA','GLY']))
p = AnnotateMutMod(mutations=[['A-PHE45','ALA'],['ALA2','GLY']]); p.run_system(s); print(p.resspec_counts)
print('--- empty')
s = System(force_field=ff); s.add_molecule(mk(['GLY','ALA','GLY']))
try:
    p = AnnotateMutMod(); p.run_system(s); print(p.resspec_counts)
except Exception as e: print('ERR', type(e), e)
for sp in ['A-PHE45','PO4','PO4#','PO4#3','45','A-','','A-B-C3','nter','A-nter','X-#5']:
    print(repr(sp), parse_residue_spec(sp))
