import warnings; warnings.filterwarnings('ignore')
import signal
from vermouth.ffinput import read_ff
from vermouth.forcefield import ForceField
txt = """
[ macros ]
a $b
b x
[ link ]
[ bonds ]
$a +A 1 0.1 100
"""
def handler(s, f): raise TimeoutError()
signal.signal(signal.SIGALRM, handler); signal.alarm(5)
try:
    ff = ForceField(name='t'); read_ff(txt.split('\n'), ff); print([list(l.nodes) for l in ff.links])
except TimeoutError: print('TIMEOUT (infinite loop)')
except Exception as e: print('ERR', type(e), e, '| cause:', repr(e.__cause__))
signal.alarm(0)
txt2 = """
[ macros ]
a $a
[ link ]
[ bonds ]
$a +A 1 0.1 100
"""
signal.alarm(5)
try:
    ff = ForceField(name='t'); read_ff(txt2.split('\n'), ff); print([list(l.nodes) for l in ff.links])
except TimeoutError: print('TIMEOUT (infinite loop)')
except Exception as e: print('ERR', type(e), e, '| cause:', repr(e.__cause__))
signal.alarm(0)
