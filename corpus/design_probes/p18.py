import warnings; warnings.filterwarnings('ignore')
import random, time, signal, sys
import networkx as nx, numpy as np
import vermouth, vermouth.forcefield
from vermouth.molecule import Molecule
from vermouth.processors.repair_graph import make_reference, repair_graph
ff = vermouth.forcefield.get_native_force_field('charmm')
rng = random.Random(3)
names = ['GLY','ALA','SER','VAL','LEU','ILE','THR','ASP','ASN','GLU','GLN','LYS','ARG','PHE','TYR','TRP','HSD','MET','CYS','PRO']
class TO(Exception): pass
def h(s,f): raise TO()
signal.signal(signal.SIGALRM, h)
def present(block, mode):
    nodes = list(block.nodes)
    order = nodes[:]
    if 'perm' in mode: rng.shuffle(order)
    m = Molecule(force_field=ff)
    key = {}
    for i, n in enumerate(order):
        a = dict(block.nodes[n])
        el = a.get('element') or a['atomname'][0]
        nm = a['atomname']
        if 'rename' in mode: nm = el + str(i)   # garbage names, element kept in first letter
        m.add_node(i*3+1, atomname=nm, element=el, resname=block.name, resid=1, chain='A', atomid=i+1, position=np.zeros(3))
        key[n] = i*3+1
    for u,v in block.edges: m.add_edge(key[u], key[v])
    return m, key
for name in names:
    block = ff.blocks[name]
    for mode in (['perm'], ['rename'], ['perm','rename']):
        m, key = present(block, mode)
        t=time.time()
        signal.alarm(30)
        try:
            ref = make_reference(m); repair_graph(m, ref, include_graph=False)
            signal.alarm(0)
        except TO:
            print(name, mode, 'TIMEOUT 30s', len(block)); continue
        except Exception as e:
            signal.alarm(0); print(name, mode, 'ERR', type(e), e); continue
        dt=time.time()-t
        ptm = [n for n in m if m.nodes[n].get('PTM_atom')]
        namesout = sorted(m.nodes[n]['atomname'] for n in m)
        ok_names = namesout == sorted(block.nodes[n]['atomname'] for n in block)
        # embedding check
        inv = {m.nodes[n]['atomname']: n for n in m}
        bname = {block.nodes[n]['atomname']: n for n in block}
        emb = all(block.has_edge(bname[m.nodes[u]['atomname']], bname[m.nodes[v]['atomname']]) for u,v in m.edges) and m.number_of_edges()==block.number_of_edges()
        flag = '' if (not ptm and ok_names and emb and len(m)==len(block)) else '  <<<<<< PROBLEM'
        print(f'{name:4s} {"+".join(mode):12s} n={len(block):2d} t={dt:5.2f}s ptm={len(ptm)} size={len(m)} names_ok={ok_names} emb={emb}{flag}')
