import warnings; warnings.filterwarnings('ignore')
import numpy as np, networkx as nx
import vermouth
from vermouth.molecule import Molecule
from vermouth.system import System
from vermouth.pdb.pdb import write_pdb_string, read_pdb
from vermouth.gmx.topology import write_gmx_topology
from vermouth.file_writer import DeferredFileWriter
import os, tempfile

# --- C16: CONECT with > 9999 atoms
def mk(n, start=0):
    m = Molecule()
    for i in range(n):
        m.add_node(start+i, atomname='C%d' % (i%10), resname='ALA', resid=i//10+1, chain='A', position=np.array([i*0.1,0,0]), element='C', atomid=i+1)
    for i in range(n-1):
        m.add_edge(start+i, start+i+1)
    return m
s = System(); s.add_molecule(mk(10010))
txt = write_pdb_string(s)
lines=[l for l in txt.split('\n') if l.startswith('CONECT')]
print(lines[9990:10002])
open('big.pdb','w').write(txt)
mols = read_pdb('big.pdb')
print(len(mols), [ (len(m), m.number_of_edges()) for m in mols])
m=mols[0]
bad=[e for e in m.edges if abs(e[0]-e[1])!=1]
print('bad edges', bad[:10], len(bad))
