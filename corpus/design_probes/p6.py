import warnings; warnings.filterwarnings('ignore')
import vermouth, vermouth.forcefield
from vermouth.ffinput import read_ff
from vermouth.forcefield import ForceField
txt = """
[ link ]
[ bonds ]
A +A 1 0.1 100
[ link ]
[ bonds ]
B +B 1 0.2 200
[ moleculetype ]
XX 1
[ atoms ]
1 P1 1 XX A 1 0
2 P1 1 XX B 1 0
[ bonds ]
A B 1 0.3 300
[ link ]
[ bonds ]
C +C 1 0.3 300
[ macros ]
foo bar
[ link ]
[ bonds ]
D +D 1 0.3 300
"""
ff = ForceField(name='t')
read_ff(txt.split('\n'), ff)
print(len(ff.links), [list(l.nodes) for l in ff.links])
print([ [i.atoms for i in l.interactions['bonds']] for l in ff.links])
print(list(ff.blocks), [i for i in ff.blocks['XX'].interactions['bonds']])
