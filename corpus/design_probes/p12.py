import warnings; warnings.filterwarnings('ignore')
import numpy as np, networkx as nx
import vermouth, vermouth.forcefield
from vermouth.molecule import Molecule
from vermouth.system import System
from vermouth.processors.make_bonds import MakeBonds, VDW_RADII
ff = vermouth.forcefield.get_native_force_field('charmm')
def sysof(atoms):
    m = Molecule(force_field=ff)
    for i,(el,x) in enumerate(atoms):
        m.add_node(i, atomname=el+str(i), element=el, resname='UNK', resid=1, chain='A', position=np.array([x,0.,0.]))
    s = System(force_field=ff); s.add_molecule(m); return s
# Se at 0.9 nm from C
s = sysof([('Se',0.0),('C',0.9)]); MakeBonds(allow_name=False, fudge=1.0).run_system(s)
print('Se-C at 0.9nm bonded:', [list(m.edges) for m in s.molecules])
# fudge<1 : two C at 0.08, threshold 0.17*0.5=0.085
s = sysof([('C',0.0),('C',0.08)]); MakeBonds(allow_name=False, fudge=0.5).run_system(s)
print('C-C 0.08 fudge .5 (thr .085):', [list(m.edges) for m in s.molecules])
s = sysof([('C',0.0),('C',0.04)]); MakeBonds(allow_name=False, fudge=0.5).run_system(s)
print('C-C 0.04 fudge .5:', [list(m.edges) for m in s.molecules])
# elastic negative min force
from vermouth.processors.apply_rubber_band import apply_rubber_band, always_true
m = Molecule(force_field=ff)
for i in range(4):
    m.add_node(i, atomname='BB', resname='ALA', resid=i+1, chain='A', position=np.array([i*1.0,0.,0.]))
    if i: m.add_edge(i-1,i)
apply_rubber_band(m, lambda a: True, 0, 0.9, 0, 0, 700, -1, 6, always_true, 0)
print('neg min force bonds:', [(i.atoms, i.parameters) for i in m.interactions['bonds']])
