import warnings; warnings.filterwarnings('ignore')
import itertools, random, sys, time
import networkx as nx
from vermouth.ismags import ISMAGS
exec(open('p8.py').read().split("rng = random.Random")[0])
rng = random.Random(5)
bad=0; n=0; t0=time.time()
special = nx.Graph([(5,4),(4,0),(0,3),(3,12),(12,13),(9,8),(8,0),(3,16),(16,17)])
pats = [special]
while time.time()-t0 < 120:
    if n < len(pats): sg = pats[n]
    else:
        ns = rng.randint(6,10)
        sg = nx.random_labeled_tree(ns, seed=rng.randint(0,10**9))
        if rng.random()<.4:
            u,v = rng.sample(list(sg.nodes),2); sg.add_edge(u,v)
    ns = len(sg)
    # g: copy of sg plus extra nodes attached randomly
    g = sg.copy()
    extra = rng.randint(0,3)
    base = max(g.nodes)+1
    for i in range(extra):
        g.add_edge(base+i, rng.choice(list(g.nodes)))
    perm = rng.sample(range(0, 40), len(g)); g = nx.relabel_nodes(g, dict(zip(list(g.nodes), perm)))
    perm = rng.sample(range(0, 40), ns); sg = nx.relabel_nodes(sg, dict(zip(list(sg.nodes), perm)))
    n+=1
    A = auts(sg)
    if len(A) > 2000: continue
    full = brute_isos(g, sg)
    sym = [tuple(sorted(m.items())) for m in ISMAGS(g, sg).find_isomorphisms(symmetry=True)]
    nosym = [tuple(sorted(m.items())) for m in ISMAGS(g, sg).find_isomorphisms(symmetry=False)]
    if sorted(nosym) != sorted(full):
        print('NOSYM MISMATCH', len(nosym), len(full)); bad+=1
    cls = classes(full, A)
    cnt = [sum(1 for m in sym if m in c) for c in cls]
    if any(c != 1 for c in cnt) or any(m not in full for m in sym):
        print('SYM MISMATCH', cnt, len(A), 'g', sorted(g.edges), 'sg', sorted(sg.edges)); bad+=1
    if bad>5: break
print('cases', n, 'bad', bad)
