import warnings; warnings.filterwarnings('ignore')
import random, time, signal, sys
exec(open('p18.py').read().split("for name in names:")[0])
def h(s,f): raise TO()
signal.signal(signal.SIGALRM, h)
for name in ['ALA','LEU','PHE','ARG']:
    block = ff.blocks[name]
    for extra in (1,2,3,4):
        for missing in (0,2):
            m, key = present(block, ['perm','rename'])
            # remove some random non-bridging atoms (hydrogens)
            hs = [n for n in m if m.nodes[n]['element']=='H']
            for n in rng.sample(hs, min(missing,len(hs))): m.remove_node(n)
            heavy = [n for n in m if m.nodes[n]['element']!='H']
            base = max(m)+1
            for i in range(extra):
                m.add_node(base+i, atomname='X%d'%i, element=rng.choice('CNO'), resname=name, resid=1, chain='A', atomid=100+i, position=np.zeros(3))
                m.add_edge(base+i, rng.choice(heavy + [base+j for j in range(i)]))
            t=time.time(); signal.alarm(60)
            try:
                ref = make_reference(m); repair_graph(m, ref, include_graph=False); signal.alarm(0)
            except TO:
                print(name, 'extra', extra, 'missing', missing, 'TIMEOUT 60s'); continue
            dt=time.time()-t
            ptm=[n for n in m if m.nodes[n].get('PTM_atom')]
            print(f'{name} extra={extra} missing={missing} t={dt:6.2f}s ptm={len(ptm)} size={len(m)} block={len(block)}')
