import warnings; warnings.filterwarnings('ignore')
import numpy as np, networkx as nx
import vermouth
from vermouth.molecule import Molecule
from vermouth.system import System
from vermouth.gmx.topology import write_gmx_topology
from vermouth.file_writer import DeferredFileWriter
from vermouth.processors.name_moltype import NameMolType
import os
def mk(names):
    m = Molecule(nrexcl=1)
    for i,n in enumerate(names):
        m.add_node(i, atomname=n, atype='P1', resname='ALA', resid=1, chain='A', position=np.array([i*0.1,0,0]), charge_group=i+1)
    return m
s = System()
s.meta['header']=['hello']
for names in (['A','B'],['X'],['A','B']):
    s.add_molecule(mk(names))
NameMolType(deduplicate=True).run_system(s)
print([m.meta['moltype'] for m in s.molecules])
os.chdir('/tmp/probe')
write_gmx_topology(s, 'topol.top', itp_paths=[])
DeferredFileWriter().write()
print(open('topol.top').read())
print(sorted(os.listdir('.')))
