import warnings; warnings.filterwarnings('ignore')
import itertools, random, sys, time
import networkx as nx
from vermouth.ismags import ISMAGS
def brute_isos(g, sg):
    gm = nx.isomorphism.GraphMatcher(g, sg)
    return [tuple(sorted(m.items())) for m in gm.subgraph_isomorphisms_iter()]
def auts(sg):
    gm = nx.isomorphism.GraphMatcher(sg, sg)
    return [dict(m) for m in gm.isomorphisms_iter()]
def classes(full, A):
    # full: list of tuple(sorted((gnode, sgnode))) ; class = { m∘a }
    seen = {}
    cls = []
    for m in full:
        if m in seen: continue
        d = {s: g for g, s in m}  # sg -> g
        members = set()
        for a in A:
            # new map: sg node s -> d[a[s]]
            mm = tuple(sorted((d[a[s]], s) for s in d))
            members.add(mm)
        for x in members: seen[x] = len(cls)
        cls.append(members)
    return cls
rng = random.Random(int(sys.argv[1]) if len(sys.argv)>1 else 0)
bad = 0; n=0; t0=time.time()
while time.time()-t0 < float(sys.argv[2]) if len(sys.argv)>2 else 60:
    ns = rng.randint(1,6); ng = rng.randint(ns, 8)
    kind = rng.random()
    if kind < .3:
        sg = nx.gnp_random_graph(ns, rng.random(), seed=rng.randint(0,10**9))
    elif kind < .5:
        sg = nx.cycle_graph(ns) if ns>2 else nx.path_graph(ns)
    elif kind < .7:
        sg = nx.path_graph(ns)
    elif kind < .85:
        sg = nx.star_graph(ns-1)
    else:
        sg = nx.complete_graph(ns)
    g = nx.gnp_random_graph(ng, rng.random(), seed=rng.randint(0,10**9))
    # embed sg in g sometimes
    if rng.random()<.5 and ng>=ns:
        nodes = rng.sample(list(g.nodes), ns)
        mp = dict(zip(sg.nodes, nodes))
        for u,v in itertools.combinations(sg.nodes,2):
            if sg.has_edge(u,v): g.add_edge(mp[u],mp[v])
            elif g.has_edge(mp[u],mp[v]): g.remove_edge(mp[u],mp[v])
    # relabel
    perm = rng.sample(range(0, 30), ng); g = nx.relabel_nodes(g, dict(zip(list(g.nodes), perm)))
    perm = rng.sample(range(0, 30), ns); sg = nx.relabel_nodes(sg, dict(zip(list(sg.nodes), perm)))
    n+=1
    full = brute_isos(g, sg)
    try:
        nosym = [tuple(sorted(m.items())) for m in ISMAGS(g, sg).find_isomorphisms(symmetry=False)]
        sym = [tuple(sorted(m.items())) for m in ISMAGS(g, sg).find_isomorphisms(symmetry=True)]
    except Exception as e:
        print('EXC', type(e), e, sorted(g.edges), sorted(sg.edges), sorted(g.nodes), sorted(sg.nodes)); bad+=1; continue
    if sorted(nosym) != sorted(full):
        print('NOSYM MISMATCH', len(nosym), len(full), sorted(g.nodes), sorted(g.edges), sorted(sg.nodes), sorted(sg.edges)); bad+=1
    A = auts(sg)
    cls = classes(full, A)
    cnt = [sum(1 for m in sym if m in c) for c in cls]
    if any(c != 1 for c in cnt) or any(m not in full for m in sym):
        print('SYM MISMATCH', cnt, len(A), 'g', sorted(g.nodes), sorted(g.edges), 'sg', sorted(sg.nodes), sorted(sg.edges)); bad+=1
    if bad>8: break
print('cases', n, 'bad', bad)
