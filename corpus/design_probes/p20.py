import warnings; warnings.filterwarnings('ignore')
import numpy as np, io, os
from vermouth.molecule import Molecule
from vermouth.system import System
from vermouth.gmx.gro import write_gro
from vermouth.gmx.itp import write_molecule_itp
from vermouth.pdb.pdb import write_pdb_string
m = Molecule(nrexcl=1)
for k,(nm,aid) in enumerate([('A',3),('B',1),('C',2)]):
    m.add_node(k, atomname=nm, atype='P1', resname='XXX', resid=1, charge_group=1, atomid=aid, position=np.array([k*.1,0,0]), chain='A')
m.meta['moltype']='mol'
s=System(); s.add_molecule(m)
os.chdir('/tmp/probe')
write_gro(s, 'o.gro', defer_writing=False)
print(open('o.gro').read())
f=io.StringIO(); write_molecule_itp(m,f); print(f.getvalue())
print(write_pdb_string(s))
