import logging
from vermouth.forcefield import ForceField
from vermouth.molecule import Molecule, Block, Link
from vermouth.map_parser import Mapping
from vermouth.processors.do_mapping import do_mapping
logging.getLogger('vermouth').setLevel(logging.ERROR)
A = ForceField(name='a'); B = ForceField(name='b')
aa = Block(force_field=A, name='CYS'); cg = Block(force_field=B, name='CYS', nrexcl=1)
for n, b in (('CA','BB'),('SG','SC1')):
    aa.add_node(n, atomname=n, resname='CYS', resid=1); cg.add_node(b, atomname=b, resname='CYS', resid=1)
aa.add_edge('CA','SG')      # the target block has NO BB-SC1 bond
maps = {'CYS': Mapping(aa, cg, mapping={'CA': {'BB': 1}, 'SG': {'SC1': 1}}, references={}, ff_from=A, ff_to=B, names=('CYS',))}
src = Link(force_field=A, name='M'); src.add_node('S', atomname='SG', PTM_atom=False, modifications=[src]); src.add_node('X', atomname='X', PTM_atom=True, modifications=[src]); src.add_edge('S','X')
tgt = Link(force_field=B, name='M'); tgt.add_node('A', atomname='SC1', PTM_atom=False)
maps[('M',)] = Mapping(src, tgt, mapping={'S': {'A': 1}, 'X': {'A': 1}}, references={}, ff_from=A, ff_to=B, names=('M',), type='modification')
def run(mod):
    mol = Molecule(force_field=A)
    mol.add_node(0, resid=1, resname='CYS', atomname='CA', chain='A'); mol.add_node(1, resid=1, resname='CYS', atomname='SG', chain='A')
    mol.add_edge(0,1)
    if mod:
        mol.nodes[1]['modifications']=[src]
        mol.add_node(2, resid=1, resname='CYS', atomname='X', chain='A', PTM_atom=True, modifications=[src]); mol.add_edge(1,2)
    out = do_mapping(mol, {'a': {'b': maps}}, B, attribute_keep=('chain',), attribute_must=('resname',), attribute_stash=('resid',))
    return sorted(map(sorted, out.edges))
print('without modification:', run(False)); print('with modification   :', run(True))
