import logging
from vermouth.forcefield import ForceField
from vermouth.molecule import Molecule, Block, Link
from vermouth.map_parser import Mapping
from vermouth.processors.do_mapping import do_mapping
logging.getLogger('vermouth').setLevel(logging.ERROR)
A = ForceField(name='a'); B = ForceField(name='b')
maps = {}
for rn, sc in (('CYS','SG'),('LYS','NZ')):
    aa = Block(force_field=A, name=rn); cg = Block(force_field=B, name=rn, nrexcl=1)
    for n, b in (('CA','BB'),(sc,'SC1')):
        aa.add_node(n, atomname=n, resname=rn, resid=1); cg.add_node(b, atomname=b, resname=rn, resid=1)
    aa.add_edge('CA',sc); cg.add_edge('BB','SC1')
    maps[rn] = Mapping(aa, cg, mapping={'CA': {'BB': 1}, sc: {'SC1': 1}}, references={}, ff_from=A, ff_to=B, names=(rn,))
src = Link(force_field=A, name='XL')
src.add_node('S', atomname='SG', PTM_atom=False, modifications=[src]); src.add_node('N', atomname='NZ', PTM_atom=False, modifications=[src])
src.add_node('X1', atomname='X1', PTM_atom=True, modifications=[src]); src.add_node('X2', atomname='X2', PTM_atom=True, modifications=[src])
src.add_edges_from([('S','X1'),('X1','X2'),('X2','N')])
tgt = Link(force_field=B, name='XL'); tgt.add_node('A', atomname='SC1', PTM_atom=False); tgt.add_node('B', atomname='SC1', PTM_atom=False)
maps[('XL',)] = Mapping(src, tgt, mapping={'S': {'A': 1}, 'X1': {'A': 1}, 'X2': {'B': 1}, 'N': {'B': 1}}, references={}, ff_from=A, ff_to=B, names=('XL',), type='modification')
mol = Molecule(force_field=A)
for k,(r,rn,n) in enumerate([(1,'CYS','CA'),(1,'CYS','SG'),(2,'LYS','CA'),(2,'LYS','NZ')]):
    mol.add_node(k, resid=r, resname=rn, atomname=n, chain='A')
mol.add_edges_from([(0,1),(0,2),(2,3)])
mol.add_node(4, resid=1, resname='CYS', atomname='X1', chain='A', PTM_atom=True, modifications=[src])
mol.add_node(5, resid=2, resname='LYS', atomname='X2', chain='A', PTM_atom=True, modifications=[src])
mol.add_edges_from([(1,4),(4,5),(5,3)])
for k in (1,3): mol.nodes[k]['modifications']=[src]
out = do_mapping(mol, {'a': {'b': maps}}, B, attribute_keep=('chain',), attribute_must=('resname',), attribute_stash=('resid',))
print([(k, out.nodes[k]['atomname'], sorted(out.nodes[k]['mapping_weights'])) for k in out.nodes]); print(sorted(map(sorted,out.edges)))
