"""Probe for finding F-C09-1 (fixed in /repo by 8cf210c; run with /venv/bin/python): a constituent whose coordinates are NaN
is averaged in by do_average_bead although vermouth.selectors.selector_has_position says it has no
position; the particle becomes NaN even when that constituent has weight 0."""
import sys
sys.path.insert(0, __import__('os').environ.get('VERIF_REPO', '/repo'))
import numpy as np
import networkx as nx
from vermouth.processors.average_beads import do_average_bead
from vermouth.selectors import selector_has_position

g = nx.Graph()
g.add_node(0, position=np.array([1., 2., 3.]))
g.add_node(1, position=np.array([np.nan] * 3))
m = nx.Graph()
m.add_node(0, graph=g, mapping_weights={0: 1, 1: 0})
do_average_bead(m)
print('has position:', [bool(selector_has_position(d)) for d in g.nodes.values()])
print('particle position:', m.nodes[0]['position'], '(expected [1. 2. 3.])')
