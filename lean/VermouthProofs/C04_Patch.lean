import VermouthModel.C04_Ref
import VermouthProofs.C04
import VermouthProofs.C19_Repair
/-!
# C04 — lemmas about the model of `_patch_modification` / `_get_reference_residue` (core Lean only)
-/
namespace C04.Ref
open Iso C04 C19.Repair

/-- what identifies an atom of a block: key, atom name, element, `PTM_atom` -/
def core (a : Atom) : Int × String × Int × Option Bool := (a.key, a.name, a.elem, a.ptm)

def markFn (b md : Block) (n : String) (am : List (Int × Int)) (a : Atom) : Atom :=
  if (touched b md am).contains a.key then addModTag n a else a

theorem addModTag_core (n : String) (a : Atom) : core (addModTag n a) = core a := by
  unfold addModTag; simp only; split <;> rfl

theorem markFn_core (b md : Block) (n : String) (am : List (Int × Int)) (a : Atom) :
    core (markFn b md n am a) = core a := by
  unfold markFn; split
  · exact addModTag_core n a
  · rfl

theorem addModTag_attrs (n : String) (a : Atom) (k : String) (hk : k ≠ "modifications") :
    (addModTag n a).attrs.lookup k = a.attrs.lookup k := by
  unfold addModTag; simp only; split
  · rfl
  · exact lookup_setAttr_ne _ _ _ _ (fun e => hk e.symm)

theorem markFn_attrs (b md : Block) (n : String) (am : List (Int × Int)) (a : Atom) (k : String)
    (hk : k ≠ "modifications") : (markFn b md n am a).attrs.lookup k = a.attrs.lookup k := by
  unfold markFn; split
  · exact addModTag_attrs n a k hk
  · rfl

/-- the shape of a successful `patchMod` -/
theorem patchMod_some {b md b' : Block} {n : String} (h : patchMod b n md = some b') :
    ∃ am, anchorMap b md = some am ∧ anchorFits b md am = true
      ∧ b'.nodes = (b.nodes ++ renumber b.nodes.length (newAtoms md)).map (markFn b md n am)
      ∧ b'.edges = b.edges ++ patchEdges md (am ++ newMap b.nodes.length (newAtoms md)) := by
  unfold patchMod at h
  cases ha : anchorMap b md with
  | none => simp [ha] at h
  | some am =>
    simp only [ha] at h
    by_cases hf : anchorFits b md am = true
    · rw [if_pos hf] at h
      unfold patchModification at h
      simp only [ha, Option.map_some, Option.some.injEq] at h
      subst h
      exact ⟨am, rfl, hf, rfl, rfl⟩
    · rw [if_neg hf] at h; cases h

theorem renumber_length (n : Nat) (l : List Atom) : (renumber n l).length = l.length := by
  induction l generalizing n with
  | nil => rfl
  | cons a t ih => simp [renumber, ih]

theorem renumber_keys (n : Nat) (l : List Atom) :
    (renumber n l).map (·.key) = (List.range' n l.length).map Int.ofNat := by
  induction l generalizing n with
  | nil => rfl
  | cons a t ih => simp only [renumber, List.map_cons, List.length_cons, List.range'_succ]; rw [ih]; rfl

theorem renumber_shape (n : Nat) (l : List Atom) :
    (renumber n l).map (fun a => (a.name, a.elem, a.ptm)) = l.map (fun a => (a.name, a.elem, a.ptm)) := by
  induction l generalizing n with
  | nil => rfl
  | cons a t ih => simp [renumber, ih]

theorem newAtoms_ptm {md : Block} {a : Atom} (h : a ∈ newAtoms md) : a.ptm = some true := by
  have := (List.mem_filter.1 h).2
  unfold isNew at this; simpa using this

/-! ### the overlay `anchor ↦ namesake` -/

inductive Rel2 {α β} (R : α → β → Prop) : List α → List β → Prop
  | nil : Rel2 R [] []
  | cons {a b l r} : R a b → Rel2 R l r → Rel2 R (a :: l) (b :: r)

theorem mapM_option_spec {α β} (f : α → Option β) :
    ∀ (l : List α) (r : List β), l.mapM f = some r → Rel2 (fun a b => f a = some b) l r
  | [], r, h => by
    simp at h; subst h; exact Rel2.nil
  | a :: l, r, h => by
    rw [List.mapM_cons] at h
    cases hfa : f a with
    | none => simp [hfa] at h
    | some x =>
      cases hl : l.mapM f with
      | none => simp [hfa, hl] at h
      | some rest =>
        simp [hfa, hl] at h
        subst h
        exact Rel2.cons hfa (mapM_option_spec f l rest hl)

theorem anchorMap_spec {b md : Block} {am : List (Int × Int)} (h : anchorMap b md = some am) :
    Rel2 (fun a p => ∃ t, findByName b a.name = some t ∧ p = (a.key, t.key)) (anchors md) am := by
  unfold anchorMap at h
  have := mapM_option_spec _ _ _ h
  clear h
  generalize anchors md = l at this
  induction this with
  | nil => exact Rel2.nil
  | @cons a p l r hp _ ih =>
    refine Rel2.cons ?_ ih
    cases hf : findByName b a.name with
    | none => simp [hf] at hp
    | some t => simp [hf] at hp; exact ⟨t, rfl, hp.symm⟩

theorem forall₂_dom {l : List Atom} {am : List (Int × Int)}
    (h : Rel2 (fun a p => ∃ t, findByName b a.name = some t ∧ p = (a.key, t.key)) l am) :
    am.map Prod.fst = l.map (·.key) := by
  induction h with
  | nil => rfl
  | cons hp _ ih =>
    obtain ⟨t, _, e⟩ := hp
    simp [e, ih]

theorem forall₂_mem {l : List Atom} {am : List (Int × Int)}
    (h : Rel2 (fun a p => ∃ t, findByName b a.name = some t ∧ p = (a.key, t.key)) l am)
    {a : Atom} (ha : a ∈ l) : ∃ t, findByName b a.name = some t ∧ (a.key, t.key) ∈ am := by
  induction h with
  | nil => cases ha
  | cons hp _ ih =>
    rcases List.mem_cons.1 ha with rfl | ha'
    · obtain ⟨t, ht, e⟩ := hp; exact ⟨t, ht, by simp [e]⟩
    · obtain ⟨t, ht, hm⟩ := ih ha'; exact ⟨t, ht, List.mem_cons_of_mem _ hm⟩

theorem findByName_spec {b : Block} {n : String} {t : Atom} (h : findByName b n = some t) : t ∈ b.nodes ∧ t.name = n := by
  unfold findByName at h
  exact ⟨List.mem_of_find?_eq_some h, by simpa using List.find?_some h⟩

theorem newMap_dom (n : Nat) (l : List Atom) : (newMap n l).map Prod.fst = l.map (·.key) := by
  induction l generalizing n with
  | nil => rfl
  | cons a t ih => simp [newMap, ih]

theorem newMap_get (n : Nat) (l : List Atom) (i : Nat) (x : Atom) (h : l[i]? = some x) :
    (x.key, ((n + i : Nat) : Int)) ∈ newMap n l := by
  induction l generalizing n i with
  | nil => simp at h
  | cons a t ih =>
    cases i with
    | zero => simp at h; subst h; simp [newMap]
    | succ j =>
      simp at h
      have := ih (n + 1) j h
      simp only [newMap, List.mem_cons]
      right
      have e : n + 1 + j = n + (j + 1) := by omega
      rw [e] at this; exact this

/-- anchors and added atoms of a modification have different keys -/
theorem anchors_new_disjoint {md : Block} (hk : (md.nodes.map (·.key)).Nodup) {a x : Atom}
    (ha : a ∈ anchors md) (hx : x ∈ newAtoms md) : a.key ≠ x.key := by
  intro e
  have ha' := List.mem_filter.1 ha
  have hx' := List.mem_filter.1 hx
  have : a = x := inj_of_nodup_map hk ha'.1 hx'.1 e
  subst this
  have h1 := ha'.2
  have h2 := hx'.2
  simp [h2] at h1

theorem sublist_keys_nodup {md : Block} (hk : (md.nodes.map (·.key)).Nodup) (p : Atom → Bool) :
    ((md.nodes.filter p).map (·.key)).Nodup :=
  (List.Sublist.map _ (List.filter_sublist)).nodup hk

theorem mem_patchEdges (md : Block) (img : List (Int × Int)) (u v : Int) :
    (u, v) ∈ patchEdges md img ↔
      ∃ e ∈ md.edges, (isNewKey md e.1 || isNewKey md e.2) = true ∧ img.lookup e.1 = some u ∧ img.lookup e.2 = some v := by
  unfold patchEdges
  rw [List.mem_filterMap]
  constructor
  · rintro ⟨e, he, h⟩
    by_cases hn : (isNewKey md e.1 || isNewKey md e.2) = true
    · rw [if_pos hn] at h
      cases h1 : img.lookup e.1 with
      | none => simp [h1] at h
      | some a =>
        cases h2 : img.lookup e.2 with
        | none => simp [h1, h2] at h
        | some c =>
          simp only [h1, h2, Option.some.injEq, Prod.mk.injEq] at h
          exact ⟨e, he, hn, by rw [← h.1]; exact h1, by rw [← h.2]; exact h2⟩
    · rw [if_neg hn] at h; cases h
  · rintro ⟨e, he, hn, h1, h2⟩
    exact ⟨e, he, by rw [if_pos hn, h1, h2]⟩

/-! ### through `applyMods` and `getRef` -/

theorem patchMod_prefix {b md b' : Block} {n : String} (h : patchMod b n md = some b') :
    (∃ added, b'.nodes.map core = b.nodes.map core ++ added) ∧ (∃ extra, b'.edges = b.edges ++ extra) := by
  obtain ⟨am, _, _, hn, he⟩ := patchMod_some h
  refine ⟨⟨(renumber b.nodes.length (newAtoms md)).map core, ?_⟩, ⟨_, he⟩⟩
  rw [hn, List.map_map]
  have : (core ∘ markFn b md n am) = core := by funext a; exact markFn_core b md n am a
  rw [this, List.map_append]

theorem applyMods_prefix (ff : FF) (ms : List String) (b b' : Block) (h : applyMods ff ms b = .ok b') :
    (∃ added, b'.nodes.map core = b.nodes.map core ++ added) ∧ (∃ extra, b'.edges = b.edges ++ extra) := by
  induction ms generalizing b with
  | nil => simp only [applyMods, Except.ok.injEq] at h; subst h; exact ⟨⟨[], by simp⟩, ⟨[], by simp⟩⟩
  | cons m ms ih =>
    unfold applyMods at h
    by_cases hm : m = "none"
    · rw [if_pos hm] at h; exact ih b h
    · rw [if_neg hm] at h
      cases hl : ff.mods.lookup m with
      | none => simp [hl] at h
      | some md =>
        simp only [hl] at h
        cases hp : patchMod b m md with
        | none => simp [hp] at h
        | some b1 =>
          simp only [hp] at h
          obtain ⟨⟨a1, e1⟩, ⟨x1, f1⟩⟩ := patchMod_prefix hp
          obtain ⟨⟨a2, e2⟩, ⟨x2, f2⟩⟩ := ih b1 h
          exact ⟨⟨a1 ++ a2, by rw [e2, e1, List.append_assoc]⟩, ⟨x1 ++ x2, by rw [f2, f1, List.append_assoc]⟩⟩

theorem setAll_core (b : Block) (k v : String) : (setAll b k v).nodes.map core = b.nodes.map core := by
  simp [setAll, List.map_map, Function.comp_def, core]

theorem setAll_edges (b : Block) (k v : String) : (setAll b k v).edges = b.edges := rfl

end C04.Ref
