import VermouthModel.C03_Top
import VermouthProofs.C03
import VermouthProofs.C16
/-! Helper lemmas for the `.top` round trip: lines, tokens, the reader's fold. -/
namespace C03

/-! ### lines -/

theorem splitNlGo_line (l : List Char) (h : ∀ c ∈ l, c ≠ '\n') (rest cur : List Char) :
    splitNlGo (l ++ '\n' :: rest) cur = (cur.reverse ++ l) :: splitNlGo rest [] := by
  induction l generalizing cur with
  | nil => simp [splitNlGo]
  | cons c r ih =>
    have hc : c ≠ '\n' := h c (by simp)
    simp only [List.cons_append, splitNlGo, hc, if_false]
    rw [ih (fun x hx => h x (by simp [hx]))]
    simp

theorem splitNlGo_last (l : List Char) (h : ∀ c ∈ l, c ≠ '\n') (cur : List Char) :
    splitNlGo l cur = [cur.reverse ++ l] := by
  induction l generalizing cur with
  | nil => simp [splitNlGo]
  | cons c r ih =>
    have hc : c ≠ '\n' := h c (by simp)
    simp only [splitNlGo, hc, if_false]
    rw [ih (fun x hx => h x (by simp [hx]))]
    simp

/-- lines without newlines, joined and split again, are the lines -/
theorem splitNl_joinNl : ∀ (ls : List (List Char)), ls ≠ [] → (∀ l ∈ ls, ∀ c ∈ l, c ≠ '\n') →
    splitNl (joinNl ls) = ls
  | [], h, _ => absurd rfl h
  | [l], _, h => by
      simp only [joinNl, splitNl]
      rw [splitNlGo_last l (h l (by simp))]; simp
  | l :: m :: rest, _, h => by
      simp only [joinNl, splitNl]
      rw [splitNlGo_line l (h l (by simp))]
      have := splitNl_joinNl (m :: rest) (by simp) (fun x hx => h x (by simp [hx]))
      simp only [splitNl] at this
      rw [this]; simp

theorem joinNl_append : ∀ (a b : List (List Char)), a ≠ [] → b ≠ [] →
    joinNl (a ++ b) = joinNl a ++ '\n' :: joinNl b
  | [], _, h, _ => absurd rfl h
  | [l], b, _, hb => by
      cases b with
      | nil => exact absurd rfl hb
      | cons m r => simp [joinNl]
  | l :: m :: rest, b, _, hb => by
      have := joinNl_append (m :: rest) b (by simp) hb
      simp only [List.cons_append] at this ⊢
      simp only [joinNl, this, List.append_assoc, List.cons_append]

/-- `'\n'.join([])` is the empty string: one empty line -/
def orEmpty (l : List (List Char)) : List (List Char) := if l.isEmpty then [[]] else l

theorem joinNl_orEmpty (l : List (List Char)) : joinNl (orEmpty l) = joinNl l := by
  cases l <;> simp [orEmpty, joinNl]

theorem orEmpty_ne (l : List (List Char)) : orEmpty l ≠ [] := by
  cases l <;> simp [orEmpty]

/-- the lines of the `.top` text -/
def topLines (defines : List (List Char)) (names : List (List Char)) : List (List Char) :=
  orEmpty (defines.map defineLine) ++
  ([['#', 'i', 'n', 'c', 'l', 'u', 'd', 'e', ' ', '\"', 'm', 'a', 'r', 't', 'i', 'n', 'i', '.', 'i', 't', 'p', '\"']] ++
  (orEmpty ((includes names).map includeLine) ++
  (([[], ['[', ' ', 's', 'y', 's', 't', 'e', 'm', ' ', ']'], ['T', 'i', 't', 'l', 'e', ' ', 'o', 'f', ' ', 't', 'h', 'e', ' ', 's', 'y', 's', 't', 'e', 'm'], [], ['[', ' ', 'm', 'o', 'l', 'e', 'c', 'u', 'l', 'e', 's', ' ', ']']] : List (List Char)) ++
  (orEmpty ((groups names).map (moleculeLine (maxNameLen names))) ++ [[]]))))

theorem topRaw_eq (defines names : List (List Char)) : topRaw defines names = joinNl (topLines defines names) := by
  unfold topLines
  rw [joinNl_append _ _ (orEmpty_ne _) (by simp), joinNl_orEmpty]
  rw [joinNl_append _ _ (by simp) (by simp [orEmpty_ne])]
  rw [joinNl_append _ _ (orEmpty_ne _) (by simp), joinNl_orEmpty]
  rw [joinNl_append _ _ (by simp) (by simp [orEmpty_ne])]
  rw [joinNl_append _ _ (orEmpty_ne _) (by simp), joinNl_orEmpty]
  simp [topRaw, joinNl, List.append_assoc]

/-! ### `textwrap.dedent` changes nothing -/

theorem blankWs_head (c : Char) (r : List Char) (h : isBlankTab c = false) : blankWs (c :: r) = c :: r := by
  simp [blankWs, h]

theorem blankWs_nil : blankWs [] = [] := by simp [blankWs]

/-! ### tokens -/

theorem splitWsGo_tok (t : List Char) (ht : ∀ c ∈ t, isSp c = false) (rest cur : List Char) :
    splitWsGo (t ++ rest) cur = splitWsGo rest (t.reverse ++ cur) := by
  induction t generalizing cur with
  | nil => rfl
  | cons c r ih =>
    simp only [List.cons_append, splitWsGo, ht c (by simp), Bool.false_eq_true, if_false]
    rw [ih (fun x hx => ht x (by simp [hx]))]
    simp

/-- a token followed by a blank -/
theorem splitWs_tok_sp (t : List Char) (hne : t ≠ []) (ht : ∀ c ∈ t, isSp c = false) (rest : List Char) :
    splitWs (t ++ ' ' :: rest) = t :: splitWs rest := by
  unfold splitWs
  rw [splitWsGo_tok t ht]
  have hsp : isSp ' ' = true := by decide
  have hne' : (t.reverse ++ []).isEmpty = false := by cases t <;> simp_all
  simp [splitWsGo, hsp, hne]

theorem splitWs_sp (rest : List Char) : splitWs (' ' :: rest) = splitWs rest := by
  have hsp : isSp ' ' = true := by decide
  simp [splitWs, splitWsGo, hsp]

theorem splitWs_spaces (n : Nat) (rest : List Char) : splitWs (List.replicate n ' ' ++ rest) = splitWs rest := by
  induction n with
  | zero => rfl
  | succ n ih => rw [List.replicate_succ, List.cons_append, splitWs_sp, ih]

theorem splitWs_tok (t : List Char) (hne : t ≠ []) (ht : ∀ c ∈ t, isSp c = false) : splitWs t = [t] := by
  have := splitWsGo_tok t ht [] []
  simp only [List.append_nil] at this
  unfold splitWs
  rw [this]
  have hne' : t.reverse.isEmpty = false := by cases t <;> simp_all
  simp [splitWsGo, hne']

theorem splitWs_nil : splitWs [] = [] := by simp [splitWs, splitWsGo]

theorem uncomment_noSemi (l : List Char) (h : ∀ c ∈ l, c ≠ ';') : uncomment l = l := by
  unfold uncomment
  induction l with
  | nil => rfl
  | cons c r ih =>
    have hc : c ≠ ';' := h c (by simp)
    simp only [List.takeWhile_cons, hc, ne_eq, not_false_eq_true, decide_true, if_true]
    rw [ih (fun x hx => h x (by simp [hx]))]

/-- a molecule-type name the `.top` can carry: not empty, no white space, no `;`, not a keyword -/
def nameOk (n : List Char) : Bool :=
  !n.isEmpty && n.all (fun c => !isSp c && c != ';')
    && n != ['#', 'd', 'e', 'f', 'i', 'n', 'e'] && n != ['#', 'i', 'n', 'c', 'l', 'u', 'd', 'e'] && n != ['[']

/-- a define the `.top` can carry on one line -/
def defineOk (d : List Char) : Bool := d.all (fun c => c != '\n' && c != ';')

theorem nameOk_spec {n : List Char} (h : nameOk n = true) :
    n ≠ [] ∧ (∀ c ∈ n, isSp c = false) ∧ (∀ c ∈ n, c ≠ ';') ∧ (∀ c ∈ n, c ≠ '\n')
      ∧ n ≠ ['#', 'd', 'e', 'f', 'i', 'n', 'e'] ∧ n ≠ ['#', 'i', 'n', 'c', 'l', 'u', 'd', 'e'] ∧ n ≠ ['['] := by
  unfold nameOk at h
  simp only [Bool.and_eq_true, Bool.not_eq_true', List.isEmpty_eq_false_iff, List.all_eq_true, bne_iff_ne,
    ne_eq] at h
  obtain ⟨⟨⟨⟨h1, h2⟩, h3⟩, h4⟩, h5⟩ := h
  refine ⟨h1, fun c hc => (h2 c hc).1, fun c hc => (h2 c hc).2, ?_, h3, h4, h5⟩
  intro c hc e
  subst e
  have := (h2 _ hc).1
  revert this; decide

theorem isDigit_not_sp (c : Char) (h : C16.isDigit c = true) : isSp c = false ∧ c ≠ ';' ∧ c ≠ '\n' := by
  simp only [C16.isDigit, Bool.and_eq_true, decide_eq_true_eq] at h
  refine ⟨?_, ?_, ?_⟩
  · unfold isSp
    have : c ≠ ' ' ∧ c ≠ '\t' ∧ c ≠ '\r' ∧ c ≠ '\x0b' ∧ c ≠ '\x0c' ∧ c ≠ '\n' := by
      refine ⟨?_, ?_, ?_, ?_, ?_, ?_⟩ <;> (intro e; subst e; revert h; decide)
    simp [this]
  · intro e; subst e; revert h; decide
  · intro e; subst e; revert h; decide

theorem parseNat_natDigits (k : Nat) : parseNat (C16.natDigits k) = some k := by
  unfold parseNat
  simp [C16.natDigits_ne_nil, C16.all_isDigit_natDigits, C16.digitsVal_natDigits]

/-- tokens of a `[ molecules ]` line -/
theorem tokens_moleculeLine (w : Nat) (n : List Char) (k : Nat) (h : nameOk n = true) :
    splitWs (uncomment (moleculeLine w (n, k))) = [n, C16.natDigits k] := by
  obtain ⟨hne, hsp, hsemi, _, _⟩ := nameOk_spec h
  have hdig : ∀ c ∈ C16.natDigits k, C16.isDigit c = true :=
    fun c hc => List.all_eq_true.mp (C16.all_isDigit_natDigits k) c hc
  have hno : ∀ c ∈ moleculeLine w (n, k), c ≠ ';' := by
    intro c hc
    simp only [moleculeLine, padRight, List.mem_append, List.mem_replicate] at hc
    rcases hc with ((hc | hc) | hc) | hc
    · exact hsemi c hc
    · rw [hc.2]; decide
    · have : c = ' ' := by simpa using hc
      rw [this]; decide
    · exact (isDigit_not_sp c (hdig c hc)).2.1
  rw [uncomment_noSemi _ hno]
  have e : moleculeLine w (n, k) = n ++ ' ' :: (List.replicate (w - n.length + 3) ' ' ++ C16.natDigits k) := by
    simp only [moleculeLine, padRight, List.append_assoc]
    congr 1
    have : [' ', ' ', ' ', ' '] = List.replicate 4 ' ' := by decide
    rw [this, ← List.append_assoc, List.replicate_append_replicate, show w - n.length + 4 = (w - n.length + 3) + 1 by omega,
      List.replicate_succ]
    rfl
  rw [e, splitWs_tok_sp n hne hsp, splitWs_spaces,
    splitWs_tok _ (C16.natDigits_ne_nil k) (fun c hc => (isDigit_not_sp c (hdig c hc)).1)]

theorem tokens_includeLine (n : List Char) (h : nameOk n = true) :
    splitWs (uncomment (includeLine n)) = [['#', 'i', 'n', 'c', 'l', 'u', 'd', 'e'], '"' :: (n ++ ['.', 'i', 't', 'p', '\"'])] := by
  obtain ⟨_, hsp, hsemi, _, _⟩ := nameOk_spec h
  have hno : ∀ c ∈ includeLine n, c ≠ ';' := by
    intro c hc
    simp only [includeLine, List.mem_append] at hc
    rcases hc with (hc | hc) | hc
    · revert c; decide
    · exact hsemi c hc
    · revert c; decide
  rw [uncomment_noSemi _ hno]
  have e : includeLine n = ['#', 'i', 'n', 'c', 'l', 'u', 'd', 'e'] ++ ' ' :: ('"' :: (n ++ ['.', 'i', 't', 'p', '\"'])) := by
    simp [includeLine]
  rw [e, splitWs_tok_sp _ (by decide) (by decide)]
  rw [splitWs_tok]
  · simp
  · intro c hc
    rw [List.mem_cons, List.mem_append] at hc
    rcases hc with hc | hc | hc
    · rw [hc]; decide
    · exact hsp c hc
    · revert c; decide

theorem tokens_defineLine (d : List Char) (h : defineOk d = true) :
    splitWs (uncomment (defineLine d)) = ['#', 'd', 'e', 'f', 'i', 'n', 'e'] :: splitWs d := by
  unfold defineOk at h
  simp only [List.all_eq_true, Bool.and_eq_true, bne_iff_ne, ne_eq] at h
  have hno : ∀ c ∈ defineLine d, c ≠ ';' := by
    intro c hc
    simp only [defineLine, List.mem_append] at hc
    rcases hc with hc | hc
    · revert c; decide
    · exact (h c hc).2
  rw [uncomment_noSemi _ hno]
  have e : defineLine d = ['#', 'd', 'e', 'f', 'i', 'n', 'e'] ++ ' ' :: d := by simp [defineLine]
  rw [e, splitWs_tok_sp _ (by decide) (by decide)]

theorem unquote_quoted (f : List Char) : unquote ('"' :: (f ++ ['"'])) = some f := by
  simp [unquote]

/-! ### the reader's fold -/

theorem topFold_append (st : TopPState) (a b : List (List (List Char))) :
    topFold st (a ++ b) = match topFold st a with
      | .ok st' => topFold st' b
      | .error e => .error e := by
  induction a generalizing st with
  | nil => rfl
  | cons l ls ih =>
    simp only [List.cons_append, topFold]
    cases topStep st l with
    | error e => rfl
    | ok st' => exact ih st'

theorem topFold_defines (st : TopPState) (ds : List (List Char)) (h : ∀ d ∈ ds, defineOk d = true) :
    topFold st (ds.map fun d => splitWs (uncomment (defineLine d)))
      = .ok { st with out := { st.out with defines := st.out.defines ++ ds.map splitWs } } := by
  induction ds generalizing st with
  | nil => simp [topFold]
  | cons d r ih =>
    simp only [List.map_cons, topFold]
    rw [tokens_defineLine d (h d (by simp))]
    simp only [topStep, if_true]
    rw [ih _ (fun x hx => h x (by simp [hx]))]
    simp

theorem topFold_includes (st : TopPState) (ns : List (List Char)) (h : ∀ n ∈ ns, nameOk n = true) :
    topFold st (ns.map fun n => splitWs (uncomment (includeLine n)))
      = .ok { st with out := { st.out with includes := st.out.includes ++ ns.map (· ++ ['.', 'i', 't', 'p']) } } := by
  induction ns generalizing st with
  | nil => simp [topFold]
  | cons n r ih =>
    simp only [List.map_cons, topFold]
    rw [tokens_includeLine n (h n (by simp))]
    have hq : unquote ('"' :: (n ++ ['.', 'i', 't', 'p', '\"'])) = some (n ++ ['.', 'i', 't', 'p']) := by
      have : n ++ ['.', 'i', 't', 'p', '\"'] = (n ++ ['.', 'i', 't', 'p']) ++ ['"'] := by simp
      rw [this, unquote_quoted]
    have h1 : (['#', 'i', 'n', 'c', 'l', 'u', 'd', 'e'] = ['#', 'd', 'e', 'f', 'i', 'n', 'e']) = False := by decide
    simp only [topStep, h1, if_false, if_true, hq]
    rw [ih _ (fun x hx => h x (by simp [hx]))]
    simp

theorem topFold_molecules (st : TopPState) (hs : st.sect = some ['m', 'o', 'l', 'e', 'c', 'u', 'l', 'e', 's']) (w : Nat)
    (gs : List (List Char × Nat)) (h : ∀ g ∈ gs, nameOk g.1 = true) :
    topFold st (gs.map fun g => splitWs (uncomment (moleculeLine w g)))
      = .ok { st with out := { st.out with molecules := st.out.molecules ++ gs } } := by
  induction gs generalizing st with
  | nil => simp [topFold]
  | cons g r ih =>
    obtain ⟨n, k⟩ := g
    simp only [List.map_cons, topFold]
    rw [tokens_moleculeLine w n k (h (n, k) (by simp))]
    obtain ⟨_, _, _, _, h1, h2, h3⟩ := nameOk_spec (h (n, k) (by simp))
    simp only [topStep, h1, h2, h3, if_false, hs, if_true, parseNat_natDigits]
    rw [ih _ rfl (fun x hx => h x (by simp [hx]))]
    simp

/-- a line the round trip can carry: no newline inside, and `textwrap.dedent` leaves it alone -/
def LineFine (l : List Char) : Prop := (∀ c ∈ l, c ≠ '\n') ∧ blankWs l = l

theorem lineFine_nil : LineFine [] := ⟨by simp, blankWs_nil⟩

theorem lineFine_define (d : List Char) (h : defineOk d = true) : LineFine (defineLine d) := by
  unfold defineOk at h
  simp only [List.all_eq_true, Bool.and_eq_true, bne_iff_ne, ne_eq] at h
  refine ⟨?_, blankWs_head _ _ (by decide)⟩
  intro c hc
  simp only [defineLine, List.mem_append] at hc
  rcases hc with hc | hc
  · revert c; decide
  · exact (h c hc).1

theorem lineFine_include (n : List Char) (h : nameOk n = true) : LineFine (includeLine n) := by
  obtain ⟨_, _, _, hnl, _⟩ := nameOk_spec h
  refine ⟨?_, blankWs_head _ _ (by decide)⟩
  intro c hc
  simp only [includeLine, List.mem_append] at hc
  rcases hc with (hc | hc) | hc
  · revert c; decide
  · exact hnl c hc
  · revert c; decide

theorem lineFine_molecule (w : Nat) (g : List Char × Nat) (h : nameOk g.1 = true) : LineFine (moleculeLine w g) := by
  obtain ⟨hne, hsp, _, hnl, _⟩ := nameOk_spec h
  constructor
  · intro c hc
    simp only [moleculeLine, padRight, List.mem_append, List.mem_replicate] at hc
    rcases hc with ((hc | hc) | hc) | hc
    · exact hnl c hc
    · rw [hc.2]; decide
    · revert c; decide
    · exact (isDigit_not_sp c (List.all_eq_true.mp (C16.all_isDigit_natDigits g.2) c hc)).2.2
  · cases hn : g.1 with
    | nil => exact absurd hn hne
    | cons c r =>
      have hc : isSp c = false := hsp c (by rw [hn]; simp)
      have hb : isBlankTab c = false := by
        unfold isSp at hc; unfold isBlankTab
        simp only [Bool.or_eq_false_iff] at hc ⊢
        exact ⟨hc.1.1.1.1.1, hc.1.1.1.1.2⟩
      simp only [moleculeLine, padRight, hn, List.cons_append]
      exact blankWs_head _ _ hb

theorem lineFine_orEmpty (l : List (List Char)) (h : ∀ x ∈ l, LineFine x) : ∀ x ∈ orEmpty l, LineFine x := by
  intro x hx
  cases l with
  | nil =>
    simp only [orEmpty, List.isEmpty_nil, if_true, List.mem_singleton] at hx
    rw [hx]; exact lineFine_nil
  | cons a r => exact h x (by simpa [orEmpty] using hx)

theorem tok_orEmpty (l : List (List Char)) (f : List Char → List (List Char)) (hf : f [] = [])
    (st : TopPState) :
    topFold st ((orEmpty l).map f) = topFold st (l.map f) := by
  cases l with
  | nil => simp [orEmpty, topFold, hf, topStep]
  | cons a r => simp [orEmpty]

theorem writeItps_stems (inp : TopIn) : ∀ (ws : List (List Char × Nat)) (hs : List (List (List Char)))
    (r : List (List Char × Nat × List (List Char) × String)),
    writeItps inp ws hs = .ok r → r.map (fun w => (w.1, w.2.1)) = ws
  | [], _, r, h => by
      simp only [writeItps] at h
      cases h; rfl
  | (n, i) :: ws, [], r, h => by simp [writeItps] at h
  | (n, i) :: ws, hh :: hs, r, h => by
      simp only [writeItps] at h
      split at h
      · cases h
      · split at h
        · cases h
        · split at h
          · cases h
          · rename_i r' hr'
            cases h
            simp [writeItps_stems inp ws hs r' hr']

theorem idxOf_spec {α} [DecidableEq α] (l : List α) (n : α) (h : n ∈ l) :
    l[l.idxOf n]? = some n ∧ ∀ j, j < l.idxOf n → l[j]? ≠ some n := by
  induction l with
  | nil => cases h
  | cons a r ih =>
    by_cases han : a = n
    · subst han
      rw [idxOf_cons_eq]
      exact ⟨rfl, fun j hj => by omega⟩
    · have hr : n ∈ r := by
        rcases List.mem_cons.mp h with e | e
        · exact absurd e.symm han
        · exact e
      rw [idxOf_cons_ne r han]
      obtain ⟨h1, h2⟩ := ih hr
      refine ⟨by simpa using h1, ?_⟩
      intro j hj
      cases j with
      | zero => simpa using han
      | succ k => simpa using h2 k (by omega)

theorem count_eq_one_of_nodup {α} [BEq α] [LawfulBEq α] (l : List α) (a : α) (hnd : l.Nodup) (ha : a ∈ l) :
    l.count a = 1 := by
  induction l with
  | nil => cases ha
  | cons b r ih =>
    rw [List.nodup_cons] at hnd
    by_cases hab : b = a
    · subst hab
      rw [List.count_cons_self, List.count_eq_zero_of_not_mem hnd.1]
    · have : a ∈ r := by
        rcases List.mem_cons.mp ha with h | h
        · exact absurd h.symm hab
        · exact h
      rw [List.count_cons_of_ne hab, ih hnd.2 this]

theorem count_map_suffix (l : List (List Char)) (a s : List Char) :
    (l.map (· ++ s)).count (a ++ s) = l.count a := by
  induction l with
  | nil => rfl
  | cons b r ih =>
    simp only [List.map_cons, List.count_cons, ih]
    congr 1
    by_cases h : b = a
    · simp [h]
    · have : ¬ (b ++ s = a ++ s) := fun e => h (List.append_cancel_right e)
      simp [h, this]


end C03
