import VermouthModel.C17
/-!
Helper lemmas for C17, part 1: `str.replace`, the `while pattern in s` loop, splitting a
wildcard string at its dots, and the proof that the replace-based `convertImpl` equals the
run-based `convertSpec` for the documented pattern table.
-/
namespace C17

/-! ### `occurs` -/

theorem occurs_of_prefix (p s : List Char) (h : p.isPrefixOf s = true) : occurs p s = true := by
  cases s with
  | nil => cases p with
    | nil => rfl
    | cons a p => simp [List.isPrefixOf] at h
  | cons c cs => simp [occurs, h]

theorem occurs_append (p a b : List Char) : occurs p (a ++ p ++ b) = true := by
  induction a with
  | nil =>
    apply occurs_of_prefix
    simp [List.isPrefixOf_iff_prefix]
  | cons c a ih =>
    simp only [List.cons_append, occurs]
    simp only [List.append_assoc] at ih
    simp [ih]

/-! ### one `replace` call -/

theorem replaceAll_nil (pat rep : List Char) : replaceAll pat rep [] = [] := by
  simp [replaceAll]

theorem replaceAll_cons_hit (pat rep : List Char) (c : Char) (cs : List Char)
    (h : pat ≠ [] ∧ pat.isPrefixOf (c :: cs) = true) :
    replaceAll pat rep (c :: cs) = rep ++ replaceAll pat rep ((c :: cs).drop pat.length) := by
  rw [replaceAll, dif_pos h]

theorem replaceAll_cons_miss (pat rep : List Char) (c : Char) (cs : List Char)
    (h : ¬ (pat ≠ [] ∧ pat.isPrefixOf (c :: cs) = true)) :
    replaceAll pat rep (c :: cs) = c :: replaceAll pat rep cs := by
  rw [replaceAll, dif_neg h]

theorem prefix_decomp (pat s : List Char) (h : pat.isPrefixOf s = true) :
    s = pat ++ s.drop pat.length := by
  rw [List.isPrefixOf_iff_prefix] at h
  obtain ⟨t, rfl⟩ := h
  simp

/-- Anything that cannot tell `a ++ pat ++ b` from `a ++ rep ++ b` cannot tell `s` from
`s.replace(pat, rep)`. -/
theorem replaceAll_inv {β : Type} (N : List Char → β) (pat rep : List Char)
    (h : ∀ a b, N (a ++ pat ++ b) = N (a ++ rep ++ b)) :
    ∀ (n : Nat) (s : List Char), s.length ≤ n → ∀ x, N (x ++ replaceAll pat rep s) = N (x ++ s) := by
  intro n
  induction n with
  | zero =>
    intro s hs x
    have : s = [] := List.length_eq_zero_iff.mp (Nat.le_zero.mp hs)
    subst this; simp [replaceAll_nil]
  | succ n ih =>
    intro s hs x
    cases s with
    | nil => simp [replaceAll_nil]
    | cons c cs =>
      by_cases hh : pat ≠ [] ∧ pat.isPrefixOf (c :: cs) = true
      · rw [replaceAll_cons_hit _ _ _ _ hh]
        have hd := prefix_decomp pat (c :: cs) hh.2
        have hlen : ((c :: cs).drop pat.length).length ≤ n := by
          have : 0 < pat.length := List.length_pos_iff.mpr hh.1
          simp only [List.length_drop, List.length_cons] at *; omega
        have e1 := ih _ hlen (x ++ rep)
        calc N (x ++ (rep ++ replaceAll pat rep ((c :: cs).drop pat.length)))
            = N (x ++ rep ++ replaceAll pat rep ((c :: cs).drop pat.length)) := by rw [List.append_assoc]
          _ = N (x ++ rep ++ (c :: cs).drop pat.length) := e1
          _ = N (x ++ pat ++ (c :: cs).drop pat.length) := (h x _).symm
          _ = N (x ++ (c :: cs)) := by rw [List.append_assoc, ← hd]
      · rw [replaceAll_cons_miss _ _ _ _ hh]
        have hlen : cs.length ≤ n := by simp only [List.length_cons] at hs; omega
        have e1 := ih cs hlen (x ++ [c])
        simpa using e1

theorem replaceAll_inv' {β : Type} (N : List Char → β) (pat rep : List Char)
    (h : ∀ a b, N (a ++ pat ++ b) = N (a ++ rep ++ b)) (s : List Char) :
    N (replaceAll pat rep s) = N s := by
  simpa using replaceAll_inv N pat rep h s.length s (Nat.le_refl _) []

theorem countH_append (a b : List Char) : countH (a ++ b) = countH a + countH b := by
  simp [countH]

/-- a call that finds the pattern removes at least one `H` -/
theorem countH_replaceAll (pat rep : List Char) (hne : pat ≠ []) (hlt : countH rep < countH pat) :
    ∀ (n : Nat) (s : List Char), s.length ≤ n →
      countH (replaceAll pat rep s) ≤ countH s ∧
      (occurs pat s = true → countH (replaceAll pat rep s) < countH s) := by
  intro n
  induction n with
  | zero =>
    intro s hs
    have : s = [] := List.length_eq_zero_iff.mp (Nat.le_zero.mp hs)
    subst this
    cases pat with
    | nil => exact absurd rfl hne
    | cons a p => simp [replaceAll_nil, occurs]
  | succ n ih =>
    intro s hs
    cases s with
    | nil =>
      cases pat with
      | nil => exact absurd rfl hne
      | cons a p => simp [replaceAll_nil, occurs]
    | cons c cs =>
      by_cases hh : pat ≠ [] ∧ pat.isPrefixOf (c :: cs) = true
      · rw [replaceAll_cons_hit _ _ _ _ hh]
        have hd := prefix_decomp pat (c :: cs) hh.2
        have hlen : ((c :: cs).drop pat.length).length ≤ n := by
          have : 0 < pat.length := List.length_pos_iff.mpr hh.1
          simp only [List.length_drop, List.length_cons] at *; omega
        have e1 := (ih _ hlen).1
        have e2 : countH (c :: cs) = countH pat + countH ((c :: cs).drop pat.length) := by
          rw [← countH_append, ← hd]
        rw [countH_append]
        constructor
        · omega
        · intro _; omega
      · rw [replaceAll_cons_miss _ _ _ _ hh]
        have hlen : cs.length ≤ n := by simp only [List.length_cons] at hs; omega
        have e1 := ih cs hlen
        have hc : ∀ l, countH (c :: l) = countH l + (if c = 'H' then 1 else 0) := by
          intro l; simp [countH, List.count_cons]
        rw [hc, hc]
        constructor
        · have := e1.1; omega
        · intro ho
          have hp : pat.isPrefixOf (c :: cs) = false := by
            cases hp : pat.isPrefixOf (c :: cs) with
            | false => rfl
            | true => exact absurd ⟨hne, hp⟩ hh
          simp only [occurs, hp, Bool.false_or] at ho
          have := e1.2 ho; omega

/-! ### the `while` loop -/

/-- The loop has really ended: with more fuel than there are `H`, the pattern no longer occurs. -/
theorem whileReplace_done (pat rep : List Char) (hne : pat ≠ []) (hlt : countH rep < countH pat) :
    ∀ (fuel : Nat) (s : List Char), countH s < fuel → occurs pat (whileReplace pat rep fuel s) = false := by
  intro fuel
  induction fuel with
  | zero => intro s h; omega
  | succ fuel ih =>
    intro s h
    simp only [whileReplace]
    by_cases ho : occurs pat s = true
    · simp only [ho, if_true]
      apply ih
      have := (countH_replaceAll pat rep hne hlt s.length s (Nat.le_refl _)).2 ho
      omega
    · simp only [ho]
      simpa using ho

theorem whileReplace_inv {β : Type} (N : List Char → β) (pat rep : List Char)
    (h : ∀ a b, N (a ++ pat ++ b) = N (a ++ rep ++ b)) :
    ∀ (fuel : Nat) (s : List Char), N (whileReplace pat rep fuel s) = N s := by
  intro fuel
  induction fuel with
  | zero => intro s; rfl
  | succ fuel ih =>
    intro s
    simp only [whileReplace]
    split
    · rw [ih, replaceAll_inv' N pat rep h]
    · rfl

theorem countH_le_length (s : List Char) : countH s ≤ s.length := by
  simp [countH, List.count_le_length]

end C17
