import VermouthProofs.C16_File
/-! GRO: shape of a rendered fixed-point field, `str.find`, the reader loop. -/
namespace C16

/-- characters of a rendered field come from the body or are the fill character -/
theorem renderField_all (p : Char → Bool) (sp : Spec) (v : Val) (hfill : p sp.fill = true)
    (hbody : (fieldBody sp v).all p = true) : (renderField sp v).all p = true := by
  have hpad : (padded sp (fieldBody sp v)).all p = true := by
    unfold padded
    split <;> simp [List.all_append, hbody, hfill]
  unfold renderField
  simp only []
  split
  · split
    · rw [List.all_eq_true] at hpad ⊢
      intro c hc; exact hpad c (List.mem_of_mem_take hc)
    · rw [List.all_eq_true] at hpad ⊢
      intro c hc; exact hpad c (List.mem_of_mem_drop hc)
  · exact hpad

theorem render_all (p : Char → Bool) (env : Env) (fmt : List Seg)
    (h : ∀ s ∈ fmt, (segText env s).all p = true) : (render fmt env).all p = true := by
  induction fmt with
  | nil => rfl
  | cons s fmt ih =>
    rw [render_cons, List.all_append, h s (by simp), ih (fun s' hs' => h s' (by simp [hs']))]
    rfl

theorem natDigits_all_ne (c : Char) (hc : isDigit c = false) (n : Nat) : (natDigits n).all (· ≠ c) = true := by
  rw [List.all_eq_true]
  intro d hd
  have := List.all_eq_true.mp (all_isDigit_natDigits n) d hd
  simp only [ne_eq, decide_not, Bool.not_eq_eq_eq_not, Bool.not_true, decide_eq_false_iff_not]
  intro h; subst h; rw [this] at hc; cases hc

theorem intRepr_all_ne (c : Char) (hc : isDigit c = false) (hm : c ≠ '-') (i : Int) :
    (intRepr i).all (· ≠ c) = true := by
  unfold intRepr
  split
  · simp only [List.all_cons, natDigits_all_ne c hc, Bool.and_true]
    simpa using fun h => hm h.symm
  · exact natDigits_all_ne c hc _

/-- a right-aligned, truncating fixed-point field always shows the point at the same column: `width -
prec - 1` characters without a point, the point, `prec` digits — also when the value overflows -/
theorem renderField_fix_shape (sp : Spec) (k : Int) (hty : sp.ty = .f) (hal : sp.leftAligned = false)
    (htr : sp.trunc = true) (hp : 1 ≤ sp.prec) (hw : sp.prec + 2 ≤ sp.width) (hfill : sp.fill ≠ '.') :
    ∃ T F, renderField sp (.fix k) = T ++ '.' :: F ∧ T.length = sp.width - sp.prec - 1 ∧ F.length = sp.prec ∧
      T.all (· ≠ '.') = true ∧ F.all (· ≠ '.') = true := by
  have hb : fieldBody sp (.fix k) = fixRepr sp.prec k := by unfold fieldBody; rw [hty]
  have hpos : 0 < 10 ^ sp.prec := Nat.pow_pos (by omega)
  obtain ⟨hF1, hF2, _⟩ := padZeros_props sp.prec (k.natAbs % 10 ^ sp.prec) (Nat.mod_lt _ hpos) hp
  generalize hFdef : padZeros sp.prec (natDigits (k.natAbs % 10 ^ sp.prec)) = F at hF1 hF2
  have hFdot : F.all (· ≠ '.') = true := by
    rw [List.all_eq_true] at hF2 ⊢
    intro c hc
    have := hF2 c hc
    simp only [ne_eq, decide_not, Bool.not_eq_eq_eq_not, Bool.not_true, decide_eq_false_iff_not]
    intro h; subst h; revert this; decide
  let S : List Char := (if k < 0 then ['-'] else []) ++ natDigits (k.natAbs / 10 ^ sp.prec)
  have hS : S.all (· ≠ '.') = true := by
    show ((if k < 0 then ['-'] else []) ++ natDigits (k.natAbs / 10 ^ sp.prec)).all (· ≠ '.') = true
    rw [List.all_append, natDigits_all_ne '.' (by decide)]
    split <;> decide
  have hbody : fixRepr sp.prec k = S ++ '.' :: F := by
    rw [fixRepr_pos sp.prec hp, hFdef]; simp [S]
  let X : List Char := List.replicate (sp.width - (fixRepr sp.prec k).length) sp.fill ++ S
  have hX : X.all (· ≠ '.') = true := by
    show (List.replicate _ sp.fill ++ S).all (· ≠ '.') = true
    rw [List.all_append, hS]
    simp [hfill]
  have hpad : padded sp (fieldBody sp (.fix k)) = X ++ '.' :: F := by
    unfold padded
    rw [hal, hb]
    simp only [Bool.false_eq_true, if_false]
    show _ = (List.replicate _ sp.fill ++ S) ++ '.' :: F
    rw [List.append_assoc, ← hbody]
  have hlenr : (X ++ '.' :: F).length = max sp.width (fixRepr sp.prec k).length := by
    rw [← hpad, length_padded, hb]
  have hXl : X.length + 1 + sp.prec = max sp.width (fixRepr sp.prec k).length := by
    rw [← hlenr]; simp [hF1]; omega
  refine ⟨X.drop (X.length + 1 + sp.prec - sp.width), F, ?_, ?_, hF1, ?_, hFdot⟩
  · unfold renderField
    simp only [hpad]
    have hlen : (X ++ '.' :: F).length = X.length + 1 + sp.prec := by simp [hF1]; omega
    by_cases hov : sp.width < (X ++ '.' :: F).length
    · have hw' : (sp.width != 0) = true := by simp; omega
      simp only [htr, hw', hov, decide_true, Bool.and_self, if_true, hal, Bool.false_eq_true, if_false]
      rw [hlen, List.drop_append]
      have : X.length + 1 + sp.prec - sp.width - X.length = 0 := by omega
      rw [this]; rfl
    · simp only [hov, decide_false, Bool.and_false, Bool.false_eq_true, if_false]
      have : X.length + 1 + sp.prec - sp.width = 0 := by omega
      rw [this]; rfl
  · rw [List.length_drop]; omega
  · rw [List.all_eq_true] at hX ⊢
    intro c hc; exact hX c (List.mem_of_mem_drop hc)

theorem findFrom_go_spec (c : Char) : ∀ (U V : List Char) (i : Nat), (∀ x ∈ U, x ≠ c) →
    findFrom.go c i (U ++ c :: V) = some (i + U.length)
  | [], V, i, _ => by simp [findFrom.go]
  | u :: U, V, i, h => by
      have hu : u ≠ c := h u (by simp)
      simp only [List.cons_append, findFrom.go, hu, if_false]
      rw [findFrom_go_spec c U V (i + 1) (fun x hx => h x (by simp [hx]))]
      simp; omega

theorem findFrom_spec (s : List Char) (c : Char) (start : Nat) (U V : List Char)
    (h : s.drop start = U ++ c :: V) (hU : ∀ x ∈ U, x ≠ c) : findFrom s c start = some (start + U.length) := by
  unfold findFrom
  rw [h]
  exact findFrom_go_spec c U V start hU

end C16
