import VermouthModel.C05
/-! C05: attribute replacement (`dict.update`) and node removal -/
namespace C05
open Iso

theorem lk_eq {β} (k : String) (v : β) (rest : List (String × β)) : List.lookup k ((k, v) :: rest) = some v := by
  simp

theorem lk_ne {β} {k' kx : String} (h : k' ≠ kx) (vx : β) (rest : List (String × β)) :
    List.lookup k' ((kx, vx) :: rest) = List.lookup k' rest := by
  have : (k' == kx) = false := by simp [h]
  simp [List.lookup_cons, this]

theorem lookup_aset (a : Attrs) (k : String) (v : Val) (k' : String) :
    (aset a k v).lookup k' = if k' = k then some v else a.lookup k' := by
  induction a with
  | nil =>
    simp only [aset]
    by_cases h : k' = k
    · subst h; simp
    · simp [h, lk_ne h]
  | cons x rest ih =>
    obtain ⟨kx, vx⟩ := x
    simp only [aset]
    by_cases hx : kx = k
    · subst hx
      simp only [beq_self_eq_true, if_true]
      by_cases h : k' = kx
      · subst h; simp
      · simp [h, lk_ne h]
    · have : (kx == k) = false := by simp [hx]
      simp only [this, Bool.false_eq_true, if_false]
      by_cases h : k' = kx
      · subst h; simp [hx]
      · rw [lk_ne h, lk_ne h, ih]

/-- `d[k] = v` then `d.get(k)` gives `v`; other keys are untouched -/
theorem aget_aset (a : Attrs) (k : String) (v : Val) (k' : String) :
    aget (aset a k v) k' = if k' = k then v else aget a k' := by
  unfold aget
  rw [lookup_aset]
  split <;> simp

theorem lookup_append_single (l : List (String × Val)) (x : String × Val) (k : String) :
    (l ++ [x]).lookup k =
      match l.lookup k with
      | some v => some v
      | none => if k = x.1 then some x.2 else none := by
  induction l with
  | nil =>
    obtain ⟨kx, vx⟩ := x
    by_cases h : k = kx
    · subst h; simp
    · simp [h, lk_ne h]
  | cons y l ihl =>
    obtain ⟨ky, vy⟩ := y
    by_cases h : k = ky
    · subst h; simp
    · simp only [List.cons_append]
      rw [lk_ne h, lk_ne h, ihl]

/-- `dict.update(new)`: a key of `new` gets the LAST value `new` gives it, other keys are untouched -/
theorem lookup_aupdate (a new : Attrs) (k : String) :
    (aupdate a new).lookup k =
      match new.reverse.lookup k with
      | some v => some v
      | none => a.lookup k := by
  unfold aupdate
  induction new generalizing a with
  | nil => simp
  | cons x rest ih =>
    simp only [List.foldl_cons]
    rw [ih]
    simp only [List.reverse_cons]
    rw [lookup_append_single, lookup_aset]
    cases h : rest.reverse.lookup k with
    | some v => simp
    | none => by_cases hk : k = x.1 <;> simp [hk]

/-- a replaced attribute has taken effect on the node: after `setAttrs k new` the node `k` carries
`new`'s values on `new`'s keys and its old values elsewhere; other nodes are untouched -/
theorem setAttrs_attrsOf (m : Mol) (hk : m.keys.Nodup) (k : Int) (new : Attrs) (k' : Int) :
    (m.setAttrs k new).attrsOf k' = if k' = k ∧ k ∈ m.keys then aupdate (m.attrsOf k) new else m.attrsOf k' := by
  unfold Mol.setAttrs Mol.attrsOf Mol.node? Mol.keys at *
  generalize m.nodes = ns at hk
  induction ns with
  | nil => simp
  | cons n rest ih =>
    simp only [List.map_cons, List.nodup_cons] at hk
    simp only [List.map_cons, List.find?_cons]
    by_cases hn : n.key = k
    · subst hn
      by_cases h' : k' = n.key
      · subst h'; simp
      · have h1 : (n.key == k') = false := by simp; exact fun h => h' h.symm
        have : ¬ (k' = n.key ∧ n.key ∈ n.key :: List.map (fun x => x.key) rest) := fun h => h' h.1
        simp only [beq_self_eq_true, if_true, h1, List.mem_cons, true_or, and_true, h', if_false]
        have hnot : n.key ∉ rest.map (·.key) := hk.1
        have := ih hk.2
        have hrest : ∀ x ∈ rest, (if x.key == n.key then { x with attrs := aupdate x.attrs new } else x) = x := by
          intro x hx
          have : x.key ≠ n.key := fun h => hnot (by rw [← h]; exact List.mem_map_of_mem hx)
          simp [this]
        rw [List.map_congr_left hrest]
        simp
    · have h0 : (n.key == k) = false := by simp [hn]
      simp only [h0, Bool.false_eq_true, if_false]
      by_cases h' : n.key = k'
      · subst h'
        have : ¬ (n.key = k ∧ k ∈ n.key :: List.map (fun x => x.key) rest) := fun h => hn h.1
        simp [hn]
      · have h1 : (n.key == k') = false := by simp [h']
        simp only [h1, List.mem_cons]
        rw [ih hk.2]
        have : (k = n.key) = False := by simp; exact fun h => hn h.symm
        simp [this]

/-- every node whose `replace` says `atomname: null` is put on the removal list -/
theorem applyReplace_marks (mp : Map) (ns : List LNode) (s : Mol × List Int) (n : LNode) (r : Attrs)
    (hn : n ∈ ns) (hr : n.replace = some r) (hrm : removesNode r = true) :
    Map.toFun mp n.key ∈ (applyReplace mp ns s).2 := by
  have mono : ∀ (ns : List LNode) (s : Mol × List Int) (x : Int), x ∈ s.2 → x ∈ (applyReplace mp ns s).2 := by
    intro ns
    induction ns with
    | nil => intro s x h; exact h
    | cons a rest ih =>
      intro s x h
      obtain ⟨m, rm⟩ := s
      simp only [applyReplace]
      split
      · exact ih _ _ h
      · split
        · apply ih; simp at h ⊢; exact Or.inl h
        · exact ih _ _ h
  induction ns generalizing s with
  | nil => cases hn
  | cons a rest ih =>
    obtain ⟨m, rm⟩ := s
    rcases List.mem_cons.1 hn with h | h
    · subst h
      simp only [applyReplace, hr, hrm, if_true]
      apply mono; simp
    · simp only [applyReplace]
      split
      · exact ih _ h
      · split <;> exact ih _ h

/-- nothing is put on the removal list without such a `replace` -/
theorem applyReplace_marks_only (mp : Map) (ns : List LNode) (s : Mol × List Int) (x : Int)
    (h : x ∈ (applyReplace mp ns s).2) :
    x ∈ s.2 ∨ ∃ n ∈ ns, ∃ r, n.replace = some r ∧ removesNode r = true ∧ x = Map.toFun mp n.key := by
  induction ns generalizing s with
  | nil => exact Or.inl h
  | cons a rest ih =>
    obtain ⟨m, rm⟩ := s
    simp only [applyReplace] at h
    split at h
    · rcases ih _ h with h' | ⟨n, hn, r, h1, h2, h3⟩
      · exact Or.inl h'
      · exact Or.inr ⟨n, List.mem_cons_of_mem _ hn, r, h1, h2, h3⟩
    · rename_i r hr
      split at h
      · rename_i hrm
        rcases ih _ h with h' | ⟨n, hn, r', h1, h2, h3⟩
        · simp only [List.mem_append, List.mem_singleton] at h'
          rcases h' with h' | h'
          · exact Or.inl h'
          · exact Or.inr ⟨a, List.mem_cons_self, r, hr, hrm, h'⟩
        · exact Or.inr ⟨n, List.mem_cons_of_mem _ hn, r', h1, h2, h3⟩
      · rcases ih _ h with h' | ⟨n, hn, r', h1, h2, h3⟩
        · exact Or.inl h'
        · exact Or.inr ⟨n, List.mem_cons_of_mem _ hn, r', h1, h2, h3⟩

/-- after a link was applied, every node on the removal list is gone, and so is every bond and
every interaction that mentions it -/
theorem removed_nodes_gone (l : Link) (s : Mol × List Int) (ps : List Map) (k : Int)
    (hk : k ∈ (applyLinkWith l s ps).2) :
    k ∉ (applyLinkWith l s ps).1.keys
    ∧ (∀ e ∈ (applyLinkWith l s ps).1.edges, e.1 ≠ k ∧ e.2 ≠ k)
    ∧ (∀ e ∈ (applyLinkWith l s ps).1.inters, k ∉ e.2.atoms) := by
  simp only [applyLinkWith] at hk ⊢
  generalize List.foldl (applyPlacement l) s ps = s' at hk ⊢
  refine ⟨?_, ?_, ?_⟩
  · simp only [Mol.dropNodes, Mol.keys, List.mem_map, List.mem_filter]
    rintro ⟨n, ⟨_, hn⟩, rfl⟩
    simp at hn; exact hn hk
  · intro e he
    simp only [Mol.dropNodes, List.mem_filter] at he
    have := he.2
    simp at this
    exact ⟨fun h => this.1 (h ▸ hk), fun h => this.2 (h ▸ hk)⟩
  · intro e he
    simp only [Mol.dropNodes, List.mem_filter] at he
    have := he.2
    simp at this
    intro hmem
    exact this k hmem hk

end C05
