import VermouthProofs.C16_Total
import VermouthModel.C16_Full
/-!
Helper lemmas for the whole-file GRO round trip with velocities and box: `str.split`, the box line,
`repr` of a float on a decimal grid.
-/
namespace C16

/-! ### `' '.join(...)` and `str.split()` -/

theorem splitWs_go_token (t : List Char) (ht : ∀ c ∈ t, isWs c = false) :
    ∀ (cur : List Char) (acc : List (List Char)) (rest : List Char),
      splitWs.go cur acc (t ++ rest) = splitWs.go (t.reverse ++ cur) acc rest := by
  induction t with
  | nil => intro cur acc rest; rfl
  | cons c t ih =>
    intro cur acc rest
    have hc : isWs c = false := ht c (by simp)
    simp only [List.cons_append, splitWs.go, hc, Bool.false_eq_true, if_false]
    rw [ih (fun c' hc' => ht c' (by simp [hc'])) (c :: cur) acc rest]
    simp

/-- blank-separated items without blanks inside are what `split()` returns -/
theorem splitWs_go_join : ∀ (ts : List (List Char)) (acc : List (List Char)),
    (∀ t ∈ ts, t ≠ [] ∧ ∀ c ∈ t, isWs c = false) →
    splitWs.go [] acc (joinSp ts) = acc.reverse ++ ts
  | [], acc, _ => by simp [joinSp, splitWs.go]
  | [t], acc, h => by
      have ht := h t (by simp)
      have := splitWs_go_token t ht.2 [] acc []
      simp only [List.append_nil] at this
      simp only [joinSp]
      rw [this]
      have hne : t.reverse ≠ [] := by simpa using ht.1
      simp [splitWs.go, hne]
  | t :: t2 :: r, acc, h => by
      have ht := h t (by simp)
      have := splitWs_go_token t ht.2 [] acc (' ' :: joinSp (t2 :: r))
      simp only [List.append_nil] at this
      simp only [joinSp]
      rw [this]
      have hne : t.reverse ≠ [] := by simpa using ht.1
      have hws : isWs ' ' = true := by decide
      simp only [splitWs.go, hws, if_true, hne, if_false, List.reverse_reverse]
      rw [splitWs_go_join (t2 :: r) (t :: acc) (fun t' ht' => h t' (by simp [ht']))]
      simp

theorem splitWs_joinSp (ts : List (List Char)) (h : ∀ t ∈ ts, t ≠ [] ∧ ∀ c ∈ t, isWs c = false) :
    splitWs (joinSp ts) = ts := by
  unfold splitWs
  rw [splitWs_go_join ts [] h]
  rfl

/-! ### small list facts -/

theorem takeWhile_dropWhile_of_all {α : Type} (p : α → Bool) (l : List α) (h : l.all p = true) :
    l.takeWhile p = l ∧ l.dropWhile p = [] := by
  induction l with
  | nil => exact ⟨rfl, rfl⟩
  | cons a l ih =>
    simp only [List.all_cons, Bool.and_eq_true] at h
    simp only [List.takeWhile_cons, List.dropWhile_cons, h.1, if_true]
    exact ⟨by rw [(ih h.2).1], (ih h.2).2⟩

theorem mem_takeWhile_prop {α : Type} (p : α → Bool) (l : List α) (c : α) (h : c ∈ l.takeWhile p) : p c = true := by
  induction l with
  | nil => cases h
  | cons a l ih =>
    simp only [List.takeWhile_cons] at h
    split at h
    · rename_i ha
      rcases List.mem_cons.mp h with h | h
      · rw [h]; exact ha
      · exact ih h
    · cases h

theorem mem_of_mem_dropWhile' {α : Type} (p : α → Bool) (l : List α) (c : α) (h : c ∈ l.dropWhile p) : c ∈ l := by
  induction l with
  | nil => cases h
  | cons a l ih =>
    simp only [List.dropWhile_cons] at h
    split at h
    · exact List.mem_cons_of_mem _ (ih h)
    · exact h

/-! ### integers and decimals as `float()` reads them -/

theorem parseDecBody_digits (sgn : Int) (I : List Char) (hI : I.all isDigit = true) (hne : I ≠ []) :
    parseDecBody sgn I = some (sgn * (digitsVal I : Int), 0) := by
  unfold parseDecBody
  obtain ⟨h1, h2⟩ := takeWhile_dropWhile_of_all isDigit I hI
  simp only [h1, h2, hne, if_false]

theorem parseDec_intRepr (i : Int) : parseDec (intRepr i) = some (i, 0) := by
  unfold intRepr
  split
  · rename_i h
    unfold parseDec
    simp only []
    rw [parseDecBody_digits _ _ (all_isDigit_natDigits _) (natDigits_ne_nil _), digitsVal_natDigits]
    congr 2; omega
  · rename_i h
    obtain ⟨c, r, hcr, hc⟩ := natDigits_cons i.natAbs
    have key := parseDecBody_digits 1 _ (all_isDigit_natDigits i.natAbs) (natDigits_ne_nil _)
    rw [digitsVal_natDigits] at key
    rw [hcr] at key ⊢
    unfold parseDec
    split
    · rename_i r' heq
      exact absurd (List.cons.inj heq).1 (isDigit_ne _ _ hc (by decide))
    · rename_i r' heq
      exact absurd (List.cons.inj heq).1 (isDigit_ne _ _ hc (by decide))
    · rw [key]; congr 2; omega

theorem parseDec_signed (S I F : List Char) (neg : Bool) (hS : S = if neg then ['-'] else [])
    (hI : I.all isDigit = true) (hne : I ≠ []) (hF : F.all isDigit = true) :
    parseDec (S ++ I ++ '.' :: F) =
      some ((if neg then -1 else 1) * ((digitsVal I * 10 ^ F.length + digitsVal F : Nat) : Int), F.length) := by
  obtain ⟨t1, t2⟩ := takeWhile_digits_dot I F hI
  have body : ∀ sgn : Int, parseDecBody sgn (I ++ '.' :: F) =
      some (sgn * ((digitsVal I * 10 ^ F.length + digitsVal F : Nat) : Int), F.length) := by
    intro sgn
    unfold parseDecBody
    simp only [t1, t2, hF, ne_eq, hne, not_false_eq_true, true_or, and_self, if_true]
  cases neg with
  | true =>
    simp only [if_true] at hS ⊢
    subst hS
    simp only [List.cons_append, List.nil_append]
    unfold parseDec
    simp only []
    exact body (-1)
  | false =>
    simp only [Bool.false_eq_true, if_false] at hS ⊢
    subst hS
    simp only [List.nil_append]
    have := parseDec_digits_dot I F hI hne hF
    rw [this]
    simp

/-! ### `repr` of a float on a decimal grid: trailing zeros go, the value stays -/

theorem stripZerosR_spec (F : List Char) :
    ∃ z, F = stripZerosR F ++ List.replicate z '0' ∧ (stripZerosR F).length + z = F.length := by
  unfold stripZerosR
  have hsplit := List.takeWhile_append_dropWhile (p := (· = '0')) (l := F.reverse)
  have hall : ∀ c ∈ F.reverse.takeWhile (· = '0'), c = '0' := by
    intro c hc
    have := mem_takeWhile_prop _ _ c hc
    simpa using this
  have hrep : F.reverse.takeWhile (· = '0') = List.replicate (F.reverse.takeWhile (· = '0')).length '0' :=
    List.eq_replicate_iff.mpr ⟨rfl, hall⟩
  refine ⟨(F.reverse.takeWhile (· = '0')).length, ?_, ?_⟩
  · have : F = (F.reverse.dropWhile (· = '0')).reverse ++ (F.reverse.takeWhile (· = '0')).reverse := by
      rw [← List.reverse_append, hsplit, List.reverse_reverse]
    conv => lhs; rw [this]
    rw [hrep]
    simp
  · have := congrArg List.length hsplit
    simp only [List.length_append, List.length_reverse] at this ⊢
    omega

theorem stripZerosR_all (F : List Char) (h : F.all isDigit = true) : (stripZerosR F).all isDigit = true := by
  unfold stripZerosR
  rw [List.all_eq_true] at h ⊢
  intro c hc
  have : c ∈ F.reverse.dropWhile (· = '0') := by simpa using hc
  have := mem_of_mem_dropWhile' _ _ c this
  exact h c (by simpa using this)

theorem digitsVal_replicate_zero (z : Nat) : digitsVal (List.replicate z '0') = 0 := by
  have := digitsVal_zeros z []
  simpa [digitsVal] using this

/-- **`float(repr(k / 10^p))` is `k / 10^p`**: reading the text python prints for a float on the
`10^-p` grid (positional notation) gives back the same decimal, brought to `p` decimals -/
theorem parseDec_reprDec (k : Int) (p : Nat) (hp : 1 ≤ p) :
    ∃ v, parseDec (reprDec k p) = some v ∧ toScale p v = some k := by
  have hpos : 0 < 10 ^ p := Nat.pow_pos (by omega)
  obtain ⟨hF1, hF2, hF3⟩ := padZeros_props p (k.natAbs % 10 ^ p) (Nat.mod_lt _ hpos) hp
  unfold reprDec
  simp only []
  generalize hFdef : padZeros p (natDigits (k.natAbs % 10 ^ p)) = F at hF1 hF2 hF3
  obtain ⟨z, hz, hzl⟩ := stripZerosR_spec F
  have hF'all := stripZerosR_all F hF2
  generalize hF'def : stripZerosR F = F' at hz hzl hF'all
  have hval : digitsVal F = digitsVal F' * 10 ^ z := by
    conv => lhs; rw [hz]
    rw [digitsVal_app, digitsVal_replicate_zero]; simp
  have hI := all_isDigit_natDigits (k.natAbs / 10 ^ p)
  have hIne := natDigits_ne_nil (k.natAbs / 10 ^ p)
  have hIval := digitsVal_natDigits (k.natAbs / 10 ^ p)
  have hdm : k.natAbs / 10 ^ p * 10 ^ p + k.natAbs % 10 ^ p = k.natAbs := by
    rw [Nat.mul_comm]; exact Nat.div_add_mod _ _
  by_cases he : F' = []
  · -- all decimals are zero: "I.0"
    simp only [he, if_true]
    have hz0 : digitsVal F = 0 := by rw [hval, he]; simp [digitsVal]
    rw [parseDec_signed _ _ ['0'] (decide (k < 0)) (by simp) hI hIne (by decide)]
    refine ⟨_, rfl, ?_⟩
    unfold toScale
    have hle : (1 : Nat) ≤ p := hp
    simp only [List.length_cons, List.length_nil, Nat.zero_add, hle, if_true, hIval]
    have hmod : k.natAbs % 10 ^ p = 0 := by rw [← hF3, hz0]
    have hk : k.natAbs = k.natAbs / 10 ^ p * 10 ^ p := by omega
    have hpow : 10 ^ p = 10 ^ 1 * 10 ^ (p - 1) := by rw [← Nat.pow_add]; congr 1; omega
    have hdv : digitsVal ['0'] = 0 := by decide
    rw [hdv]
    by_cases hneg : k < 0
    · simp only [hneg, decide_true, if_true]
      have : ((k.natAbs / 10 ^ p * 10 ^ 1 + 0 : Nat) : Int) * ((10 ^ (p - 1) : Nat) : Int) = (k.natAbs : Int) := by
        rw [← Int.natCast_mul, Nat.add_zero, Nat.mul_assoc, ← hpow, ← hk]
      rw [Int.mul_assoc, this]
      congr 1; omega
    · simp only [hneg, decide_false, Bool.false_eq_true, if_false]
      have : ((k.natAbs / 10 ^ p * 10 ^ 1 + 0 : Nat) : Int) * ((10 ^ (p - 1) : Nat) : Int) = (k.natAbs : Int) := by
        rw [← Int.natCast_mul, Nat.add_zero, Nat.mul_assoc, ← hpow, ← hk]
      rw [Int.mul_assoc, this]
      congr 1; omega
  · simp only [he, if_false]
    rw [parseDec_signed _ _ F' (decide (k < 0)) (by simp) hI hIne hF'all]
    refine ⟨_, rfl, ?_⟩
    unfold toScale
    have hle : F'.length ≤ p := by omega
    simp only [hle, if_true, hIval]
    have hzp : p - F'.length = z := by omega
    rw [hzp]
    have hpow : 10 ^ p = 10 ^ F'.length * 10 ^ z := by rw [← Nat.pow_add]; congr 1; omega
    have hnat : (k.natAbs / 10 ^ p * 10 ^ F'.length + digitsVal F') * 10 ^ z = k.natAbs := by
      rw [Nat.add_mul, Nat.mul_assoc, ← hpow, ← hval, hF3]; exact hdm
    by_cases hneg : k < 0
    · simp only [hneg, decide_true, if_true]
      rw [Int.mul_assoc, ← Int.natCast_mul, hnat]
      congr 1; omega
    · simp only [hneg, decide_false, Bool.false_eq_true, if_false]
      rw [Int.mul_assoc, ← Int.natCast_mul, hnat]
      congr 1; omega

end C16
