import VermouthProofs.C09
/-! C09 — helper lemmas for `VermouthProps/C09_Boundary.lean`: sums over appended term lists and over
terms whose coordinate functional is constant. -/
set_option linter.unusedSectionVars false

namespace C09

section field
variable {K : Type} [Field K] [LinearOrder K] [IsStrictOrderedRing K]

theorem wsum_append (l1 l2 : List (K × V3 K)) : wsum (l1 ++ l2) = wsum l1 + wsum l2 := by
  induction l1 with
  | nil => simp [wsum]
  | cons t r ih => simp only [List.cons_append, wsum, ih]; ring

theorem wcsum_append (c : V3 K → K) (l1 l2 : List (K × V3 K)) : wcsum c (l1 ++ l2) = wcsum c l1 + wcsum c l2 := by
  induction l1 with
  | nil => simp [wcsum]
  | cons t r ih => simp only [List.cons_append, wcsum, ih]; ring

theorem wcsum_const_on (c : V3 K → K) (d : K) (l : List (K × V3 K)) (h : ∀ t ∈ l, c t.2 = d) :
    wcsum c l = d * wsum l := by
  induction l with
  | nil => simp [wcsum, wsum]
  | cons t r ih =>
    simp only [wcsum, wsum, h t List.mem_cons_self, ih (fun t' ht' => h t' (List.mem_cons_of_mem _ ht'))]
    ring

end field

end C09
