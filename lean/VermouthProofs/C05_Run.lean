import VermouthModel.C05_Run
import VermouthProofs.C05_Table
import VermouthProofs.C05_Replace
import VermouthProofs.C05_Match
/-!
# C05 — the whole run of `DoLinks.run_molecule` as a sequence of elementary operations

* A. `applyLinks = run ∘ runEvents`; what the run log records; where an event comes from.
* B1. whole-run "nothing unjustified" (`final_interaction_justified`).
* B2. an interaction written by the run is the final value of its identity unless a later step
  interferes (`holds_run`, `last_writer_wins`, `last_writer_unique`).
* B3. every interaction of a link, under every placement consumed, is written and is still there
  at the end unless a later step replaced / removed / deleted it (`present_unless_removed`).
* B4. the final attributes of a surviving node are the input attributes updated by all `replace`
  dictionaries that were applied to it, in processing order (`run_attrsOf`, `replace_attrs_final`).
-/
namespace C05
open Iso

/-! ## A. structural: the fold is a replay of the event list -/

theorem run_nil (s : Mol × List Int) : run s [] = s := rfl

theorem run_cons (s : Mol × List Int) (e : Ev) (evs : List Ev) :
    run s (e :: evs) = run (evStep s e) evs := rfl

theorem run_append (s : Mol × List Int) (a b : List Ev) : run s (a ++ b) = run (run s a) b := by
  simp [run, List.foldl_append]

theorem trace_append (s : Mol × List Int) (a b : List Ev) :
    trace s (a ++ b) = trace s a ++ trace (run s a) b := by
  induction a generalizing s with
  | nil => rfl
  | cons e rest ih => simp only [List.cons_append, trace, run_cons, ih]

theorem applyReplace_eq_run (mp : Map) (ns : List LNode) (s : Mol × List Int) :
    applyReplace mp ns s = run s (replaceEvents mp ns) := by
  induction ns generalizing s with
  | nil => rfl
  | cons n rest ih =>
    obtain ⟨m, rm⟩ := s
    cases hr : n.replace with
    | none => simp only [applyReplace, replaceEvents, hr]; exact ih _
    | some r =>
      by_cases hrm : removesNode r = true
      · simp only [applyReplace, replaceEvents, hr, hrm, if_true, run_cons]; exact ih _
      · simp only [applyReplace, replaceEvents, hr, hrm]; exact ih _

theorem applyRemoved_eq_run (mp : Map) (m : Mol) (rm : List Int) (dels : List (String × LDel)) :
    (applyRemoved mp m dels, rm) = run (m, rm) (dels.map fun d => Ev.rem d.1 (buildDel mp d.2)) := by
  induction dels generalizing m with
  | nil => rfl
  | cons d rest ih =>
    simp only [applyRemoved, List.foldl_cons, List.map_cons, run_cons]
    exact ih _

theorem applyAdded_eq_run (mp : Map) (cites : List String) (m : Mol) (rm : List Int)
    (adds : List (String × Inter)) :
    (applyAdded mp cites m adds, rm) =
      run (m, rm) (adds.map fun a => Ev.add (a.1, buildInter mp a.2) cites) := by
  induction adds generalizing m with
  | nil => rfl
  | cons a rest ih =>
    simp only [applyAdded, List.foldl_cons, List.map_cons, run_cons]
    exact ih _

/-- one placement = replay of its events -/
theorem applyPlacement_eq_run (l : Link) (s : Mol × List Int) (mp : Map) :
    applyPlacement l s mp = run s (placementEvents l mp) := by
  simp only [applyPlacement, placementEvents, run_append, ← applyReplace_eq_run]
  generalize applyReplace mp l.nodes s = s1
  obtain ⟨m1, rm1⟩ := s1
  rw [← applyRemoved_eq_run, ← applyAdded_eq_run]

theorem foldPlacement_eq_run (l : Link) (s : Mol × List Int) (ps : List Map) :
    ps.foldl (applyPlacement l) s = run s (ps.flatMap (placementEvents l)) := by
  induction ps generalizing s with
  | nil => rfl
  | cons mp rest ih =>
    simp only [List.foldl_cons, List.flatMap_cons, run_append, ih, applyPlacement_eq_run]

/-- one link = replay of its events -/
theorem applyLinkWith_eq_run (l : Link) (s : Mol × List Int) (ps : List Map) :
    applyLinkWith l s ps = run s (linkEvents l ps) := by
  simp only [applyLinkWith, linkEvents, run_append, foldPlacement_eq_run]
  rfl

theorem logEvents_nil : logEvents [] = [] := rfl

theorem logEvents_cons (st : LinkStep) (rest : List LinkStep) :
    logEvents (st :: rest) = linkEvents st.link st.ps ++ logEvents rest := by
  simp [logEvents]

theorem runLog_nil (s : Mol × List Int) (gs : List (List Map)) : runLog s [] gs = [] := rfl

theorem runLog_cons (s : Mol × List Int) (l : Link) (ls : List Link) (gs : List (List Map)) :
    runLog s (l :: ls) gs =
      ⟨s.1, l, orderAs (gs.headD []) (matchLink s.1 l)⟩ ::
        runLog (applyLinkWith l s (orderAs (gs.headD []) (matchLink s.1 l))) ls gs.tail := rfl

/-- the whole fold over links and placements = replay of the events of the run log -/
theorem applyLinksFrom_eq_run (s : Mol × List Int) (links : List Link) (gs : List (List Map)) :
    applyLinksFrom s links gs = run s (logEvents (runLog s links gs)) := by
  induction links generalizing s gs with
  | nil => rfl
  | cons l ls ih =>
    rw [runLog_cons, logEvents_cons, run_append]
    simp only [applyLinksFrom]
    rw [← applyLinkWith_eq_run]
    exact ih _ _

theorem applyLinks_eq_run (m : Mol) (links : List Link) (given : List (List Map)) :
    applyLinks m links given = (run (m, []) (runEvents m links given)).1 := by
  simp only [applyLinks, runEvents, applyLinksFrom_eq_run]

/-- an entry of the run log is one of the links, on exactly the placements `match_link` yields on
the molecule as it is when that link starts -/
theorem runLog_spec (s : Mol × List Int) (links : List Link) (gs : List (List Map)) (st : LinkStep)
    (h : st ∈ runLog s links gs) :
    st.link ∈ links ∧ ∀ mp, mp ∈ st.ps ↔ mp ∈ matchLink st.before st.link := by
  induction links generalizing s gs with
  | nil => cases h
  | cons l ls ih =>
    rw [runLog_cons] at h
    rcases List.mem_cons.1 h with h | h
    · subst h
      exact ⟨List.mem_cons_self, fun mp => ⟨orderAs_subset _ _ _, orderAs_complete _ _ _⟩⟩
    · obtain ⟨h1, h2⟩ := ih _ _ h
      exact ⟨List.mem_cons_of_mem _ h1, h2⟩

/-- … i.e. exactly the placements on which the link fits -/
theorem runLog_fits (s : Mol × List Int) (links : List Link) (gs : List (List Map)) (st : LinkStep)
    (h : st ∈ runLog s links gs) (hk : st.link.keys.Nodup) (hp : PatternsClosed st.link) (mp : Map) :
    mp ∈ st.ps ↔ LinkFits st.before st.link mp :=
  ((runLog_spec s links gs st h).2 mp).trans (matchLink_exact _ _ hk hp mp)

/-- the molecule a log entry records is the result of replaying the events of the entries before it -/
theorem runLog_before (s : Mol × List Int) (links : List Link) (gs : List (List Map))
    (pre : List LinkStep) (st : LinkStep) (post : List LinkStep)
    (h : runLog s links gs = pre ++ st :: post) : st.before = (run s (logEvents pre)).1 := by
  induction links generalizing s gs pre with
  | nil => rw [runLog_nil] at h; cases pre <;> cases h
  | cons l ls ih =>
    rw [runLog_cons] at h
    cases pre with
    | nil =>
      simp only [List.nil_append, List.cons.injEq] at h
      rw [← h.1]; rfl
    | cons p pre' =>
      simp only [List.cons_append, List.cons.injEq] at h
      rw [logEvents_cons, run_append, ← h.1]
      simp only []
      rw [← applyLinkWith_eq_run]
      exact ih _ _ _ h.2

/-! ### where an event comes from -/

theorem add_not_mem_replaceEvents (mp : Map) (ns : List LNode) (x : String × Inter) (c : List String) :
    Ev.add x c ∉ replaceEvents mp ns := by
  induction ns with
  | nil => simp [replaceEvents]
  | cons n rest ih =>
    simp only [replaceEvents]
    split
    · exact ih
    · split <;> simp [ih]

theorem setAttrs_mem_replaceEvents (mp : Map) (ns : List LNode) (k : Int) (new : Attrs) :
    Ev.setAttrs k new ∈ replaceEvents mp ns ↔
      ∃ n ∈ ns, n.replace = some new ∧ removesNode new = false ∧ k = Map.toFun mp n.key := by
  induction ns with
  | nil => simp [replaceEvents]
  | cons n rest ih =>
    simp only [replaceEvents]
    cases hr : n.replace with
    | none => simp [ih, hr]
    | some r =>
      by_cases hrm : removesNode r = true
      · simp only [hrm, if_true, List.mem_cons, reduceCtorEq, false_or, ih, exists_eq_or_imp, hr,
          Option.some.injEq]
        constructor
        · intro h; exact Or.inr h
        · rintro (⟨h1, h2, _⟩ | h)
          · subst h1; rw [hrm] at h2; cases h2
          · exact h
      · have hrm' : removesNode r = false := by simpa using hrm
        simp only [hrm', Bool.false_eq_true, if_false, List.mem_cons, Ev.setAttrs.injEq, ih,
          exists_eq_or_imp, hr, Option.some.injEq]
        constructor
        · rintro (⟨h1, h2⟩ | h)
          · subst h2; exact Or.inl ⟨rfl, hrm', h1⟩
          · exact Or.inr h
        · rintro (⟨h1, _, h3⟩ | h)
          · subst h1; exact Or.inl ⟨h3, rfl⟩
          · exact Or.inr h

theorem add_mem_placementEvents (l : Link) (mp : Map) (x : String × Inter) (c : List String) :
    Ev.add x c ∈ placementEvents l mp ↔
      ∃ a ∈ l.inters, x = (a.1, buildInter mp a.2) ∧ c = l.cites := by
  simp only [placementEvents, List.mem_append, add_not_mem_replaceEvents, List.mem_map, reduceCtorEq,
    and_false, exists_false, false_or, Ev.add.injEq]
  constructor
  · rintro ⟨a, ha, h1, h2⟩; exact ⟨a, ha, h1.symm, h2.symm⟩
  · rintro ⟨a, ha, h1, h2⟩; exact ⟨a, ha, h1.symm, h2.symm⟩

theorem setAttrs_mem_placementEvents (l : Link) (mp : Map) (k : Int) (new : Attrs) :
    Ev.setAttrs k new ∈ placementEvents l mp ↔
      ∃ n ∈ l.nodes, n.replace = some new ∧ removesNode new = false ∧ k = Map.toFun mp n.key := by
  simp only [placementEvents, List.mem_append, setAttrs_mem_replaceEvents, List.mem_map, reduceCtorEq,
    and_false, exists_false, or_false]

theorem mem_logEvents (log : List LinkStep) (e : Ev) :
    e ∈ logEvents log ↔ ∃ st ∈ log, (∃ mp ∈ st.ps, e ∈ placementEvents st.link mp) ∨ e = Ev.drop := by
  simp only [logEvents, linkEvents, List.mem_flatMap, List.mem_append, List.mem_singleton]

/-- an `add_or_replace_interaction` of the run is the image of an interaction of some link of the
log under one of the placements consumed for it (with that link's citations) -/
theorem add_event_origin (log : List LinkStep) (x : String × Inter) (c : List String) :
    Ev.add x c ∈ logEvents log ↔
      ∃ st ∈ log, ∃ mp ∈ st.ps, ∃ a ∈ st.link.inters,
        x = (a.1, buildInter mp a.2) ∧ c = st.link.cites := by
  simp only [mem_logEvents, reduceCtorEq, or_false, add_mem_placementEvents]

/-- a `dict.update` of the run is the `replace` dictionary of a node of some link of the log, applied
to the image of that node under one of the placements consumed for it -/
theorem setAttrs_event_origin (log : List LinkStep) (k : Int) (new : Attrs) :
    Ev.setAttrs k new ∈ logEvents log ↔
      ∃ st ∈ log, ∃ mp ∈ st.ps, ∃ n ∈ st.link.nodes,
        n.replace = some new ∧ removesNode new = false ∧ k = Map.toFun mp n.key := by
  simp only [mem_logEvents, reduceCtorEq, or_false, setAttrs_mem_placementEvents]

/-! ## B1. whole-run "nothing unjustified" -/

/-- no interaction of the molecule mentions an atom of the removal list -/
def NoRemovedAtoms (s : Mol × List Int) : Prop := ∀ e ∈ s.1.inters, ∀ a ∈ e.2.atoms, a ∉ s.2

theorem applyLinkWith_clean (l : Link) (s : Mol × List Int) (ps : List Map) :
    NoRemovedAtoms (applyLinkWith l s ps) := by
  intro e he a ha hmem
  exact (removed_nodes_gone l s ps a hmem).2.2 e he ha

theorem applyLinksFrom_clean (s : Mol × List Int) (links : List Link) (gs : List (List Map))
    (h : NoRemovedAtoms s) : NoRemovedAtoms (applyLinksFrom s links gs) := by
  induction links generalizing s gs with
  | nil => exact h
  | cons l ls ih =>
    simp only [applyLinksFrom]
    exact ih _ _ (applyLinkWith_clean _ _ _)

theorem applyLinksFrom_justified (s : Mol × List Int) (links : List Link) (gs : List (List Map))
    (e : String × Inter) (h : e ∈ (applyLinksFrom s links gs).1.inters) :
    e ∈ s.1.inters ∨ ∃ st ∈ runLog s links gs, ∃ mp ∈ st.ps, ∃ a ∈ st.link.inters,
      mp ∈ matchLink st.before st.link ∧ e = (a.1, buildInter mp a.2) := by
  induction links generalizing s gs with
  | nil => exact Or.inl h
  | cons l ls ih =>
    simp only [applyLinksFrom] at h
    rw [runLog_cons]
    rcases ih _ _ h with h | ⟨st, hst, r⟩
    · rcases applyLinkWith_inters _ _ _ _ h with h | ⟨mp, hmp, a, ha, hr⟩
      · exact Or.inl h
      · exact Or.inr ⟨_, List.mem_cons_self, mp, hmp, a, ha, orderAs_subset _ _ _ hmp, hr⟩
    · exact Or.inr ⟨st, List.mem_cons_of_mem _ hst, r⟩

/-- Whole-run "nothing unjustified": every interaction of the result was in the input or is the image
of an interaction of a link of the run log under a placement consumed for it (one that `match_link`
yields on the molecule as it was when that link started), and none of its atoms is on the final
removal list. -/
theorem final_interaction_justified (m : Mol) (links : List Link) (given : List (List Map))
    (e : String × Inter) (h : e ∈ (applyLinks m links given).inters) :
    (e ∈ m.inters ∨ ∃ st ∈ runLog (m, []) links given, ∃ mp ∈ st.ps, ∃ a ∈ st.link.inters,
        mp ∈ matchLink st.before st.link ∧ e = (a.1, buildInter mp a.2))
    ∧ (∀ a ∈ e.2.atoms, a ∉ (applyLinksFrom (m, []) links given).2) := by
  refine ⟨applyLinksFrom_justified (m, []) links given e h, ?_⟩
  have hc : NoRemovedAtoms (applyLinksFrom (m, []) links given) :=
    applyLinksFrom_clean _ _ _ (by intro e _ a _ hm; cases hm)
  exact hc e h

/-! ## B2. the last writer wins -/

theorem tableGet_some (t : Table) (k : IKey) (v : Inter) (h : tableGet t k = some v) :
    ∃ e ∈ t, keyOf e = k ∧ e.2 = v := by
  unfold tableGet at h
  cases hf : t.find? (fun e => keyOf e == k) with
  | none => simp [hf] at h
  | some e =>
    simp only [hf, Option.map_some, Option.some.injEq] at h
    have := List.find?_some hf
    exact ⟨e, List.mem_of_find?_eq_some hf, by simpa using this, h⟩

/-- a removal whose template does not match the entry of identity `k` leaves that entry alone -/
theorem removeMatching_get (na : Int → Attrs) (t : Table) (ty : String) (d : LDel) (k : IKey) (v : Inter)
    (h : tableGet t k = some v) (hn : ¬ (ty = k.1 ∧ interMatch na v d = true)) :
    tableGet (removeMatching na t ty d) k = some v := by
  induction t with
  | nil => simp [tableGet_nil] at h
  | cons e rest ih =>
    simp only [removeMatching]
    rw [tableGet_cons] at h
    by_cases hk : keyOf e = k
    · rw [if_pos hk] at h
      have hv : e.2 = v := Option.some.inj h
      have hty : e.1 = k.1 := by rw [← hk]; rfl
      have hb : (e.1 == ty && interMatch na e.2 d) = false := by
        cases hb : (e.1 == ty && interMatch na e.2 d) with
        | false => rfl
        | true =>
          simp only [Bool.and_eq_true, beq_iff_eq] at hb
          exact absurd ⟨hb.1.symm.trans hty, hv ▸ hb.2⟩ hn
      simp only [hb, Bool.false_eq_true, if_false]
      rw [tableGet_cons, if_pos hk, hv]
    · rw [if_neg hk] at h
      split
      · exact h
      · rw [tableGet_cons, if_neg hk]; exact ih h

/-- filtering the table keeps the entry of identity `k` if the filter keeps it -/
theorem tableGet_filter (t : Table) (p : String × Inter → Bool) (k : IKey) (v : Inter)
    (h : tableGet t k = some v) (hp : ∀ e, keyOf e = k → e.2 = v → p e = true) :
    tableGet (t.filter p) k = some v := by
  induction t with
  | nil => simp [tableGet_nil] at h
  | cons e rest ih =>
    rw [tableGet_cons] at h
    by_cases hk : keyOf e = k
    · rw [if_pos hk] at h
      have hv : e.2 = v := Option.some.inj h
      rw [List.filter_cons_of_pos (hp e hk hv), tableGet_cons, if_pos hk, hv]
    · rw [if_neg hk] at h
      rw [List.filter_cons]
      split
      · rw [tableGet_cons, if_neg hk]; exact ih h
      · exact ih h

/-- one step that does not interfere with the entry (`k`, `v`) leaves it in place -/
theorem evStep_holds (s : Mol × List Int) (e : Ev) (k : IKey) (v : Inter)
    (h : tableGet s.1.inters k = some v) (hc : interferes k v (s, e) = false) :
    tableGet (evStep s e).1.inters k = some v := by
  simp only [interferes, Bool.or_eq_false_iff] at hc
  obtain ⟨⟨hw, hr⟩, hd⟩ := hc
  cases e with
  | setAttrs k' new => exact h
  | mark k' => exact h
  | rem ty d =>
    simp only [evStep]
    apply removeMatching_get _ _ _ _ _ _ h
    rintro ⟨h1, h2⟩
    simp [removesAt, h1, h2] at hr
  | add y c =>
    simp only [evStep, addOrReplace_get]
    have : ¬ k = keyOf y := by
      intro h'
      simp [Ev.writes, h'] at hw
    rw [if_neg this]; exact h
  | drop =>
    simp only [evStep, Mol.dropNodes]
    apply tableGet_filter _ _ _ _ h
    intro e _ hv
    simp only [deletesAt] at hd
    rw [hv, hd]; rfl

/-- The value stored under an identity stays the value of that identity as long as no later step
writes that identity, removes a matching entry of its type, or deletes one of its atoms. -/
theorem holds_run (s : Mol × List Int) (evs : List Ev) (k : IKey) (v : Inter)
    (h : tableGet s.1.inters k = some v)
    (hc : (trace s evs).all (fun e => !interferes k v e) = true) :
    tableGet (run s evs).1.inters k = some v := by
  induction evs generalizing s with
  | nil => exact h
  | cons e rest ih =>
    simp only [trace, List.all_cons, Bool.and_eq_true, Bool.not_eq_eq_eq_not, Bool.not_true] at hc
    rw [run_cons]
    exact ih _ (evStep_holds s e k v h hc.1) hc.2

theorem split_cons {α} (pre post : List α) (a : α) : pre ++ a :: post = (pre ++ [a]) ++ post := by
  simp

/-- right after an `add_or_replace_interaction` the identity carries the value just written -/
theorem get_after_add (s : Mol × List Int) (pre : List Ev) (x : String × Inter) (c : List String) :
    tableGet (run s (pre ++ [Ev.add x c])).1.inters (keyOf x) = some x.2 := by
  rw [run_append, run_cons, run_nil]
  simp only [evStep, addOrReplace_get, if_true]

/-- The last writer wins: if the run writes `x` at some point and no later step of the run
interferes with it, the final table holds `x` under its identity. -/
theorem last_writer_wins (m : Mol) (links : List Link) (given : List (List Map)) (pre post : List Ev)
    (x : String × Inter) (c : List String)
    (hsplit : runEvents m links given = pre ++ Ev.add x c :: post)
    (hclean : (trace (run (m, []) (pre ++ [Ev.add x c])) post).all
        (fun e => !interferes (keyOf x) x.2 e) = true) :
    tableGet (applyLinks m links given).inters (keyOf x) = some x.2 := by
  rw [applyLinks_eq_run, hsplit, split_cons, run_append]
  exact holds_run _ _ _ _ (get_after_add _ _ _ _) hclean

/-! ### distinct identities are an invariant of the run -/

theorem evStep_nodup (s : Mol × List Int) (e : Ev) (h : (tableKeys s.1.inters).Nodup) :
    (tableKeys (evStep s e).1.inters).Nodup := by
  cases e with
  | setAttrs k' new => exact h
  | mark k' => exact h
  | rem ty d => exact h.sublist ((removeMatching_sublist _ _ _ _).map keyOf)
  | add y c => exact addOrReplace_nodup _ _ h
  | drop => exact h.sublist (List.filter_sublist.map keyOf)

theorem run_nodup (s : Mol × List Int) (evs : List Ev) (h : (tableKeys s.1.inters).Nodup) :
    (tableKeys (run s evs).1.inters).Nodup := by
  induction evs generalizing s with
  | nil => exact h
  | cons e rest ih => rw [run_cons]; exact ih _ (evStep_nodup s e h)

/-- the identities of the final table are distinct when those of the input are -/
theorem applyLinks_nodup (m : Mol) (links : List Link) (given : List (List Map))
    (h : (tableKeys m.inters).Nodup) : (tableKeys (applyLinks m links given).inters).Nodup := by
  rw [applyLinks_eq_run]; exact run_nodup _ _ h

theorem filter_key_unique (t : Table) (k : IKey) (hn : (tableKeys t).Nodup) (e : String × Inter)
    (he : e ∈ t) (hk : keyOf e = k) : t.filter (fun e' => keyOf e' == k) = [e] := by
  induction t with
  | nil => cases he
  | cons e1 rest ih =>
    rw [tableKeys_cons, List.nodup_cons] at hn
    rcases List.mem_cons.1 he with h | h
    · subst h
      have hrest : rest.filter (fun e' => keyOf e' == k) = [] := by
        rw [List.filter_eq_nil_iff]
        intro a ha hka
        have : keyOf a = keyOf e := by rw [hk]; simpa using hka
        exact hn.1 (this ▸ List.mem_map_of_mem ha)
      rw [List.filter_cons_of_pos (by simp [hk]), hrest]
    · have hne : ¬ keyOf e1 = k := by
        intro h1
        exact hn.1 (by rw [h1, ← hk]; exact List.mem_map_of_mem h)
      rw [List.filter_cons_of_neg (by simpa using hne)]
      exact ih hn.2 h

/-- … and then the entry written last is the only entry of the final table with that identity -/
theorem last_writer_unique (m : Mol) (links : List Link) (given : List (List Map)) (pre post : List Ev)
    (x : String × Inter) (c : List String)
    (hsplit : runEvents m links given = pre ++ Ev.add x c :: post)
    (hclean : (trace (run (m, []) (pre ++ [Ev.add x c])) post).all
        (fun e => !interferes (keyOf x) x.2 e) = true)
    (hn : (tableKeys m.inters).Nodup) :
    (applyLinks m links given).inters.filter (fun e => keyOf e == keyOf x) = [x] := by
  obtain ⟨e, he, hk, hv⟩ := tableGet_some _ _ _ (last_writer_wins m links given pre post x c hsplit hclean)
  have hex : e = x := by
    have h1 : e.1 = x.1 := congrArg (·.1) hk
    exact Prod.ext h1 hv
  subst hex
  exact filter_key_unique _ _ (applyLinks_nodup m links given hn) e he rfl

/-! ## B3. present unless removed -/

theorem all_false_exists {α} (l : List α) (p : α → Bool) (h : ¬ l.all p = true) :
    ∃ a ∈ l, p a = false := by
  induction l with
  | nil => simp at h
  | cons a rest ih =>
    by_cases ha : p a = true
    · have : ¬ rest.all p = true := by
        intro hr; apply h; rw [List.all_cons, ha, hr]; rfl
      obtain ⟨b, hb, hpb⟩ := ih this
      exact ⟨b, List.mem_cons_of_mem _ hb, hpb⟩
    · exact ⟨a, List.mem_cons_self, by simpa using ha⟩

/-- Every interaction of a link of the run log, under every placement consumed for that link, is
written by the run; at the end it is the value of its identity unless a LATER step of the run wrote
the same identity, removed a matching entry of its type, or deleted one of its atoms. -/
theorem present_unless_removed (m : Mol) (links : List Link) (given : List (List Map)) (st : LinkStep)
    (hst : st ∈ runLog (m, []) links given) (mp : Map) (hmp : mp ∈ st.ps)
    (a : String × Inter) (ha : a ∈ st.link.inters) :
    ∃ pre post, runEvents m links given =
        pre ++ Ev.add (a.1, buildInter mp a.2) st.link.cites :: post ∧
      (tableGet (applyLinks m links given).inters (keyOf (a.1, buildInter mp a.2)) =
          some (buildInter mp a.2)
       ∨ ∃ e ∈ trace (run (m, []) (pre ++ [Ev.add (a.1, buildInter mp a.2) st.link.cites])) post,
           (e.2.writes (keyOf (a.1, buildInter mp a.2)) = true
            ∨ removesAt (keyOf (a.1, buildInter mp a.2)) (buildInter mp a.2) e = true
            ∨ deletesAt (buildInter mp a.2) e = true)) := by
  have hmem : Ev.add (a.1, buildInter mp a.2) st.link.cites ∈ runEvents m links given :=
    (add_event_origin _ _ _).2 ⟨st, hst, mp, hmp, a, ha, rfl, rfl⟩
  obtain ⟨pre, post, hsplit⟩ := List.append_of_mem hmem
  refine ⟨pre, post, hsplit, ?_⟩
  by_cases hc : (trace (run (m, []) (pre ++ [Ev.add (a.1, buildInter mp a.2) st.link.cites])) post).all
      (fun e => !interferes (keyOf (a.1, buildInter mp a.2)) (a.1, buildInter mp a.2).2 e) = true
  · exact Or.inl (last_writer_wins m links given pre post _ _ hsplit hc)
  · obtain ⟨e, he, hi⟩ := all_false_exists _ _ hc
    refine Or.inr ⟨e, he, ?_⟩
    simp only [interferes, Bool.not_eq_false', Bool.or_eq_true] at hi
    rcases hi with (h | h) | h
    · exact Or.inl h
    · exact Or.inr (Or.inl h)
    · exact Or.inr (Or.inr h)

/-! ## B4. the final attributes of a node -/

theorem aupdate_append (a n1 n2 : Attrs) : aupdate a (n1 ++ n2) = aupdate (aupdate a n1) n2 := by
  simp [aupdate, List.foldl_append]

theorem aupdate_nil (a : Attrs) : aupdate a [] = a := rfl

theorem setAttrs_keys (m : Mol) (k : Int) (new : Attrs) : (m.setAttrs k new).keys = m.keys := by
  simp only [Mol.setAttrs, Mol.keys, List.map_map]
  apply List.map_congr_left
  intro n _
  simp only [Function.comp]
  split <;> rfl

theorem dropNodes_keys (m : Mol) (ks : List Int) :
    (m.dropNodes ks).keys = m.keys.filter (fun k => !ks.contains k) := by
  simp only [Mol.dropNodes, Mol.keys, List.filter_map]
  rfl

theorem evStep_keys_sublist (s : Mol × List Int) (e : Ev) :
    (evStep s e).1.keys.Sublist s.1.keys := by
  cases e with
  | setAttrs k' new => simp only [evStep, setAttrs_keys]; exact List.Sublist.refl _
  | mark k' => exact List.Sublist.refl _
  | rem ty d => exact List.Sublist.refl _
  | add y c => exact List.Sublist.refl _
  | drop => simp only [evStep, dropNodes_keys]; exact List.filter_sublist

/-- the run never creates a node -/
theorem run_keys_sublist (s : Mol × List Int) (evs : List Ev) :
    (run s evs).1.keys.Sublist s.1.keys := by
  induction evs generalizing s with
  | nil => exact List.Sublist.refl _
  | cons e rest ih => rw [run_cons]; exact (ih _).trans (evStep_keys_sublist s e)

theorem dropNodes_attrsOf (m : Mol) (ks : List Int) (k : Int) (h : k ∉ ks) :
    (m.dropNodes ks).attrsOf k = m.attrsOf k := by
  have : (m.dropNodes ks).node? k = m.node? k := by
    simp only [Mol.node?, Mol.dropNodes]
    generalize m.nodes = ns
    induction ns with
    | nil => rfl
    | cons n rest ih =>
      rw [List.filter_cons]
      by_cases hn : n.key = k
      · subst hn
        simp [h]
      · split
        · simp only [List.find?_cons, ih]
        · rw [ih]; simp [hn]
  simp only [Mol.attrsOf, this]

/-- The attributes of a node that survives a sequence of events are its attributes before, updated
(`dict.update`) by all the `replace` dictionaries applied to it, in processing order. -/
theorem run_attrsOf (s : Mol × List Int) (evs : List Ev) (k : Int) (hn : s.1.keys.Nodup)
    (hk : k ∈ (run s evs).1.keys) :
    (run s evs).1.attrsOf k = aupdate (s.1.attrsOf k) (attrWrites k evs) := by
  induction evs generalizing s with
  | nil => rfl
  | cons e rest ih =>
    rw [run_cons] at hk ⊢
    have hk1 : k ∈ (evStep s e).1.keys := (run_keys_sublist _ _).subset hk
    have hk0 : k ∈ s.1.keys := (evStep_keys_sublist _ _).subset hk1
    rw [ih _ (hn.sublist (evStep_keys_sublist s e)) hk]
    cases e with
    | setAttrs k' new =>
      simp only [evStep, attrWrites]
      rw [setAttrs_attrsOf _ hn]
      by_cases h : k' = k
      · subst h; simp [hk0, aupdate_append]
      · have h' : ¬ k = k' := fun h'' => h h''.symm
        simp [h, h']
    | mark k' => rfl
    | rem ty d => rfl
    | add y c => rfl
    | drop =>
      simp only [evStep, attrWrites]
      rw [dropNodes_attrsOf]
      simp only [evStep, dropNodes_keys, List.mem_filter] at hk1
      simpa using hk1.2

/-- every attribute written on node `k` comes from a `dict.update` event on `k` -/
theorem attrWrites_origin (k : Int) (evs : List Ev) (kv : String × Val) (h : kv ∈ attrWrites k evs) :
    ∃ new, Ev.setAttrs k new ∈ evs ∧ kv ∈ new := by
  induction evs with
  | nil => simp [attrWrites] at h
  | cons e rest ih =>
    have lift : (∃ new, Ev.setAttrs k new ∈ rest ∧ kv ∈ new) →
        ∃ new, Ev.setAttrs k new ∈ e :: rest ∧ kv ∈ new := by
      rintro ⟨new, h1, h2⟩; exact ⟨new, List.mem_cons_of_mem _ h1, h2⟩
    cases e with
    | setAttrs k' new =>
      simp only [attrWrites] at h
      split at h
      · next hkk =>
        have : k' = k := by simpa using hkk
        subst this
        rcases List.mem_append.1 h with h | h
        · exact ⟨new, List.mem_cons_self, h⟩
        · exact lift (ih h)
      · exact lift (ih h)
    | mark k' => exact lift (ih h)
    | rem ty d => exact lift (ih h)
    | add y c => exact lift (ih h)
    | drop => exact lift (ih h)

/-- The final value of every attribute of every surviving node: the value given by the LAST `replace`
dictionary (in processing order) that mentions the attribute and was applied to that node, else the
input value. -/
theorem replace_attrs_final (m : Mol) (hk : m.keys.Nodup) (links : List Link) (given : List (List Map))
    (k : Int) (hkeep : k ∈ (applyLinks m links given).keys) (key : String) :
    ((applyLinks m links given).attrsOf k).lookup key =
      match (attrWrites k (runEvents m links given)).reverse.lookup key with
      | some v => some v
      | none => (m.attrsOf k).lookup key := by
  rw [applyLinks_eq_run] at hkeep ⊢
  rw [run_attrsOf (m, []) _ k hk hkeep]
  exact lookup_aupdate _ _ _

/-- every attribute written on a node by the run is an entry of the `replace` dictionary of a node of
a link of the run log, placed on that node by a placement consumed for that link -/
theorem attrWrites_run_origin (m : Mol) (links : List Link) (given : List (List Map)) (k : Int)
    (kv : String × Val) (h : kv ∈ attrWrites k (runEvents m links given)) :
    ∃ st ∈ runLog (m, []) links given, ∃ mp ∈ st.ps, ∃ n ∈ st.link.nodes, ∃ new,
      n.replace = some new ∧ removesNode new = false ∧ k = Map.toFun mp n.key ∧ kv ∈ new := by
  obtain ⟨new, hev, hkv⟩ := attrWrites_origin k _ kv h
  obtain ⟨st, hst, mp, hmp, n, hn, h1, h2, h3⟩ := (setAttrs_event_origin _ _ _).1 hev
  exact ⟨st, hst, mp, hmp, n, hn, new, h1, h2, h3, hkv⟩

/-! ## example data (used by the non-vacuity examples of `VermouthProps/C05_Run.lean`) -/

/-- `exLink` of `C05_Match` (a bond between an atom of order 0 and one of order +1) that also renames
its first atom, writes one bond and carries a citation -/
def exRunLink : Link :=
  { exLink with
    nodes := [⟨0, [("order", .plain (.int 0))], some [("atomname", .str "A")]⟩,
              ⟨1, [("order", .plain (.int 1))], none⟩],
    inters := [("bonds", { atoms := [0, 1], params := [.lit "1"], md := [] })],
    cites := ["ref"] }

/-- a one-atom link that deletes the atom of residue 3 (`replace: {atomname: null}`) -/
def exDropLink : Link :=
  { nodes := [⟨0, [("resid", .plain (.int 3))], some [("atomname", .none)]⟩], edges := [] }

/-- the bond the first placement of `exRunLink` writes on `exMol` -/
def exBond1 : String × Inter := ("bonds", { atoms := [10, 11], params := [.lit "1"], md := [] })
/-- the bond the second placement writes -/
def exBond2 : String × Inter := ("bonds", { atoms := [11, 12], params := [.lit "1"], md := [] })

example : matchLink exMol exRunLink = [[(0, 10), (1, 11)], [(0, 11), (1, 12)]] := by decide

example : (applyLinks exMol [exRunLink] []).inters = [exBond1, exBond2] := by decide

example : (applyLinks exMol [exRunLink, exDropLink] []).inters = [exBond1]
    ∧ (applyLinks exMol [exRunLink, exDropLink] []).keys = [10, 11] := by decide

end C05
