import VermouthModel.C14
/-!
Helper lemmas for C14: attribute dictionaries, the renaming of a matched atom.
-/
namespace C14

theorem lookup_map_set (a : Attrs) (k : String) (v : Option String) :
    (a.map fun p => if p.1 == k then (k, v) else p).lookup k = if a.any (fun p => p.1 == k) then some v else none := by
  induction a with
  | nil => simp
  | cons p a ih =>
    obtain ⟨pk, pv⟩ := p
    by_cases hp : pk = k
    · subst hp
      simp [List.lookup_cons]
    · have h2 : (k == pk) = false := by
        rw [beq_eq_false_iff_ne]; exact fun h => hp h.symm
      have h1 : (pk == k) = false := by
        rw [beq_eq_false_iff_ne]; exact hp
      simp only [List.map_cons, h1, Bool.false_eq_true, if_false, List.lookup_cons, h2, List.any_cons,
        Bool.false_or]
      exact ih

theorem lookup_append_new (a : Attrs) (k : String) (v : Option String) (h : a.any (fun p => p.1 == k) = false) :
    (a ++ [(k, v)]).lookup k = some v := by
  induction a with
  | nil => simp [List.lookup_cons]
  | cons p a ih =>
    obtain ⟨pk, pv⟩ := p
    simp only [List.any_cons, Bool.or_eq_false_iff] at h
    have hkp : (k == pk) = false := by
      have := h.1
      rw [beq_eq_false_iff_ne] at this ⊢
      exact fun h' => this h'.symm
    rw [List.cons_append, List.lookup_cons, hkp]
    exact ih h.2

theorem aget_aset_same (a : Attrs) (k : String) (v : Option String) : aget (aset a k v) k = some v := by
  unfold aget aset
  by_cases h : a.any (fun p => p.1 == k) = true
  · rw [if_pos h, lookup_map_set, if_pos h]
  · rw [if_neg h]
    exact lookup_append_new a k v (Bool.eq_false_iff.2 h)

theorem aget_aset_other (a : Attrs) (k k' : String) (v : Option String) (hne : k' ≠ k) :
    aget (aset a k v) k' = aget a k' := by
  have h1 : (k' == k) = false := by rw [beq_eq_false_iff_ne]; exact hne
  unfold aget aset
  by_cases h : a.any (fun p => p.1 == k) = true
  · rw [if_pos h]
    clear h
    induction a with
    | nil => rfl
    | cons p a ih =>
      obtain ⟨pk, pv⟩ := p
      by_cases hp : pk = k
      · subst hp
        simp only [List.map_cons, beq_self_eq_true, if_true, List.lookup_cons, h1]
        exact ih
      · have hp' : (pk == k) = false := by rw [beq_eq_false_iff_ne]; exact hp
        simp only [List.map_cons, hp', Bool.false_eq_true, if_false, List.lookup_cons]
        rw [ih]
  · rw [if_neg h]
    clear h
    induction a with
    | nil => simp [List.lookup_cons, h1]
    | cons p a ih =>
      obtain ⟨pk, pv⟩ := p
      rw [List.cons_append, List.lookup_cons, List.lookup_cons, ih]

/-- copying a dictionary with distinct keys into another: `d.update(src)` -/
theorem aget_foldl_aset (src : Attrs) (hnd : (src.map Prod.fst).Nodup) (k : String) :
    ∀ (a : Attrs), aget (src.foldl (fun acc kv => aset acc kv.1 kv.2) a) k =
      match aget src k with
      | some v => some v
      | none => aget a k := by
  induction src with
  | nil => intro a; rfl
  | cons p src ih =>
    intro a
    rw [List.map_cons, List.nodup_cons] at hnd
    rw [List.foldl_cons, ih hnd.2]
    by_cases hk : k = p.1
    · subst hk
      have hnone : aget src p.1 = none := by
        unfold aget
        rw [List.lookup_eq_none_iff]
        intro q hq
        simp only [bne_iff_ne, ne_eq]
        intro heq
        apply hnd.1
        exact List.mem_map.2 ⟨q, hq, heq.symm⟩
      rw [hnone]
      simp only []
      rw [aget_aset_same]
      unfold aget
      rw [show p :: src = (p.1, p.2) :: src from rfl, List.lookup_cons]
      simp
    · have h1 : (k == p.1) = false := by rw [beq_eq_false_iff_ne]; exact hk
      have : aget (p :: src) k = aget src k := by
        unfold aget
        rw [show p :: src = (p.1, p.2) :: src from rfl, List.lookup_cons, h1]
      rw [this, aget_aset_other _ _ _ _ hk]

/-- one entry of `replace` -/
def replStep (acc : Attrs) (kv : String × Option String) : Attrs :=
  let acc1 := if kv.1 == "atomname" then aset acc "_old_atomname" ((aget acc "atomname").getD none) else acc
  if (aget acc1 kv.1).getD none != kv.2 then aset acc1 kv.1 kv.2 else acc1

theorem replStep_name (acc : Attrs) (kv : String × Option String) (nm : Option String)
    (h : aget acc "atomname" = some nm) :
    aget (replStep acc kv) "atomname" = if kv.1 = "atomname" then some kv.2 else some nm := by
  obtain ⟨k, v⟩ := kv
  unfold replStep
  by_cases hk : k = "atomname"
  · subst hk
    have h1 : aget (aset acc "_old_atomname" ((aget acc "atomname").getD none)) "atomname" = some nm := by
      rw [aget_aset_other _ _ _ _ (by decide)]; exact h
    simp only [beq_self_eq_true, if_true]
    split
    · rw [aget_aset_same]
    · next hne =>
      rw [h1] at hne ⊢
      have : nm = v := by simpa using hne
      rw [this]
  · have hb : (k == "atomname") = false := by rw [beq_eq_false_iff_ne]; exact hk
    simp only [hb, Bool.false_eq_true, if_false, hk]
    split
    · rw [aget_aset_other _ _ _ _ (fun h' => hk h'.symm)]; exact h
    · exact h

theorem foldl_replStep_name (rep : Attrs) (hnd : (rep.map Prod.fst).Nodup) :
    ∀ (acc : Attrs) (nm : Option String), aget acc "atomname" = some nm →
      aget (rep.foldl replStep acc) "atomname" =
        match aget rep "atomname" with
        | some v => some v
        | none => some nm := by
  induction rep with
  | nil => intro acc nm h; exact h
  | cons p rep ih =>
    intro acc nm h
    rw [List.map_cons, List.nodup_cons] at hnd
    rw [List.foldl_cons]
    have hs := replStep_name acc p nm h
    by_cases hk : p.1 = "atomname"
    · rw [if_pos hk] at hs
      rw [ih hnd.2 _ _ hs]
      have hnone : aget rep "atomname" = none := by
        unfold aget
        rw [List.lookup_eq_none_iff]
        intro q hq
        simp only [bne_iff_ne, ne_eq]
        intro heq
        apply hnd.1
        exact List.mem_map.2 ⟨q, hq, heq.symm.trans hk.symm⟩
      rw [hnone]
      unfold aget
      rw [show p :: rep = (p.1, p.2) :: rep from rfl, List.lookup_cons, hk]
      simp
    · rw [if_neg hk] at hs
      rw [ih hnd.2 _ _ hs]
      have h1 : ("atomname" == p.1) = false := by rw [beq_eq_false_iff_ne]; exact fun h' => hk h'.symm
      have : aget (p :: rep) "atomname" = aget rep "atomname" := by
        unfold aget
        rw [show p :: rep = (p.1, p.2) :: rep from rfl, List.lookup_cons, h1]
      rw [this]

/-! ### the renaming of a matched atom -/

/-- the name a PTM atom must carry after being matched on the pattern node `ma` whose `atomname` is
`nm`: the `replace` entry for `atomname` if there is one, `nm` otherwise -/
def canonName (ma : MAtom) (nm : Option String) : Option String :=
  match ma.replace with
  | some rep =>
    match aget rep "atomname" with
    | some v => v
    | none => nm
  | none => nm

/-- attribute dictionaries have distinct keys -/
def MAtom.WF (ma : MAtom) : Prop :=
  (ma.attrs.map Prod.fst).Nodup ∧ ∀ rep, ma.replace = some rep → (rep.map Prod.fst).Nodup

theorem applyPair_name (ma : MAtom) (a : Atom) (hptm : ma.ptm = true) (nm : Option String)
    (hname : nameOf ma.attrs = some nm) (hwf : ma.WF) :
    nameOf (applyPair ma a).attrs = some (canonName ma nm) := by
  have h1 : aget (ma.attrs.foldl (fun acc kv => aset acc kv.1 kv.2) a.attrs) "atomname" = some nm := by
    rw [aget_foldl_aset ma.attrs hwf.1]
    unfold nameOf at hname
    rw [hname]
  unfold applyPair canonName nameOf
  simp only [hptm, if_true]
  cases hr : ma.replace with
  | none => exact h1
  | some rep =>
    simp only []
    have := foldl_replStep_name rep (hwf.2 rep hr) _ nm h1
    cases hg : aget rep "atomname" with
    | none => rw [hg] at this; exact this
    | some v => rw [hg] at this; exact this

theorem applyPair_attrs_congr (ma : MAtom) {a b : Atom} (h : a.attrs = b.attrs) :
    (applyPair ma a).attrs = (applyPair ma b).attrs := by
  unfold applyPair
  simp only [h]

def atomAt (atoms : List Atom) (k : Int) : Option Atom := atoms.find? fun a => a.key == k

theorem atomAt_updAtom_same (atoms : List Atom) (k : Int) (f : Atom → Atom) (hf : ∀ a, (f a).key = a.key) :
    atomAt (updAtom atoms k f) k = (atomAt atoms k).map f := by
  unfold atomAt updAtom
  induction atoms with
  | nil => rfl
  | cons a atoms ih =>
    by_cases ha : a.key = k
    · have hb : (a.key == k) = true := by simpa using ha
      have hb2 : ((f a).key == k) = true := by rw [hf]; exact hb
      simp only [List.map_cons, hb, if_true, List.find?_cons, hb2, Option.map_some]
    · have hb : (a.key == k) = false := by simpa using ha
      simp only [List.map_cons, hb, Bool.false_eq_true, if_false, List.find?_cons]
      exact ih

theorem atomAt_updAtom_other (atoms : List Atom) (k k' : Int) (f : Atom → Atom) (hf : ∀ a, (f a).key = a.key)
    (hne : k' ≠ k) : atomAt (updAtom atoms k f) k' = atomAt atoms k' := by
  unfold atomAt updAtom
  induction atoms with
  | nil => rfl
  | cons a atoms ih =>
    by_cases ha : a.key = k
    · have hb : (a.key == k) = true := by simpa using ha
      have h1 : (a.key == k') = false := by
        rw [beq_eq_false_iff_ne, ha]; exact fun h => hne h.symm
      have h2 : ((f a).key == k') = false := by rw [hf]; exact h1
      simp only [List.map_cons, hb, if_true, List.find?_cons, h1, h2]
      exact ih
    · have hb : (a.key == k) = false := by simpa using ha
      simp only [List.map_cons, hb, Bool.false_eq_true, if_false, List.find?_cons]
      rw [ih]

theorem applyPair_key (ma : MAtom) (a : Atom) : (applyPair ma a).key = a.key := rfl

/-- what `applyPlacement` does to the atom with key `a`: the pair of the placement that mentions it
(if any) is applied to it, nothing else -/
theorem atomAt_applyPlacement (md : Modif) (p : Placement) (hp : (patoms p).Nodup) (a : Int) :
    ∀ (atoms : List Atom), atomAt (applyPlacement md p atoms) a =
      match p.lookup a with
      | some q =>
        match md.atom? q with
        | some ma => (atomAt atoms a).map (applyPair ma)
        | none => atomAt atoms a
      | none => atomAt atoms a := by
  unfold applyPlacement
  induction p with
  | nil => intro atoms; rfl
  | cons x p ih =>
    intro atoms
    obtain ⟨a1, q1⟩ := x
    unfold patoms at hp
    rw [List.map_cons, List.nodup_cons] at hp
    have ihp := ih (by unfold patoms; exact hp.2)
    have hnone : a = a1 → p.lookup a = none := by
      intro ha
      rw [List.lookup_eq_none_iff]
      intro y hy
      simp only [bne_iff_ne, ne_eq]
      intro heq
      exact hp.1 (List.mem_map.2 ⟨y, hy, heq.symm.trans ha⟩)
    simp only [List.foldl_cons]
    cases hm : md.atom? q1 with
    | none =>
      simp only []
      rw [ihp atoms]
      by_cases ha : a = a1
      · rw [hnone ha]
        subst ha
        simp only [List.lookup_cons, beq_self_eq_true, hm]
      · have h1 : (a == a1) = false := by rw [beq_eq_false_iff_ne]; exact ha
        simp only [List.lookup_cons, h1]
    | some ma =>
      simp only []
      rw [ihp (updAtom atoms a1 (applyPair ma))]
      by_cases ha : a = a1
      · rw [hnone ha]
        subst ha
        simp only [List.lookup_cons, beq_self_eq_true, hm]
        exact atomAt_updAtom_same atoms a (applyPair ma) (applyPair_key ma)
      · have h1 : (a == a1) = false := by rw [beq_eq_false_iff_ne]; exact ha
        simp only [List.lookup_cons, h1]
        rw [atomAt_updAtom_other atoms a1 a (applyPair ma) (applyPair_key ma) ha]

theorem labelAtom_attrs (i : Nat) (a : Atom) : (labelAtom i a).attrs = a.attrs := by
  unfold labelAtom; split <;> rfl

theorem atomAt_map_label (atoms : List Atom) (g : Atom → Atom) (hk : ∀ a, (g a).key = a.key) (k : Int) :
    atomAt (atoms.map g) k = (atomAt atoms k).map g := by
  unfold atomAt
  induction atoms with
  | nil => rfl
  | cons a atoms ih =>
    by_cases ha : (a.key == k) = true
    · have : ((g a).key == k) = true := by rw [hk]; exact ha
      simp [List.find?_cons, ha, this]
    · have ha' : (a.key == k) = false := by simpa using ha
      have : ((g a).key == k) = false := by rw [hk]; exact ha'
      simp only [List.map_cons, List.find?_cons, ha', this]
      exact ih

theorem labelAtom_key' (i : Nat) (a : Atom) : (labelAtom i a).key = a.key := by
  unfold labelAtom; split <;> rfl

/-- attributes of the atom with key `a` after one chosen placement has been applied (`applyOne`) -/
theorem attrs_applyOne (mods : List Modif) (nIdxs : List Int) (atoms : List Atom) (c : Nat × Placement)
    (hp : (patoms c.2).Nodup) (a : Int) :
    (atomAt (applyOne mods nIdxs atoms c) a).map (·.attrs) =
      match c.2.lookup a with
      | some q =>
        match (modAt mods c.1).atom? q with
        | some ma => (atomAt atoms a).map fun b => (applyPair ma b).attrs
        | none => (atomAt atoms a).map (·.attrs)
      | none => (atomAt atoms a).map (·.attrs) := by
  unfold applyOne
  rw [atomAt_map_label _ _ (by intro b; split; exact labelAtom_key' _ _; rfl), Option.map_map,
    atomAt_applyPlacement _ _ hp]
  have hfun : ((fun x : Atom => x.attrs) ∘ fun b => if nIdxs.contains b.key = true then labelAtom c.1 b else b)
      = fun x => x.attrs := by
    funext b
    simp only [Function.comp]
    split
    · exact labelAtom_attrs _ _
    · rfl
  rw [hfun]
  cases c.2.lookup a with
  | none => rfl
  | some q =>
    simp only []
    cases (modAt mods c.1).atom? q with
    | none => rfl
    | some ma => simp only [Option.map_map]; rfl

end C14
