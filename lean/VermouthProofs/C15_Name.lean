import VermouthModel.C15_Name
import VermouthProps.C03
/-! Helper lemmas for C15: the category `bonds` after the network, as `share_moltype_with` sees it. -/
namespace C15
open C03 (Mol Inter)

theorem find_bonds_filter_ne (l : List (String × List Inter)) (q : String × List Inter → Bool) :
    ((l.filter fun p => p.1 != "bonds").filter q).find? (fun p => p.1 == "bonds") = none := by
  rw [List.find?_eq_none]
  intro p hp
  have := (List.mem_filter.mp (List.mem_filter.mp hp).1).2
  simpa using this

/-- the relevant (non-empty) category `bonds` of a molecule after the network is what it had followed by the network -/
theorem catOf_relevant_applyNet (m : Mol) (net : List Inter) :
    catOf (C03.relevantInters (applyNet m net)) "bonds" = bondsOf m ++ net := by
  unfold catOf C03.relevantInters applyNet
  simp only [List.filter_cons]
  by_cases he : (bondsOf m ++ net).isEmpty = true
  · simp only [he, Bool.not_true, Bool.false_eq_true, if_false]
    rw [find_bonds_filter_ne]
    simp only [Option.map_none, Option.getD_none]
    exact (List.isEmpty_iff.mp he).symm
  · simp only [he, Bool.not_false, if_true]
    simp [List.find?]

theorem shareMolType_relevant (close : C03.Val → C03.Val → Bool) (m t : Mol) (h : C03.shareMolType close m t = true) :
    C03.relevantInters m = C03.relevantInters t := by
  unfold C03.shareMolType at h
  simp only [Bool.and_eq_true, beq_iff_eq] at h
  exact h.2

theorem getElem?_zipWith_applyNet (sys : List Mol) (nets : List (List Inter)) (i : Nat) (m : Mol) (net : List Inter)
    (hm : sys[i]? = some m) (hn : nets[i]? = some net) :
    (List.zipWith applyNet sys nets)[i]? = some (applyNet m net) := by
  simp [List.getElem?_zipWith, hm, hn]

end C15
