import VermouthModel.C13_Backmap
import VermouthProofs.C13_Comp
/-!
# C13 — backward-style `.map` reader and ITP pragmas

"Every declared mapping is emitted exactly once, in file order, with exactly the declared atoms and
weights", for the model `C13_Backmap.lean` of `vermouth.map_input.read_backmapping_file`:

* A. `parseMols_eq` / `mols_once_in_order`: the molecules read are the images, in order, of the
  segments of the cleaned file (one per `[ molecule ]` header); `mol_atoms_are_declared`,
  `mol_keys_nodup`;
* B. `molEntries_sound`, `molEntries_spec`, `backmap_weight_formula`;
* C. `readBackmap_none_on_conflict`;
* D. pragma pre-pass of the ITP reader: `pragmaPass_lines`, `pragmaPass_balanced`, `pragmaPass_meta`.
-/
namespace C13.Backmap
open C13

/-! ## A. molecules once and in order -/

/-- the non-empty cleaned lines of a file -/
def cleanedLines (ls : List String) : List String := (ls.map clean).filter (fun c => !c.isEmpty)

def isMolHeader (c : String) : Bool := isHeader c && headerName c = "molecule"

/-- one segment per `[ molecule ]` header: the cleaned lines that follow it up to the next
`[ molecule ]` header (or the end of the file), and whether it is ended by such a header -/
def molSegmentsE : List String → List (List String × Bool)
  | [] => []
  | c :: r =>
    if isMolHeader c then (r.takeWhile (fun x => !isMolHeader x), r.any isMolHeader) :: molSegmentsE r
    else molSegmentsE r

def molSegments (cs : List String) : List (List String) := (molSegmentsE cs).map (·.1)

/-- the molecule declared by a segment: `_read_mapping_partial` on its lines; when the segment is
ended by a `[ molecule ]` header the loop breaks with `context = 'molecule'` (and an empty segment
is the error "no content"), at the end of the file the context is the one of the last line -/
def molOfSegment (x : List String × Bool) : Option Mol :=
  match x.1.foldlM partialStep {} with
  | none => none
  | some s =>
    if x.2 then (if x.1.isEmpty then none else partialFinish { s with context := "molecule" })
    else partialFinish s

/-- the loop of `read_backmapping_file` over the segments: stop (silently) at the first molecule
without a name -/
def emitRun : List (List String × Bool) → Option (List Mol)
  | [] => some []
  | x :: xs =>
    match molOfSegment x with
    | none => none
    | some m => if m.name.isNone then some [] else (emitRun xs).map (m :: ·)

/-- `readMols` on cleaned lines -/
def readMolsC : PSt → List String → Option (List Mol)
  | s, [] =>
    match partialFinish s with
    | none => none
    | some m => if m.name.isNone then some [] else some [m]
  | s, c :: rest =>
    if isMolHeader c then
      if !s.hasContent then none
      else
        match partialFinish { s with context := "molecule" } with
        | none => none
        | some m =>
          if m.name.isNone then some []
          else (readMolsC {} rest).map fun ms => m :: ms
    else
      match partialStep s c with
      | none => none
      | some s' => readMolsC s' rest

theorem cleanedLines_cons (l : String) (rest : List String) :
    cleanedLines (l :: rest) =
      if (clean l).isEmpty then cleanedLines rest else clean l :: cleanedLines rest := by
  unfold cleanedLines
  by_cases h : (clean l).isEmpty = true <;> simp [h]

theorem readMols_eq_C (ls : List String) : ∀ s, readMols s ls = readMolsC s (cleanedLines ls) := by
  induction ls with
  | nil => intro s; rfl
  | cons l rest ih =>
    intro s
    rw [cleanedLines_cons]
    by_cases h : (clean l).isEmpty = true
    · simp only [readMols, h, if_true, ih]
    · simp only [readMols, h, if_false, readMolsC, isMolHeader, ih, Bool.false_eq_true]
      by_cases hm : (isHeader (clean l) && decide (headerName (clean l) = "molecule")) = true
      · simp only [hm, if_true]
        by_cases hc : (!s.hasContent) = true
        · simp only [hc, if_true]
        · simp only [hc]
          cases partialFinish { s with context := "molecule" } <;> rfl
      · simp only [hm]
        cases partialStep s (clean l) <;> rfl

theorem partialStep_hasContent {s s' : PSt} {c : String} (h : partialStep s c = some s') :
    s'.hasContent = true := by
  unfold partialStep at h
  repeat' split at h
  all_goals first | (cases h; rfl) | (simp at h)

theorem fold_hasContent (seg : List String) :
    ∀ (s s' : PSt), seg.foldlM partialStep s = some s' → seg ≠ [] → s'.hasContent = true := by
  induction seg with
  | nil => intro s s' _ h; exact absurd rfl h
  | cons c r ih =>
    intro s s' h _
    simp only [List.foldlM_cons, Option.bind_eq_bind, Option.bind_eq_some_iff] at h
    obtain ⟨s1, h1, h2⟩ := h
    cases r with
    | nil => simp at h2; cases h2; exact partialStep_hasContent h1
    | cons c' r' => exact ih s1 s' h2 (by simp)

/-- what `readMolsC` does up to the next `[ molecule ]` header -/
theorem readMolsC_segment (cs : List String) :
    ∀ s, readMolsC s cs =
      match (cs.takeWhile (fun x => !isMolHeader x)).foldlM partialStep s with
      | none => none
      | some s' =>
        match cs.dropWhile (fun x => !isMolHeader x) with
        | [] => (match partialFinish s' with
                 | none => none
                 | some m => if m.name.isNone then some [] else some [m])
        | _ :: rest =>
          if !s'.hasContent then none
          else match partialFinish { s' with context := "molecule" } with
            | none => none
            | some m => if m.name.isNone then some [] else (readMolsC {} rest).map fun ms => m :: ms := by
  induction cs with
  | nil => intro s; rfl
  | cons c r ih =>
    intro s
    by_cases hc : isMolHeader c = true
    · simp [readMolsC, hc]
    · simp only [readMolsC, hc, Bool.false_eq_true, if_false, List.takeWhile_cons,
        List.dropWhile_cons, Bool.not_false, if_true, List.foldlM_cons, Option.bind_eq_bind]
      cases hs : partialStep s c with
      | none => rfl
      | some s1 => simp only [Option.bind_some]; exact ih s1


theorem molSegmentsE_dropWhile (cs : List String) :
    molSegmentsE cs = molSegmentsE (cs.dropWhile (fun x => !isMolHeader x)) := by
  induction cs with
  | nil => rfl
  | cons c r ih =>
    by_cases hc : isMolHeader c = true
    · simp [hc]
    · simp only [molSegmentsE, hc, Bool.false_eq_true, if_false, List.dropWhile_cons, Bool.not_false,
        if_true]
      exact ih

theorem dropWhile_nil_any (cs : List String) (h : cs.dropWhile (fun x => !isMolHeader x) = []) :
    cs.any isMolHeader = false := by
  induction cs with
  | nil => rfl
  | cons c r ih =>
    by_cases hc : isMolHeader c = true
    · simp [hc] at h
    · simp only [List.dropWhile_cons, hc, Bool.not_false, if_true] at h
      simp [hc, ih h]

theorem dropWhile_cons_any (cs : List String) (x : String) (rest : List String)
    (h : cs.dropWhile (fun x => !isMolHeader x) = x :: rest) :
    cs.any isMolHeader = true ∧ isMolHeader x = true ∧ rest.length < cs.length := by
  induction cs with
  | nil => simp at h
  | cons c r ih =>
    by_cases hc : isMolHeader c = true
    · simp only [List.dropWhile_cons, hc, Bool.not_true, Bool.false_eq_true, if_false,
        List.cons.injEq] at h
      obtain ⟨rfl, rfl⟩ := h
      simp [hc]
    · simp only [List.dropWhile_cons, hc, Bool.not_false, if_true] at h
      obtain ⟨h1, h2, h3⟩ := ih h
      refine ⟨by simp [h1], h2, by simp; omega⟩

/-- the reading loop is the run over the segments -/
theorem readMolsC_eq_emitRun (n : Nat) : ∀ cs : List String, cs.length ≤ n →
    readMolsC {} cs =
      emitRun ((cs.takeWhile (fun x => !isMolHeader x), cs.any isMolHeader) :: molSegmentsE cs) := by
  induction n with
  | zero =>
    intro cs h
    have : cs = [] := List.eq_nil_of_length_eq_zero (by omega)
    subst this
    simp only [readMolsC, emitRun, molOfSegment, List.takeWhile_nil, List.foldlM_nil, List.any_nil,
      molSegmentsE, Option.pure_def, Bool.false_eq_true, if_false]
    cases partialFinish {} with
    | none => rfl
    | some m => by_cases hm : m.name.isNone = true <;> simp [hm]
  | succ n ih =>
    intro cs hlen
    rw [readMolsC_segment cs {}]
    simp only [emitRun, molOfSegment]
    cases hf : (cs.takeWhile (fun x => !isMolHeader x)).foldlM partialStep {} with
    | none => rfl
    | some s' =>
      simp only
      cases hd : cs.dropWhile (fun x => !isMolHeader x) with
      | nil =>
        rw [dropWhile_nil_any cs hd, molSegmentsE_dropWhile cs, hd]
        simp only [Bool.false_eq_true, if_false, molSegmentsE, emitRun]
        cases partialFinish s' with
        | none => rfl
        | some m => by_cases hm : m.name.isNone = true <;> simp [hm]
      | cons x rest =>
        obtain ⟨hany, hx, hlt⟩ := dropWhile_cons_any cs x rest hd
        rw [hany, molSegmentsE_dropWhile cs, hd]
        simp only [if_true, molSegmentsE, hx]
        by_cases hemp : cs.takeWhile (fun x => !isMolHeader x) = []
        · rw [hemp] at hf
          simp only [List.foldlM_nil, Option.pure_def, Option.some.injEq] at hf
          subst hf
          simp [hemp]
        · have hcont := fold_hasContent _ _ _ hf hemp
          have hne : (cs.takeWhile (fun x => !isMolHeader x)).isEmpty = false := by
            simpa using hemp
          simp only [hcont, Bool.not_true, Bool.false_eq_true, if_false, hne]
          rw [ih rest (by omega)]

theorem skipToMolecule_spec (ls : List String) :
    (∀ rest, skipToMolecule ls = some rest →
      molSegmentsE (cleanedLines ls) =
        ((cleanedLines rest).takeWhile (fun x => !isMolHeader x), (cleanedLines rest).any isMolHeader)
          :: molSegmentsE (cleanedLines rest)) ∧
    (skipToMolecule ls = none → molSegmentsE (cleanedLines ls) = []) := by
  induction ls with
  | nil => exact ⟨fun rest h => by simp [skipToMolecule] at h, fun _ => rfl⟩
  | cons l r ih =>
    have hne : ∀ c : String, isMolHeader c = true → c.isEmpty = false := by
      intro c hc
      cases he : c.isEmpty with
      | false => rfl
      | true =>
        exfalso
        have : c = "" := by simpa using he
        subst this
        revert hc; decide
    by_cases hc : isMolHeader (clean l) = true
    · have hc' : (isHeader (clean l) && decide (headerName (clean l) = "molecule")) = true := hc
      constructor
      · intro rest h
        simp only [skipToMolecule, hc', if_true, Option.some.injEq] at h
        subst h
        rw [cleanedLines_cons]
        simp [hne _ hc, molSegmentsE, hc]
      · intro h; simp [skipToMolecule, hc'] at h
    · have hc' : ¬ (isHeader (clean l) && decide (headerName (clean l) = "molecule")) = true := hc
      have hstep : molSegmentsE (cleanedLines (l :: r)) = molSegmentsE (cleanedLines r) := by
        rw [cleanedLines_cons]
        by_cases he : (clean l).isEmpty = true
        · simp [he]
        · simp [he, molSegmentsE, hc]
      rw [hstep]
      simp only [skipToMolecule, hc']
      exact ih

/-- **exact characterisation** of `parseMols` by the segments of the cleaned file -/
theorem parseMols_eq (lines : List String) :
    parseMols lines =
      if (molSegmentsE (cleanedLines lines)).isEmpty then none
      else emitRun (molSegmentsE (cleanedLines lines)) := by
  unfold parseMols
  obtain ⟨h1, h2⟩ := skipToMolecule_spec lines
  cases hs : skipToMolecule lines with
  | none => simp [h2 hs]
  | some rest =>
    dsimp only
    rw [h1 rest hs, readMols_eq_C, readMolsC_eq_emitRun _ _ (Nat.le_refl _)]
    simp


theorem emitRun_spec (xs : List (List String × Bool)) :
    ∀ ms, emitRun xs = some ms →
      ∃ run rest, xs = run ++ rest ∧ run.map molOfSegment = ms.map some ∧
        (∀ m ∈ ms, m.name.isSome = true) ∧
        (rest = [] ∨ ∃ x r m, rest = x :: r ∧ molOfSegment x = some m ∧ m.name = none) := by
  induction xs with
  | nil =>
    intro ms h
    simp only [emitRun, Option.some.injEq] at h
    subst h
    exact ⟨[], [], rfl, rfl, by simp, Or.inl rfl⟩
  | cons x xs ih =>
    intro ms h
    simp only [emitRun] at h
    cases hm : molOfSegment x with
    | none => simp [hm] at h
    | some m =>
      simp only [hm] at h
      by_cases hn : m.name.isNone = true
      · simp only [hn, if_true, Option.some.injEq] at h
        subst h
        refine ⟨[], x :: xs, rfl, rfl, by simp, Or.inr ⟨x, xs, m, rfl, hm, ?_⟩⟩
        simpa using hn
      · simp only [hn, Bool.false_eq_true, if_false, Option.map_eq_some_iff] at h
        obtain ⟨ms', hms', rfl⟩ := h
        obtain ⟨run, rest, h1, h2, h3, h4⟩ := ih ms' hms'
        refine ⟨x :: run, rest, by rw [h1]; rfl, by simp [hm, h2], ?_, h4⟩
        intro m' hm'
        rcases List.mem_cons.1 hm' with rfl | hm'
        · cases hnm : m'.name with
          | none => simp [hnm] at hn
          | some _ => rfl
        · exact h3 m' hm'

theorem molSegmentsE_length (cs : List String) :
    (molSegmentsE cs).length = cs.countP isMolHeader := by
  induction cs with
  | nil => rfl
  | cons c r ih =>
    by_cases hc : isMolHeader c = true
    · simp [molSegmentsE, hc, ih]
    · simp [molSegmentsE, hc, ih]

/-- **A: molecules once and in order.**  The molecules read are the images under `molOfSegment` of
an initial run of the segments of the file (one segment per `[ molecule ]` header, in file order),
each with a name; the run is all the segments unless the next segment declares a molecule without a
name (where `read_backmapping_file` breaks out of its loop). -/
theorem mols_once_in_order (lines : List String) (ms : List Mol) (h : parseMols lines = some ms) :
    ∃ run rest, molSegmentsE (cleanedLines lines) = run ++ rest ∧
      run.map molOfSegment = ms.map some ∧
      (∀ m ∈ ms, m.name.isSome = true) ∧
      (rest = [] ∨ ∃ x r m, rest = x :: r ∧ molOfSegment x = some m ∧ m.name = none) := by
  rw [parseMols_eq] at h
  split at h
  · cases h
  · exact emitRun_spec _ ms h

theorem mols_length_le (lines : List String) (ms : List Mol) (h : parseMols lines = some ms) :
    ms.length ≤ (cleanedLines lines).countP isMolHeader := by
  obtain ⟨run, rest, h1, h2, _, _⟩ := mols_once_in_order lines ms h
  have hl : run.length = ms.length := by
    have := congrArg List.length h2
    simpa using this
  rw [← molSegmentsE_length, h1, List.length_append]
  omega

/-- one molecule per `[ molecule ]` header when every segment declares a name -/
theorem mols_length_eq (lines : List String) (ms : List Mol) (h : parseMols lines = some ms)
    (hnamed : ∀ x ∈ molSegmentsE (cleanedLines lines), ∀ m, molOfSegment x = some m → m.name.isSome = true) :
    ms.length = (cleanedLines lines).countP isMolHeader ∧
    (molSegmentsE (cleanedLines lines)).map molOfSegment = ms.map some := by
  obtain ⟨run, rest, h1, h2, _, h4⟩ := mols_once_in_order lines ms h
  have hrest : rest = [] := by
    rcases h4 with h4 | ⟨x, r, m, rfl, hm, hn⟩
    · exact h4
    · have := hnamed x (by rw [h1]; simp) m hm
      rw [hn] at this
      cases this
  subst hrest
  rw [List.append_nil] at h1
  have hl : run.length = ms.length := by
    have := congrArg List.length h2
    simpa using this
  rw [← molSegmentsE_length, h1]
  exact ⟨hl.symm, h2⟩

/-- at least one `[ molecule ]` header is needed -/
theorem parseMols_none_without_header (lines : List String)
    (h : (cleanedLines lines).countP isMolHeader = 0) : parseMols lines = none := by
  rw [parseMols_eq]
  have : (molSegmentsE (cleanedLines lines)).length = 0 := by rw [molSegmentsE_length, h]
  have : molSegmentsE (cleanedLines lines) = [] := List.eq_nil_of_length_eq_zero this
  simp [this]

/-! ### the atoms of a molecule are the declared ones -/

/-- the non-header lines of a segment with the section they are in (the name of the last header
before them; `start` before any header) -/
def annotate (start : String) : List String → List (String × String)
  | [] => []
  | c :: r => if isHeaderLike c then annotate (headerName c) r else (start, c) :: annotate start r

/-- the `[ atoms ]` lines of a segment: (second field, remaining fields), in order -/
def atomsFrom (start : String) (seg : List String) : List (String × List String) :=
  (annotate start seg).filterMap fun x =>
    if x.1 = "atoms" then
      match splitWs x.2 with
      | _ :: fromAtom :: toAtoms => some (fromAtom, toAtoms)
      | _ => none
    else none

def atomsOf (seg : List String) : List (String × List String) := atomsFrom "molecule" seg

theorem molecule_ne_atoms : ("molecule" : String) ≠ "atoms" := by decide

theorem partialStep_mapping {s s' : PSt} {c : String} (h : partialStep s c = some s') :
    s'.mol.mapping = s.mol.mapping ++ atomsFrom s.context [c] ∧
    s'.context = (if isHeaderLike c then headerName c else s.context) ∧
    ((s.mol.mapping.map (·.1)).Nodup → (s'.mol.mapping.map (·.1)).Nodup) := by
  unfold partialStep at h
  by_cases hl : isHeaderLike c = true
  · simp only [hl, if_true] at h
    split at h
    · cases h
    · cases h
      simp [atomsFrom, annotate, hl]
  · simp only [hl, Bool.false_eq_true, if_false] at h
    by_cases hm : s.context = "molecule"
    · simp only [hm, if_true] at h
      have : ¬ (s.context = "atoms") := by rw [hm]; exact molecule_ne_atoms
      split at h
      · cases h
        exact ⟨by simp [atomsFrom, annotate, hl, this], by simp [hl, hm], id⟩
      · cases h
    · simp only [hm, if_false] at h
      by_cases ha : s.context = "atoms"
      · simp only [ha, if_true] at h
        split at h
        · rename_i x fromAtom toAtoms hsp
          split at h
          · cases h
          · rename_i hany
            cases h
            refine ⟨by simp [atomsFrom, annotate, hl, ha, hsp], by simp [hl, ha], ?_⟩
            intro hnd
            simp only [List.map_append, List.map_cons, List.map_nil]
            rw [List.nodup_append]
            refine ⟨hnd, by simp, ?_⟩
            intro a ha' b hb
            simp only [List.mem_singleton] at hb
            subst hb
            intro hab
            subst hab
            apply hany
            simp only [List.any_eq_true]
            obtain ⟨e, he, rfl⟩ := List.mem_map.1 ha'
            exact ⟨e, he, by simp⟩
        · rename_i hsp
          cases h
      · simp only [ha, if_false] at h
        have hnone : atomsFrom s.context [c] = [] := by simp [atomsFrom, annotate, hl, ha]
        rw [hnone, List.append_nil]
        repeat' split at h
        all_goals (cases h; simp [hl])

theorem atomsFrom_cons (start c : String) (r : List String) :
    atomsFrom start (c :: r) =
      atomsFrom start [c] ++ atomsFrom (if isHeaderLike c then headerName c else start) r := by
  unfold atomsFrom
  by_cases hl : isHeaderLike c = true
  · simp [annotate, hl]
  · simp only [annotate, hl, Bool.false_eq_true, if_false, List.filterMap_cons, List.filterMap_nil]
    split <;> simp

theorem fold_mapping (seg : List String) :
    ∀ (s s' : PSt), seg.foldlM partialStep s = some s' →
      s'.mol.mapping = s.mol.mapping ++ atomsFrom s.context seg ∧
      ((s.mol.mapping.map (·.1)).Nodup → (s'.mol.mapping.map (·.1)).Nodup) := by
  induction seg with
  | nil =>
    intro s s' h
    simp only [List.foldlM_nil, Option.pure_def, Option.some.injEq] at h
    subst h
    exact ⟨by simp [atomsFrom, annotate], id⟩
  | cons c r ih =>
    intro s s' h
    simp only [List.foldlM_cons, Option.bind_eq_bind, Option.bind_eq_some_iff] at h
    obtain ⟨s1, h1, h2⟩ := h
    obtain ⟨e1, e2, e3⟩ := partialStep_mapping h1
    obtain ⟨f1, f2⟩ := ih s1 s' h2
    refine ⟨?_, fun hnd => f2 (e3 hnd)⟩
    rw [f1, e1, e2, List.append_assoc, ← atomsFrom_cons]

theorem partialFinish_mapping {s : PSt} {m : Mol} (h : partialFinish s = some m) :
    m.mapping = s.mol.mapping ∧ m.name = s.mol.name ∧ (computeWeights m.mapping).isSome = true := by
  unfold partialFinish at h
  split at h
  · cases h
  · split at h
    · cases h
    · rename_i hw
      cases h
      refine ⟨rfl, rfl, ?_⟩
      cases hc : computeWeights s.mol.mapping with
      | none => simp [hc] at hw
      | some _ => rfl

theorem molOfSegment_state {x : List String × Bool} {m : Mol} (h : molOfSegment x = some m) :
    ∃ s, x.1.foldlM partialStep {} = some s ∧ m.mapping = s.mol.mapping ∧
      (computeWeights m.mapping).isSome = true := by
  unfold molOfSegment at h
  cases hf : x.1.foldlM partialStep {} with
  | none => simp [hf] at h
  | some s =>
    simp only [hf] at h
    refine ⟨s, rfl, ?_⟩
    split at h
    · split at h
      · cases h
      · obtain ⟨h1, _, h3⟩ := partialFinish_mapping h
        exact ⟨h1, h3⟩
    · obtain ⟨h1, _, h3⟩ := partialFinish_mapping h
      exact ⟨h1, h3⟩

/-- the atoms of a molecule are exactly the `[ atoms ]` lines of its segment, in order -/
theorem mol_atoms_are_declared {x : List String × Bool} {m : Mol} (h : molOfSegment x = some m) :
    m.mapping = atomsOf x.1 := by
  obtain ⟨s, hs, hm, _⟩ := molOfSegment_state h
  have := (fold_mapping x.1 {} s hs).1
  rw [hm, this]
  rfl

/-- the source atoms of a molecule are distinct -/
theorem mol_keys_nodup {x : List String × Bool} {m : Mol} (h : molOfSegment x = some m) :
    (m.mapping.map (·.1)).Nodup := by
  obtain ⟨s, hs, hm, _⟩ := molOfSegment_state h
  rw [hm]
  exact (fold_mapping x.1 {} s hs).2 (by simp [List.Nodup])

/-- ... for every molecule that `parseMols` returns -/
theorem parsed_mol_from_segment (lines : List String) (ms : List Mol)
    (h : parseMols lines = some ms) : ∀ m ∈ ms, ∃ x ∈ molSegmentsE (cleanedLines lines),
      molOfSegment x = some m := by
  obtain ⟨run, rest, h1, h2, _, _⟩ := mols_once_in_order lines ms h
  intro m hm
  have : some m ∈ run.map molOfSegment := by rw [h2]; exact List.mem_map.2 ⟨m, hm, rfl⟩
  obtain ⟨x, hx, hxm⟩ := List.mem_map.1 this
  exact ⟨x, by rw [h1]; exact List.mem_append_left _ hx, hxm⟩

theorem parsed_mol_keys_nodup (lines : List String) (ms : List Mol)
    (h : parseMols lines = some ms) : ∀ m ∈ ms, (m.mapping.map (·.1)).Nodup := by
  intro m hm
  obtain ⟨x, _, hx⟩ := parsed_mol_from_segment lines ms h m hm
  exact mol_keys_nodup hx


/-! ## B. the entries carry the declared weights -/

theorem foldlM_inv {α β : Type} (f : β → α → Option β) (P : β → Prop) (l : List α)
    (h : ∀ b a b', a ∈ l → P b → f b a = some b' → P b') :
    ∀ b r, P b → l.foldlM f b = some r → P r := by
  induction l with
  | nil => intro b r hb hr; simp at hr; subst hr; exact hb
  | cons a l ih =>
    intro b r hb hr
    simp only [List.foldlM_cons, Option.bind_eq_bind, Option.bind_eq_some_iff] at hr
    obtain ⟨b1, h1, h2⟩ := hr
    exact ih (fun b a' b' ha' => h b a' b' (List.mem_cons_of_mem _ ha')) b1 r
      (h b a b1 (List.mem_cons_self) hb h1) h2

/-- a property established by the step at `x` and kept by every step holds at the end -/
theorem foldlM_reach {α β : Type} (f : β → α → Option β) (Q : β → Prop) (l : List α) (x : α)
    (hx : x ∈ l) (hset : ∀ b b', f b x = some b' → Q b')
    (hkeep : ∀ b a b', Q b → f b a = some b' → Q b') :
    ∀ b r, l.foldlM f b = some r → Q r := by
  induction l with
  | nil => cases hx
  | cons a l ih =>
    intro b r hr
    simp only [List.foldlM_cons, Option.bind_eq_bind, Option.bind_eq_some_iff] at hr
    obtain ⟨b1, h1, h2⟩ := hr
    rcases List.mem_cons.1 hx with rfl | hx'
    · exact foldlM_inv f Q l (fun b a' b' _ => hkeep b a' b') b1 r (hset b b1 h1) h2
    · exact ih hx' b1 r h2

theorem mem_dictSet {K V : Type} [DecidableEq K] (d : List (K × V)) (k : K) (v : V) (x : K × V)
    (h : x ∈ dictSet d k v) : x = (k, v) ∨ x ∈ d := by
  induction d with
  | nil => simp [dictSet] at h; exact Or.inl h
  | cons e d ih =>
    obtain ⟨k', v'⟩ := e
    by_cases hk : k' = k
    · simp only [dictSet, hk, if_true, List.mem_cons] at h
      rcases h with h | h
      · exact Or.inl h
      · exact Or.inr (List.mem_cons_of_mem _ h)
    · simp only [dictSet, hk, if_false, List.mem_cons] at h
      rcases h with h | h
      · exact Or.inr (by rw [h]; exact List.mem_cons_self)
      · rcases ih h with h | h
        · exact Or.inl h
        · exact Or.inr (List.mem_cons_of_mem _ h)

theorem key_mem_dictSet {K V : Type} [DecidableEq K] (d : List (K × V)) (k : K) (v : V) (k' : K) :
    k' ∈ (dictSet d k v).map (·.1) ↔ k' = k ∨ k' ∈ d.map (·.1) := by
  induction d with
  | nil => simp [dictSet]
  | cons e d ih =>
    obtain ⟨k0, v0⟩ := e
    by_cases hk : k0 = k
    · subst hk; simp [dictSet]
    · simp only [dictSet, hk, if_false, List.map_cons, List.mem_cons, ih]
      constructor
      · rintro (h | h | h)
        · exact Or.inr (Or.inl h)
        · exact Or.inl h
        · exact Or.inr (Or.inr h)
      · rintro (h | h | h)
        · exact Or.inr (Or.inl h)
        · exact Or.inl h
        · exact Or.inr (Or.inr h)

/-- the inner step of `make_mapping_object` -/
def entryStep (fromB toB : Block) (w : List (String × String × Frac)) (a : String)
    (acc : List ((String × String) × Frac)) (t : String) : Option (List ((String × String) × Frac)) :=
  let to_ := stripNull t
  match lookupWeight w to_ a with
  | none => none
  | some fr =>
    match nameToIdx fromB a with
    | none => some acc
    | some i =>
      match nameToIdx toB to_ with
      | none => none
      | some j => some (dictSet acc (i, j) fr)

theorem molEntries_eq (fromB toB : Block) (m : Mol) (w : List (String × String × Frac)) :
    molEntries fromB toB m w =
      m.mapping.foldlM (fun acc e => e.2.foldlM (entryStep fromB toB w e.1) acc) [] := rfl

/-- where an entry comes from: a declared pair (source atom, target) with both atoms in the blocks -/
def EntrySrc (fromB toB : Block) (m : Mol) (w : List (String × String × Frac))
    (x : (String × String) × Frac) : Prop :=
  ∃ a tos t, (a, tos) ∈ m.mapping ∧ t ∈ tos ∧ nameToIdx fromB a = some x.1.1 ∧
    nameToIdx toB (stripNull t) = some x.1.2 ∧ lookupWeight w (stripNull t) a = some x.2

theorem entryStep_cases {fromB toB : Block} {w : List (String × String × Frac)} {a t : String}
    {acc acc' : List ((String × String) × Frac)} (h : entryStep fromB toB w a acc t = some acc') :
    ∃ fr, lookupWeight w (stripNull t) a = some fr ∧
      ((nameToIdx fromB a = none ∧ acc' = acc) ∨
       ∃ i j, nameToIdx fromB a = some i ∧ nameToIdx toB (stripNull t) = some j ∧
         acc' = dictSet acc (i, j) fr) := by
  unfold entryStep at h
  simp only at h
  split at h
  · cases h
  · rename_i fr hfr
    refine ⟨fr, hfr, ?_⟩
    split at h
    · rename_i hi; cases h; exact Or.inl ⟨hi, rfl⟩
    · rename_i i hi
      split at h
      · cases h
      · rename_i j hj; cases h; exact Or.inr ⟨i, j, hi, hj, rfl⟩

/-- every entry comes from a declared pair -/
theorem molEntries_sound (fromB toB : Block) (m : Mol) (w : List (String × String × Frac))
    (es : List ((String × String) × Frac)) (h : molEntries fromB toB m w = some es) :
    ∀ x ∈ es, EntrySrc fromB toB m w x := by
  rw [molEntries_eq] at h
  refine foldlM_inv _ (fun acc => ∀ x ∈ acc, EntrySrc fromB toB m w x) m.mapping ?_ [] es
    (by intro x hx; cases hx) h
  intro acc e acc' he hacc hstep
  refine foldlM_inv _ (fun acc => ∀ x ∈ acc, EntrySrc fromB toB m w x) e.2 ?_ acc acc' hacc hstep
  intro b t b' ht hb hs
  obtain ⟨fr, hfr, hcase⟩ := entryStep_cases hs
  rcases hcase with ⟨_, rfl⟩ | ⟨i, j, hi, hj, rfl⟩
  · exact hb
  · intro x hx
    rcases mem_dictSet _ _ _ _ hx with rfl | hx
    · exact ⟨e.1, e.2, t, he, ht, hi, hj, hfr⟩
    · exact hb x hx

/-- a declared pair with both atoms in the blocks has an entry -/
theorem molEntries_key_present (fromB toB : Block) (m : Mol) (w : List (String × String × Frac))
    (es : List ((String × String) × Frac)) (h : molEntries fromB toB m w = some es)
    {a t i j : String} {tos : List String} (hm : (a, tos) ∈ m.mapping) (ht : t ∈ tos)
    (hi : nameToIdx fromB a = some i) (hj : nameToIdx toB (stripNull t) = some j) :
    (i, j) ∈ es.map (·.1) := by
  rw [molEntries_eq] at h
  have hkeepT : ∀ (a' : String) (b : List ((String × String) × Frac)) (t' : String)
      (b' : List ((String × String) × Frac)),
      (i, j) ∈ b.map (·.1) → entryStep fromB toB w a' b t' = some b' → (i, j) ∈ b'.map (·.1) := by
    intro a' b t' b' hb hs
    obtain ⟨fr, _, hcase⟩ := entryStep_cases hs
    rcases hcase with ⟨_, rfl⟩ | ⟨i', j', _, _, rfl⟩
    · exact hb
    · exact (key_mem_dictSet _ _ _ _).2 (Or.inr hb)
  refine foldlM_reach _ (fun acc => (i, j) ∈ acc.map (·.1)) m.mapping (a, tos) hm ?_ ?_ [] es h
  · intro b b' hb
    refine foldlM_reach _ (fun acc => (i, j) ∈ acc.map (·.1)) tos t ht ?_ (fun b t' b' => hkeepT a b t' b')
      b b' hb
    intro c c' hs
    obtain ⟨fr, _, hcase⟩ := entryStep_cases hs
    rcases hcase with ⟨hn, _⟩ | ⟨i', j', hi', hj', rfl⟩
    · rw [hi] at hn; cases hn
    · rw [hi] at hi'; rw [hj] at hj'
      cases hi'; cases hj'
      exact (key_mem_dictSet _ _ _ _).2 (Or.inl rfl)
  · intro b e b' hb hs
    exact foldlM_inv _ (fun acc => (i, j) ∈ acc.map (·.1)) e.2
      (fun c t' c' _ hc hs' => hkeepT e.1 c t' c' hc hs') b b' hb hs

/-- **B**: the entry of a declared pair is its weight -/
theorem molEntries_spec (fromB toB : Block) (m : Mol) (w : List (String × String × Frac))
    (es : List ((String × String) × Frac)) (h : molEntries fromB toB m w = some es)
    {a t i j : String} {tos : List String} (hm : (a, tos) ∈ m.mapping) (ht : t ∈ tos)
    (hi : nameToIdx fromB a = some i) (hj : nameToIdx toB (stripNull t) = some j)
    (hinjF : ∀ x y k, nameToIdx fromB x = some k → nameToIdx fromB y = some k → x = y)
    (hinjT : ∀ x y k, nameToIdx toB x = some k → nameToIdx toB y = some k → x = y) :
    (es.find? (fun e => e.1 = (i, j))).map (·.2) = lookupWeight w (stripNull t) a := by
  have hkey := molEntries_key_present fromB toB m w es h hm ht hi hj
  cases hf : es.find? (fun e => e.1 = (i, j)) with
  | none =>
    exfalso
    rw [List.find?_eq_none] at hf
    obtain ⟨e, he, hek⟩ := List.mem_map.1 hkey
    exact hf e he (by simpa using hek)
  | some e =>
    have he : e ∈ es := List.mem_of_find?_eq_some hf
    have hek : e.1 = (i, j) := by simpa using List.find?_some hf
    obtain ⟨a', tos', t', _, _, hi', hj', hw⟩ := molEntries_sound fromB toB m w es h e he
    rw [hek] at hi' hj'
    have ha : a' = a := hinjF a' a i hi' hi
    have htt : stripNull t' = stripNull t := hinjT _ _ j hj' hj
    rw [ha, htt] at hw
    rw [hw]; rfl

theorem stripNull_of_not_null {t : String} (h : isNullTarget t = false) : stripNull t = t := by
  simp [stripNull, h]

theorem stripNull_of_null {t : String} (h : isNullTarget t = true) : stripNull t = stripBang t := by
  simp [stripNull, h]

/-- **B, corollary**: the weight of a declared target: a non-`!` target gets (its multiplicity on the
line) / (number of non-`!` targets of the line), a `!` target gets 0 -/
theorem backmap_weight_formula (fromB toB : Block) (m : Mol) (w : List (String × String × Frac))
    (es : List ((String × String) × Frac))
    (hw : computeWeights m.mapping = some w) (hnd : (m.mapping.map (·.1)).Nodup)
    (h : molEntries fromB toB m w = some es)
    {a t i j : String} {tos : List String} (hm : (a, tos) ∈ m.mapping) (ht : t ∈ tos)
    (hi : nameToIdx fromB a = some i) (hj : nameToIdx toB (stripNull t) = some j)
    (hinjF : ∀ x y k, nameToIdx fromB x = some k → nameToIdx fromB y = some k → x = y)
    (hinjT : ∀ x y k, nameToIdx toB x = some k → nameToIdx toB y = some k → x = y) :
    (isNullTarget t = false →
      (es.find? (fun e => e.1 = (i, j))).map (·.2)
        = some ⟨(nonNull tos).count t, (nonNull tos).length⟩) ∧
    (isNullTarget t = true →
      (es.find? (fun e => e.1 = (i, j))).map (·.2) = some ⟨0, 1⟩) := by
  have hs := molEntries_spec fromB toB m w es h hm ht hi hj hinjF hinjT
  constructor
  · intro hn
    rw [hs, stripNull_of_not_null hn]
    have hmem : t ∈ nonNull tos := by simp [nonNull, ht, hn]
    exact (weights_formula (t := t) hw hnd hm).1 hmem
  · intro hn
    rw [hs, stripNull_of_null hn]
    have hmem : stripBang t ∈ nullTargets tos := by
      unfold nullTargets
      exact List.mem_map.2 ⟨t, by simp [ht, hn], rfl⟩
    exact (weights_formula (t := stripBang t) hw hnd hm).2.1 hmem


/-! ## C. a weight conflict rejects the file -/

/-- a segment with an `[ atoms ]` line naming a target both with and without `!` is rejected -/
theorem segment_conflict_rejected {x : List String × Bool} {a t : String} {tos : List String}
    (hm : (a, tos) ∈ atomsOf x.1) (h1 : t ∈ nonNull tos) (h2 : t ∈ nullTargets tos) :
    molOfSegment x = none := by
  cases h : molOfSegment x with
  | none => rfl
  | some m =>
    exfalso
    obtain ⟨_, _, _, hw⟩ := molOfSegment_state h
    rw [mol_atoms_are_declared h] at hw
    rw [weights_conflict_rejected hm h1 h2] at hw
    cases hw

theorem emitRun_none_of (run : List (List String × Bool)) (x : List String × Bool)
    (rest : List (List String × Bool))
    (hrun : ∀ y ∈ run, ∀ m, molOfSegment y = some m → m.name.isSome = true)
    (hx : molOfSegment x = none) : emitRun (run ++ x :: rest) = none := by
  induction run with
  | nil => simp [emitRun, hx]
  | cons y run ih =>
    simp only [List.cons_append, emitRun]
    cases hy : molOfSegment y with
    | none => rfl
    | some m =>
      have hn := hrun y (by simp) m hy
      have : m.name.isNone = false := by
        cases hnm : m.name with
        | none => simp [hnm] at hn
        | some _ => rfl
      simp only [this, Bool.false_eq_true, if_false]
      rw [ih (fun z hz => hrun z (by simp [hz]))]
      rfl

theorem readBackmap_none_of_parseMols (lib : Library) (lines : List String)
    (h : parseMols lines = none) : readBackmap lib lines = none := by
  unfold parseMols at h
  unfold readBackmap
  cases hs : skipToMolecule lines with
  | none => rfl
  | some rest =>
    simp only [hs] at h
    simp [h]

/-- **C**: a molecule (reached by the reading loop: all molecules before it have a name) with a line
that names a target both with and without `!` makes the whole file an error -/
theorem readBackmap_none_on_conflict (lib : Library) (lines : List String)
    (run rest : List (List String × Bool)) (x : List String × Bool)
    (hsegs : molSegmentsE (cleanedLines lines) = run ++ x :: rest)
    (hrun : ∀ y ∈ run, ∀ m, molOfSegment y = some m → m.name.isSome = true)
    {a t : String} {tos : List String}
    (hm : (a, tos) ∈ atomsOf x.1) (h1 : t ∈ nonNull tos) (h2 : t ∈ nullTargets tos) :
    parseMols lines = none ∧ readBackmap lib lines = none := by
  have hp : parseMols lines = none := by
    rw [parseMols_eq, hsegs, emitRun_none_of run x rest hrun (segment_conflict_rejected hm h1 h2)]
    simp
  exact ⟨hp, readBackmap_none_of_parseMols lib lines hp⟩

/-- no molecule that is returned has such a line -/
theorem parsed_mols_conflict_free (lines : List String) (ms : List Mol)
    (h : parseMols lines = some ms) : ∀ m ∈ ms, ∀ e ∈ m.mapping, ∀ t,
      t ∈ nonNull e.2 → t ∉ nullTargets e.2 := by
  intro m hm e he t h1 h2
  obtain ⟨x, _, hx⟩ := parsed_mol_from_segment lines ms h m hm
  have := segment_conflict_rejected (x := x) (a := e.1) (tos := e.2)
    (by rw [← mol_atoms_are_declared hx]; exact he) h1 h2
  rw [hx] at this
  cases this

/-! non-vacuity -/
example : parseMols ["[ molecule ]", "ALA", "[ atoms ]", "1 N BB", "2 CA BB BB SC1 !SC2", "; c", "[molecule]",
    "GLY", "[ atoms ]", "1 N BB"]
    = some [{ name := some "ALA", fromFF := ["universal"], toFF := ["martini22"],
              mapping := [("N", ["BB"]), ("CA", ["BB", "BB", "SC1", "!SC2"])] },
            { name := some "GLY", fromFF := ["universal"], toFF := ["martini22"],
              mapping := [("N", ["BB"])] }] := by decide +kernel
example : parseMols ["[ molecule ]", "ALA", "[ atoms ]", "1 N BB !BB"] = none := by decide +kernel
example : parseMols ["ALA"] = none := by decide +kernel
example : molSegmentsE ["[ molecule ]", "A", "[ atoms ]", "[ molecule ]", "B"]
    = [(["A", "[ atoms ]"], true), (["B"], false)] := by decide +kernel

end C13.Backmap

namespace C13

/-! ## D. ITP pragmas -/

/-- a line that `pragmaPass` keeps (everything except content lines starting with `#`) -/
def keptLine : Line → Bool
  | .content t => !startsWithS t "#"
  | _ => true

@[simp] theorem keptLine_header (n : String) : keptLine (.header n) = true := rfl
@[simp] theorem keptLine_content (t : String) : keptLine (.content t) = !startsWithS t "#" := rfl

/-- the pragma lines of a file, in order -/
def pragmaLines (lines : List Line) : List String :=
  lines.filterMap fun l => match l with
    | .content t => if startsWithS t "#" then some t else none
    | _ => none

theorem pragmaPass_lines_gen (lines : List Line) :
    ∀ (m : PMeta) (out : List (Line × PMeta)), pragmaPass m lines = some out →
      out.map (·.1) = lines.filter keptLine := by
  induction lines with
  | nil =>
    intro m out h
    simp only [pragmaPass] at h
    split at h
    · cases h
    · cases h; rfl
  | cons l r ih =>
    intro m out h
    cases l with
    | header n =>
      simp only [pragmaPass, Option.map_eq_some_iff] at h
      obtain ⟨o, ho, rfl⟩ := h
      simp [List.filter_cons, ih m o ho]
    | content t =>
      simp only [pragmaPass] at h
      by_cases ht : startsWithS t "#" = true
      · simp only [ht, if_true] at h
        cases hs : pragmaStep m t with
        | none => simp [hs] at h
        | some m' =>
          simp only [hs] at h
          simp [ht, ih m' out h]
      · simp only [ht, Bool.false_eq_true, if_false, Option.map_eq_some_iff] at h
        obtain ⟨o, ho, rfl⟩ := h
        simp [ht, ih m o ho]

/-- D1: no line is lost or invented; exactly the pragma lines are consumed -/
theorem pragmaPass_lines (lines : List Line) (out : List (Line × PMeta))
    (h : pragmaPass none lines = some out) :
    out.map (·.1) = lines.filter (fun l => match l with | .content t => !startsWithS t "#" | _ => true) := by
  have := pragmaPass_lines_gen lines none out h
  rw [this]
  congr 1

theorem pragmaPass_balanced_gen (lines : List Line) :
    ∀ (m : PMeta) (out : List (Line × PMeta)), pragmaPass m lines = some out →
      (pragmaLines lines).foldlM pragmaStep m = some none := by
  induction lines with
  | nil =>
    intro m out h
    simp only [pragmaPass] at h
    cases m with
    | none => rfl
    | some x => simp at h
  | cons l r ih =>
    intro m out h
    cases l with
    | header n =>
      simp only [pragmaPass, Option.map_eq_some_iff] at h
      obtain ⟨o, ho, rfl⟩ := h
      simpa [pragmaLines] using ih m o ho
    | content t =>
      simp only [pragmaPass] at h
      by_cases ht : startsWithS t "#" = true
      · simp only [ht, if_true] at h
        cases hs : pragmaStep m t with
        | none => simp [hs] at h
        | some m' =>
          simp only [hs] at h
          have := ih m' out h
          simp only [pragmaLines, List.filterMap_cons, ht, if_true, List.foldlM_cons, hs,
            Option.bind_eq_bind, Option.bind_some]
          exact this
      · simp only [ht, Bool.false_eq_true, if_false, Option.map_eq_some_iff] at h
        obtain ⟨o, ho, rfl⟩ := h
        simpa [pragmaLines, ht] using ih m o ho

/-- D2: success implies that the pragma lines are well nested and end closed -/
theorem pragmaPass_balanced (lines : List Line) (out : List (Line × PMeta))
    (h : pragmaPass none lines = some out) :
    (pragmaLines lines).foldlM pragmaStep none = some none :=
  pragmaPass_balanced_gen lines none out h

/-- D3: the meta attached to a kept line is the fold of `pragmaStep` over the pragma lines that
precede it; the line sits at the position given by the number of kept lines before it -/
theorem pragmaPass_meta_gen (pre : List Line) :
    ∀ (m : PMeta) (l : Line) (post : List Line) (out : List (Line × PMeta)),
      pragmaPass m (pre ++ l :: post) = some out → keptLine l = true →
      ∃ mk, (pragmaLines pre).foldlM pragmaStep m = some mk ∧
        out[(pre.filter keptLine).length]? = some (l, mk) := by
  induction pre with
  | nil =>
    intro m l post out h hk
    refine ⟨m, rfl, ?_⟩
    cases l with
    | header n =>
      simp only [List.nil_append, pragmaPass, Option.map_eq_some_iff] at h
      obtain ⟨o, _, rfl⟩ := h
      rfl
    | content t =>
      have ht : startsWithS t "#" = false := by simpa [keptLine] using hk
      simp only [List.nil_append, pragmaPass, ht, Bool.false_eq_true, if_false,
        Option.map_eq_some_iff] at h
      obtain ⟨o, _, rfl⟩ := h
      rfl
  | cons p pre ih =>
    intro m l post out h hk
    cases p with
    | header n =>
      simp only [List.cons_append, pragmaPass, Option.map_eq_some_iff] at h
      obtain ⟨o, ho, rfl⟩ := h
      obtain ⟨mk, h1, h2⟩ := ih m l post o ho hk
      exact ⟨mk, by simpa [pragmaLines] using h1, by simpa [List.filter_cons] using h2⟩
    | content t =>
      simp only [List.cons_append, pragmaPass] at h
      by_cases ht : startsWithS t "#" = true
      · simp only [ht, if_true] at h
        cases hs : pragmaStep m t with
        | none => simp [hs] at h
        | some m' =>
          simp only [hs] at h
          obtain ⟨mk, h1, h2⟩ := ih m' l post out h hk
          refine ⟨mk, ?_, by simpa [List.filter_cons, ht] using h2⟩
          simp only [pragmaLines, List.filterMap_cons, ht, if_true, List.foldlM_cons, hs,
            Option.bind_eq_bind, Option.bind_some]
          exact h1
      · simp only [ht, Bool.false_eq_true, if_false, Option.map_eq_some_iff] at h
        obtain ⟨o, ho, rfl⟩ := h
        obtain ⟨mk, h1, h2⟩ := ih m l post o ho hk
        exact ⟨mk, by simpa [pragmaLines, ht] using h1, by simpa [List.filter_cons, ht] using h2⟩

theorem pragmaPass_meta (pre : List Line) (l : Line) (post : List Line) (out : List (Line × PMeta))
    (h : pragmaPass none (pre ++ l :: post) = some out) (hk : keptLine l = true) :
    ∃ mk, (pragmaLines pre).foldlM pragmaStep none = some mk ∧
      out[(pre.filter keptLine).length]? = some (l, mk) :=
  pragmaPass_meta_gen pre none l post out h hk

theorem pragmaStep_endif_needs_open : pragmaStep none "#endif" = none := by decide
theorem pragmaStep_nested_rejected (m : String × String) : pragmaStep (some m) "#ifdef X" = none := by
  unfold pragmaStep
  have h1 : ("#ifdef X" : String) ≠ "#endif" := by decide
  have h2 : startsWithS "#ifdef X" "#else" = false := by decide
  have h3 : startsWithS "#ifdef X" "#ifdef" = true := by decide
  simp [h1, h2, h3]
theorem pragmaStep_else_needs_open : pragmaStep none "#else" = none := by decide
example : pragmaStep none "#ifdef X" = some (some ("ifdef", "X")) := by decide
example : (["#ifdef X", "#else", "#endif"].foldlM pragmaStep none) = some none := by decide

end C13
