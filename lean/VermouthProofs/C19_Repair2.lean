import VermouthProofs.C19_Repair
import VermouthProofs.C19_Run
import VermouthModel.C19_Pipeline
/-! Helper lemmas for the end-to-end statements of the repair clause of C19. Core Lean only. -/
namespace C19.Repair
open C04

theorem nodup_map_of_inj_on_list {α β} {f : α → β} {l : List α} (hl : l.Nodup)
    (hinj : ∀ a ∈ l, ∀ b ∈ l, f a = f b → a = b) : (l.map f).Nodup := by
  induction l with
  | nil => simp
  | cons x t ih =>
    have hx := (List.nodup_cons.1 hl).1
    have ht := (List.nodup_cons.1 hl).2
    rw [List.map_cons, List.nodup_cons]
    refine ⟨?_, ih ht (fun a ha b hb => hinj a (List.mem_cons_of_mem _ ha) b (List.mem_cons_of_mem _ hb))⟩
    intro hm
    obtain ⟨y, hy, e⟩ := List.mem_map.1 hm
    have := hinj y (List.mem_cons_of_mem _ hy) x (by simp) e
    subst this; exact hx hy

theorem nodup_of_nodup_map {α β} (f : α → β) {l : List α} (h : (l.map f).Nodup) : l.Nodup := by
  induction l with
  | nil => simp
  | cons x t ih =>
    rw [List.map_cons, List.nodup_cons] at h
    rw [List.nodup_cons]
    exact ⟨fun hx => h.1 (List.mem_map.2 ⟨x, hx, rfl⟩), ih h.2⟩

theorem extra_sub_found {found : List Int} {M : Iso.Map} {k : Int} (h : k ∈ extraAtoms found M) : k ∈ found :=
  (List.mem_filter.1 h).1

/-- an atom outside the residue is in the state the flags are set on, unchanged -/
theorem outside_atom_in_state (m : C04.Mol) (R : Residue) (h : WF m R) (a0 : C04.Atom) (ha0 : a0 ∈ m.nodes)
    (hf : a0.key ∉ R.found) : a0 ∈ (rebuilt m R).2.nodes :=
  extra_atom_in_state m R h a0 ha0 (fun hc => hf (h.2.2.2.2.2.1 _ hc))

theorem outside_atom_kept (m : C04.Mol) (R : Residue) (h : WF m R) (a0 : C04.Atom) (ha0 : a0 ∈ m.nodes)
    (hf : a0.key ∉ R.found) : a0 ∈ (repairResidue m R).mol.nodes := by
  rw [repairResidue_mol]
  exact flagExtra_keep _ (outside_atom_in_state m R h a0 ha0 hf) (fun hc => hf (extra_sub_found hc))

/-- an atom of the result with an old key outside the residue is the input atom -/
theorem outside_atom_same (m : C04.Mol) (R : Residue) (h : WF m R) (a : C04.Atom)
    (ha : a ∈ (repairResidue m R).mol.nodes) (hk : a.key ∈ m.keys) (hf : a.key ∉ R.found) : a ∈ m.nodes := by
  obtain ⟨a0, ha0, hka⟩ := List.mem_map.1 hk
  have h0 := outside_atom_kept m R h a0 ha0 (by rw [hka]; exact hf)
  have : a0 = a := inj_of_nodup_map (out_keys_nodup m R h) h0 ha hka
  rw [← this]; exact ha0

/-! ### `dict.fromkeys` -/

theorem dedupAux_idem (seen l : List String) : dedupAux seen (dedupAux seen l) = dedupAux seen l := by
  induction l generalizing seen with
  | nil => rfl
  | cons x xs ih =>
    by_cases h : seen.contains x = true
    · simp only [dedupAux, h, if_true]; exact ih seen
    · simp only [dedupAux, h, if_false, Bool.false_eq_true]
      rw [ih (x :: seen)]

theorem mem_dedupAux (seen l : List String) (x : String) : x ∈ dedupAux seen l ↔ x ∈ l ∧ x ∉ seen := by
  induction l generalizing seen with
  | nil => simp [dedupAux]
  | cons y ys ih =>
    by_cases h : seen.contains y = true
    · have hy : y ∈ seen := by simpa using h
      simp only [dedupAux, h, if_true, ih, List.mem_cons]
      constructor
      · rintro ⟨h1, h2⟩; exact ⟨Or.inr h1, h2⟩
      · rintro ⟨h1 | h1, h2⟩
        · subst h1; exact absurd hy h2
        · exact ⟨h1, h2⟩
    · have hy : y ∉ seen := by simpa using h
      simp only [dedupAux, h, if_false, Bool.false_eq_true, List.mem_cons, ih, not_or]
      constructor
      · rintro (h1 | ⟨h1, h2, h3⟩)
        · subst h1; exact ⟨Or.inl rfl, hy⟩
        · exact ⟨Or.inr h1, h3⟩
      · rintro ⟨h1 | h1, h2⟩
        · exact Or.inl h1
        · by_cases e : x = y
          · exact Or.inl e
          · exact Or.inr ⟨h1, e, h2⟩

theorem nodup_dedupAux (seen l : List String) : (dedupAux seen l).Nodup := by
  induction l generalizing seen with
  | nil => simp [dedupAux]
  | cons y ys ih =>
    by_cases h : seen.contains y = true
    · simp only [dedupAux, h, if_true]; exact ih seen
    · simp only [dedupAux, h, if_false, Bool.false_eq_true, List.nodup_cons]
      refine ⟨?_, ih (y :: seen)⟩
      intro hc
      have := ((mem_dedupAux (y :: seen) ys y).1 hc).2
      exact this (by simp)

theorem dedupAux_of_nodup (seen l : List String) (hn : l.Nodup) (hd : ∀ x ∈ l, x ∉ seen) : dedupAux seen l = l := by
  induction l generalizing seen with
  | nil => rfl
  | cons y ys ih =>
    have hy : seen.contains y = false := by simpa using hd y (by simp)
    simp only [dedupAux, hy, Bool.false_eq_true, if_false]
    rw [ih (y :: seen) (List.nodup_cons.1 hn).2]
    intro x hx
    simp only [List.mem_cons, not_or]
    exact ⟨fun e => (List.nodup_cons.1 hn).1 (e ▸ hx), hd x (List.mem_cons_of_mem _ hx)⟩

/-- what of a reference does not depend on the attribute strings written at the end -/
def skeleton (b : Block) : List (Int × String × Int × Option Bool) × List (Int × Int) :=
  (b.nodes.map fun a => (a.key, a.name, a.elem, a.ptm), b.edges)

theorem skeleton_setAll (b : Block) (k v : String) : skeleton (setAll b k v) = skeleton b := by
  simp [skeleton, setAll, List.map_map, Function.comp_def]

/-! ### strings: a non-empty request list is truthy -/

theorem pyList_cons_toList (x : String) (xs : List String) :
    ∃ r, (pyList (x :: xs)).toList = '[' :: '\'' :: r := by
  unfold pyList
  cases xs with
  | nil => exact ⟨x.toList ++ ['\'', ']'], by simp [pyStr, String.toList_append]⟩
  | cons y ys =>
    refine ⟨x.toList ++ ['\''] ++ ", ".toList ++ (", ".intercalate ((y :: ys).map pyStr)).toList ++ [']'], ?_⟩
    simp only [List.map_cons, String.intercalate_cons_cons, String.toList_append, pyStr]
    simp

theorem truthy_pyList_cons (x : String) (xs : List String) : truthy (pyList (x :: xs)) = true := by
  obtain ⟨r, hr⟩ := pyList_cons_toList x xs
  unfold truthy
  simp only [Bool.not_eq_true', List.contains_eq_mem, decide_eq_false_iff_not]
  intro hc
  simp only [List.mem_cons, List.not_mem_nil, or_false] at hc
  rcases hc with h | h | h | h | h | h | h | h | h | h <;>
    (rw [h] at hr; simp at hr)

end C19.Repair
