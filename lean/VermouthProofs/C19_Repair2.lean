import VermouthProofs.C19_Repair
import VermouthProofs.C19_Run
import VermouthModel.C19_Pipeline
/-! Helper lemmas for the end-to-end statements of the repair clause of C19. Core Lean only. -/
namespace C19.Repair
open C04

theorem nodup_map_of_inj_on_list {α β} {f : α → β} {l : List α} (hl : l.Nodup)
    (hinj : ∀ a ∈ l, ∀ b ∈ l, f a = f b → a = b) : (l.map f).Nodup := by
  induction l with
  | nil => simp
  | cons x t ih =>
    have hx := (List.nodup_cons.1 hl).1
    have ht := (List.nodup_cons.1 hl).2
    rw [List.map_cons, List.nodup_cons]
    refine ⟨?_, ih ht (fun a ha b hb => hinj a (List.mem_cons_of_mem _ ha) b (List.mem_cons_of_mem _ hb))⟩
    intro hm
    obtain ⟨y, hy, e⟩ := List.mem_map.1 hm
    have := hinj y (List.mem_cons_of_mem _ hy) x (by simp) e
    subst this; exact hx hy

theorem nodup_of_nodup_map {α β} (f : α → β) {l : List α} (h : (l.map f).Nodup) : l.Nodup := by
  induction l with
  | nil => simp
  | cons x t ih =>
    rw [List.map_cons, List.nodup_cons] at h
    rw [List.nodup_cons]
    exact ⟨fun hx => h.1 (List.mem_map.2 ⟨x, hx, rfl⟩), ih h.2⟩

theorem extra_sub_found {found : List Int} {M : Iso.Map} {k : Int} (h : k ∈ extraAtoms found M) : k ∈ found :=
  (List.mem_filter.1 h).1

/-- an atom outside the residue is in the state the flags are set on, unchanged -/
theorem outside_atom_in_state (m : C04.Mol) (R : Residue) (h : WF m R) (a0 : C04.Atom) (ha0 : a0 ∈ m.nodes)
    (hf : a0.key ∉ R.found) : a0 ∈ (rebuilt m R).2.nodes :=
  extra_atom_in_state m R h a0 ha0 (fun hc => hf (h.2.2.2.2.2.1 _ hc))

theorem outside_atom_kept (m : C04.Mol) (R : Residue) (h : WF m R) (a0 : C04.Atom) (ha0 : a0 ∈ m.nodes)
    (hf : a0.key ∉ R.found) : a0 ∈ (repairResidue m R).mol.nodes := by
  rw [repairResidue_mol]
  exact flagExtra_keep _ (outside_atom_in_state m R h a0 ha0 hf) (fun hc => hf (extra_sub_found hc))

/-- an atom of the result with an old key outside the residue is the input atom -/
theorem outside_atom_same (m : C04.Mol) (R : Residue) (h : WF m R) (a : C04.Atom)
    (ha : a ∈ (repairResidue m R).mol.nodes) (hk : a.key ∈ m.keys) (hf : a.key ∉ R.found) : a ∈ m.nodes := by
  obtain ⟨a0, ha0, hka⟩ := List.mem_map.1 hk
  have h0 := outside_atom_kept m R h a0 ha0 (by rw [hka]; exact hf)
  have : a0 = a := inj_of_nodup_map (out_keys_nodup m R h) h0 ha hka
  rw [← this]; exact ha0

/-! ### strings: a non-empty request list is truthy -/

theorem pyList_cons_toList (x : String) (xs : List String) :
    ∃ r, (pyList (x :: xs)).toList = '[' :: '\'' :: r := by
  unfold pyList
  cases xs with
  | nil => exact ⟨x.toList ++ ['\'', ']'], by simp [pyStr, String.toList_append]⟩
  | cons y ys =>
    refine ⟨x.toList ++ ['\''] ++ ", ".toList ++ (", ".intercalate ((y :: ys).map pyStr)).toList ++ [']'], ?_⟩
    simp only [List.map_cons, String.intercalate_cons_cons, String.toList_append, pyStr]
    simp

theorem truthy_pyList_cons (x : String) (xs : List String) : truthy (pyList (x :: xs)) = true := by
  obtain ⟨r, hr⟩ := pyList_cons_toList x xs
  unfold truthy
  simp only [Bool.not_eq_true', List.contains_eq_mem, decide_eq_false_iff_not]
  intro hc
  simp only [List.mem_cons, List.not_mem_nil, or_false] at hc
  rcases hc with h | h | h | h | h | h | h | h | h | h <;>
    (rw [h] at hr; simp at hr)

end C19.Repair
