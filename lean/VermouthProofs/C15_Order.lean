import VermouthProofs.C15
import Mathlib.Tactic.Ring
/-! Helper lemmas for C15: the bond set in terms of atoms (not indices); symmetry; atom order. -/
namespace C15

/-- The five criteria for two atoms (records), given the residue graph. -/
def CritA (E : List (ResKey × ResKey)) (p : Params) (A B : Atom) : Prop :=
  selected p.names A = true ∧ selected p.names B = true ∧ crit p.dom A B = true ∧
  resConnected E p.sep A.res B.res = false ∧
  dist2 (vec A.pos) (vec B.pos) ≤ p.upper2 ∧
  p.minForce < min (kOf p (dist2 (vec A.pos) (vec B.pos))) p.base

theorem criteria_eq_critA (atoms : List Atom) (edges : List (Int × Int)) (p : Params) (i j : Nat) :
    Criteria atoms edges p i j ↔ CritA (resEdges atoms edges) p (atomAt atoms i) (atomAt atoms j) := Iff.rfl

/-! ### symmetry of the criteria -/

theorem dist2_symm (u v : V3) : dist2 u v = dist2 v u := by
  unfold dist2; congr 1; ring

theorem crit_symm (d : Domain) (a b : Atom) : crit d a b = crit d b a := by
  cases d with
  | always => rfl
  | chain => simp only [crit]; exact Bool.beq_comm
  | regions rs =>
    simp only [crit]
    congr 1
    funext r
    exact Bool.and_comm _ _

theorem walk_reverse {E : List (ResKey × ResKey)} {a b : ResKey} {l : List ResKey} (h : IsWalk E a l b) :
    ∃ l', l'.length = l.length ∧ IsWalk E b l' a := by
  induction l generalizing a with
  | nil => cases h; exact ⟨[], rfl, rfl⟩
  | cons m rest ih =>
    obtain ⟨l', hl, hw⟩ := ih h.2
    exact ⟨l' ++ [a], by simp [hl], walk_snoc hw (adj_symm h.1)⟩

theorem resConnected_symm (E : List (ResKey × ResKey)) (c : Nat) (a b : ResKey) :
    resConnected E c a b = resConnected E c b a := by
  have key : ∀ a b, resConnected E c a b = true → resConnected E c b a = true := by
    intro a b h
    unfold resConnected at *
    rw [List.contains_iff_mem] at *
    obtain ⟨l, hl, hw⟩ := (mem_ball E c a b).mp h
    obtain ⟨l', hl', hw'⟩ := walk_reverse hw
    exact (mem_ball E c b a).mpr ⟨l', by omega, hw'⟩
  cases h1 : resConnected E c a b <;> cases h2 : resConnected E c b a <;> try rfl
  · have := key b a h2; rw [h1] at this; cases this
  · have := key a b h1; rw [h2] at this; cases this

theorem critA_symm (E : List (ResKey × ResKey)) (p : Params) (A B : Atom) : CritA E p A B → CritA E p B A := by
  rintro ⟨h1, h2, h3, h4, h5, h6⟩
  refine ⟨h2, h1, ?_, ?_, ?_, ?_⟩
  · rw [crit_symm]; exact h3
  · rw [resConnected_symm]; exact h4
  · rw [dist2_symm]; exact h5
  · rw [dist2_symm]; exact h6

/-! ### full index-level characterisation of the emitted bonds -/

theorem criteria_of_bond (atoms : List Atom) (edges : List (Int × Int)) (p : Params) (h0 : 0 ≤ p.minForce)
    (b : Bond) (hb : b ∈ emit atoms p (mats atoms edges p)) :
    ∃ i j, i < j ∧ j < atoms.length ∧ Criteria atoms edges p i j ∧ b.a = keyAt atoms i ∧ b.b = keyAt atoms j ∧
      b.d2 = dist2 (posAt atoms i) (posAt atoms j) ∧ b.len5 = len5Of b.d2 ∧ b.k = min (kOf p b.d2) p.base := by
  obtain ⟨a, c, hac, hc, hgt, rfl⟩ := (mem_emit _ _ _ _).mp hb
  have hc' : c < (selection p.names atoms).length := hc
  have ha' : a < (selection p.names atoms).length := by omega
  obtain ⟨hlt, hC⟩ := (constEntry_gt_iff atoms edges p h0 a c hac hc').mp hgt
  have hne : (a == c) = false := by simp; omega
  have hd : mget (mats atoms edges p).dist a c 0 = _ := mget_dist atoms edges p a c ha' hc'
  refine ⟨_, _, sorted_getD_lt (selection_sorted _ _) hlt hc', sel_getD_lt _ _ _ hc', hC, rfl, rfl, hd, rfl, ?_⟩
  show constEntry p (mats atoms edges p) a c = min (kOf p (mget (mats atoms edges p).dist a c 0)) p.base
  have h1 := hgt
  rw [constEntry_eq _ _ _ _ _ ha' hc', hne] at h1 ⊢
  rw [hd]
  split at h1
  · next hl => rw [if_pos hl]; exact forceConst_value p _ h0 h1
  · exfalso; linarith

theorem bond_of_criteria (atoms : List Atom) (edges : List (Int × Int)) (p : Params) (h0 : 0 ≤ p.minForce)
    (i j : Nat) (hij : i < j) (hj : j < atoms.length) (hC : Criteria atoms edges p i j) :
    ∃ b ∈ emit atoms p (mats atoms edges p), b.a = keyAt atoms i ∧ b.b = keyAt atoms j ∧
      b.d2 = dist2 (posAt atoms i) (posAt atoms j) ∧ b.len5 = len5Of b.d2 ∧ b.k = min (kOf p b.d2) p.base := by
  have hi : i < atoms.length := by omega
  have hsi : i ∈ selection p.names atoms := (mem_selection _ _ _).mpr ⟨hi, hC.1⟩
  have hsj : j ∈ selection p.names atoms := (mem_selection _ _ _).mpr ⟨hj, hC.2.1⟩
  obtain ⟨a, ha, ea⟩ := exists_index_of_mem hsi
  obtain ⟨c, hc, ec⟩ := exists_index_of_mem hsj
  have hac : a < c := sorted_index_lt (selection_sorted p.names atoms) ha hc (by omega)
  have hgt := (constEntry_gt_iff atoms edges p h0 a c (by omega) hc).mpr ⟨hac, by rw [ea, ec]; exact hC⟩
  have hmem : mkBond atoms p (mats atoms edges p) (a, c) ∈ emit atoms p (mats atoms edges p) :=
    (mem_emit _ _ _ _).mpr ⟨a, c, by omega, hc, hgt, rfl⟩
  obtain ⟨i', j', _, _, _, e1, e2, e3, e4, e5⟩ := criteria_of_bond atoms edges p h0 _ hmem
  refine ⟨_, hmem, ?_, ?_, ?_, e4, e5⟩
  · show keyAt atoms ((selection p.names atoms).getD a 0) = _; rw [ea]
  · show keyAt atoms ((selection p.names atoms).getD c 0) = _; rw [ec]
  · show mget (mats atoms edges p).dist a c 0 = _
    rw [mget_dist atoms edges p a c ha hc, ea, ec]

/-! ### atoms instead of indices -/

theorem atomAt_mem (atoms : List Atom) (i : Nat) (hi : i < atoms.length) : atomAt atoms i ∈ atoms := by
  unfold atomAt
  simp [List.getD_eq_getElem?_getD, hi]

theorem exists_atomAt_of_mem (atoms : List Atom) (A : Atom) (h : A ∈ atoms) :
    ∃ i, i < atoms.length ∧ atomAt atoms i = A := by
  obtain ⟨i, hi, e⟩ := List.getElem_of_mem h
  exact ⟨i, hi, by unfold atomAt; simp [List.getD_eq_getElem?_getD, hi, e]⟩

/-- unordered key pair of a bond -/
def joins (b : Bond) (ka kb : Int) : Prop := (b.a = ka ∧ b.b = kb) ∨ (b.a = kb ∧ b.b = ka)

theorem bond_iff_atoms (atoms : List Atom) (edges : List (Int × Int)) (p : Params) (h0 : 0 ≤ p.minForce)
    (hk : (atoms.map (·.key)).Nodup) (ka kb : Int) (d l : Nat) (k : Rat) :
    (∃ b ∈ emit atoms p (mats atoms edges p), joins b ka kb ∧ b.d2 = d ∧ b.len5 = l ∧ b.k = k) ↔
      ∃ A ∈ atoms, ∃ B ∈ atoms, A.key = ka ∧ B.key = kb ∧ A.key ≠ B.key ∧ CritA (resEdges atoms edges) p A B ∧
        d = dist2 (vec A.pos) (vec B.pos) ∧ l = len5Of d ∧ k = min (kOf p d) p.base := by
  constructor
  · rintro ⟨b, hb, hj, rfl, rfl, rfl⟩
    obtain ⟨i, j, hij, hjN, hC, e1, e2, e3, e4, e5⟩ := criteria_of_bond atoms edges p h0 b hb
    have hiN : i < atoms.length := by omega
    have hne : keyAt atoms i ≠ keyAt atoms j := by
      intro e; have := key_inj atoms hk i j hiN hjN e; omega
    rcases hj with ⟨ha, hb'⟩ | ⟨ha, hb'⟩
    · exact ⟨atomAt atoms i, atomAt_mem _ _ hiN, atomAt atoms j, atomAt_mem _ _ hjN, by rw [← ha, e1]; rfl,
        by rw [← hb', e2]; rfl, hne, hC, e3, e4, e5⟩
    · refine ⟨atomAt atoms j, atomAt_mem _ _ hjN, atomAt atoms i, atomAt_mem _ _ hiN, by rw [← hb', e2]; rfl,
        by rw [← ha, e1]; rfl, fun e => hne e.symm, critA_symm _ _ _ _ hC, ?_, e4, e5⟩
      rw [e3]; exact dist2_symm _ _
  · rintro ⟨A, hA, B, hB, rfl, rfl, hne, hC, rfl, rfl, rfl⟩
    obtain ⟨i, hi, rfl⟩ := exists_atomAt_of_mem atoms A hA
    obtain ⟨j, hj, rfl⟩ := exists_atomAt_of_mem atoms B hB
    have hij : i ≠ j := by intro e; subst e; exact hne rfl
    rcases Nat.lt_or_gt_of_ne hij with hlt | hgt
    · obtain ⟨b, hb, e1, e2, e3, e4, e5⟩ := bond_of_criteria atoms edges p h0 i j hlt hj hC
      exact ⟨b, hb, Or.inl ⟨e1, e2⟩, e3, by rw [e4, e3]; rfl, by rw [e5, e3]; rfl⟩
    · obtain ⟨b, hb, e1, e2, e3, e4, e5⟩ := bond_of_criteria atoms edges p h0 j i hgt hi (critA_symm _ _ _ _ hC)
      have e3' : b.d2 = dist2 (vec (atomAt atoms i).pos) (vec (atomAt atoms j).pos) := by
        rw [e3]; exact dist2_symm _ _
      exact ⟨b, hb, Or.inr ⟨e1, e2⟩, e3', by rw [e4, e3'], by rw [e5, e3']⟩

/-! ### permuting the atoms -/

theorem atomOfKey_eq_some_iff (atoms : List Atom) (hk : (atoms.map (·.key)).Nodup) (k : Int) (a : Atom) :
    atomOfKey atoms k = some a ↔ a ∈ atoms ∧ a.key = k := by
  unfold atomOfKey
  constructor
  · intro h
    exact ⟨List.mem_of_find?_eq_some h, by simpa using List.find?_some h⟩
  · rintro ⟨ha, rfl⟩
    cases hf : atoms.find? (fun x => x.key == a.key) with
    | none =>
      have := List.find?_eq_none.mp hf a ha
      simp at this
    | some a' =>
      have h1 : a' ∈ atoms := List.mem_of_find?_eq_some hf
      have h2 : a'.key = a.key := by simpa using List.find?_some hf
      exact congrArg some (List.inj_on_of_nodup_map hk h1 ha h2)

theorem atomOfKey_perm (atoms atoms' : List Atom) (hp : atoms.Perm atoms') (hk : (atoms.map (·.key)).Nodup) (k : Int) :
    atomOfKey atoms' k = atomOfKey atoms k := by
  have hk' : (atoms'.map (·.key)).Nodup := (hp.map _).nodup_iff.mp hk
  apply Option.ext
  intro a
  rw [atomOfKey_eq_some_iff atoms' hk', atomOfKey_eq_some_iff atoms hk, hp.mem_iff]

theorem resEdges_perm (atoms atoms' : List Atom) (hp : atoms.Perm atoms') (hk : (atoms.map (·.key)).Nodup)
    (edges : List (Int × Int)) : resEdges atoms' edges = resEdges atoms edges := by
  unfold resEdges
  congr 1
  funext e
  rw [atomOfKey_perm atoms atoms' hp hk, atomOfKey_perm atoms atoms' hp hk]

end C15
