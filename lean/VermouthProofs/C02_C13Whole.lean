import VermouthProofs.C02_C13Walk
import VermouthProofs.C13_Itp
/-!
C02 ∘ C13 — the fused walk over blocks, sections, left-over sections and the whole written file.
Core Lean only.
-/
namespace C02.Repo
open C13

variable {tab : List Entry} {idxTab : List (String × List Idx)} {tbl : List (String × Arity)}

abbrev Blocks := List (Option String × (Nat × RCtx))

/-- a state of the walk with an open block -/
def stX (pm : PMeta) (sec : Path) (i0 : Nat) (c : RCtx) (bl : Blocks) (i : Nat) : XS :=
  ⟨pm, { sec := sec, blk := some (i0, c), blocks := bl }, i⟩

theorem walk_skip (P : IParams RCtx) (x : XS) (ls : List C02.Line) (h : ∀ l ∈ ls, cls l = []) :
    walkLs P x ls = some x := by
  induction ls with
  | nil => rfl
  | cons l r ih =>
    rw [walkLs_cons_ok P x x l r (by rw [h l (by simp)]; rfl)]
    exact ih (fun y hy => h y (by simp [hy]))

/-! ### atom rows -/

def addAtoms (c : RCtx) (w : Widths) : Nat → List Atom → RCtx
  | _, [] => c
  | k, a :: r => addAtoms (addAtom c w k a) w (k + 1) r

theorem walk_atomLines (F : TabFacts tab idxTab tbl) (w : Widths) (i0 : Nat) (bl : Blocks) (l : List Atom) :
    ∀ (k : Nat) (c : RCtx) (i : Nat), c.base.nodes.map (·.1) = keysUpTo k →
      (∀ a ∈ l, (∀ j, lineGood (.atom w j a) = true) ∧ atomRepoOk a = true ∧ atomOk a = true) →
      ∃ j, walkLs (paramsX idxTab tab) (stX none ["moleculetype", "atoms"] i0 c bl i) (C02.atomLines w l (k + 1))
        = some (stX none ["moleculetype", "atoms"] i0 (addAtoms c w k l) bl j) := by
  induction l with
  | nil => intro k c i _ _; exact ⟨i, rfl⟩
  | cons a r ih =>
    intro k c i hk hall
    obtain ⟨h1, h2, h3⟩ := hall a (by simp)
    simp only [C02.atomLines]
    unfold stX
    rw [walkLs_cons_ok _ _ _ _ _ (walk_atom F w k a (h1 _) h2 h3 i i0 c bl hk)]
    have hk' : (addAtom c w k a).base.nodes.map (·.1) = keysUpTo (k + 1) := by
      simp [addAtom, hk, keysUpTo_succ]
    obtain ⟨j, hj⟩ := ih (k + 1) (addAtom c w k a) (i + 1) hk' (fun x hx => hall x (by simp [hx]))
    exact ⟨j, hj⟩

/-! ### interaction lines, blocks -/

theorem addInters_addInters (c : RCtx) (a b : List C13.Inter) :
    addInters (addInters c a) b = addInters c (a ++ b) := by
  simp [addInters]

theorem addInters_nil (c : RCtx) : addInters c [] = c := by
  simp [addInters]

/-- everything the walk needs to know about one in-memory interaction -/
structure InterFacts (corr : List (Int × Nat)) (N : Nat) (ar : Arity) (it : Inter) : Prop where
  ready : C02.InterReady corr N ar it
  plain : it.params.all plainTok = true
  chars : C02.interChars it = true

theorem walk_interLines (F : TabFacts tab idxTab tbl) (corr : List (Int × Nat)) (w : Nat) (sname : String)
    (ar : Arity) (hs : (sname, ar) ∈ tbl) (hv : (ar = .firstSkip) ↔ (sname = "virtual_sitesn")) (N : Nat)
    (pm : PMeta) (hpm : MetaOk pm) (i0 : Nat) (bl : Blocks) (is : List Inter) :
    ∀ (c : RCtx) (i : Nat), c.base.snapshot = keysUpTo N → (∀ it ∈ is, InterFacts corr N ar it) →
      ∃ j, walkLs (paramsX idxTab tab) (stX pm ["moleculetype", sname] i0 c bl i)
          (is.map (C02.interLine corr w (sname == "virtual_sitesn")))
        = some (stX pm ["moleculetype", sname] i0 (addInters c (is.map (interRec corr sname pm))) bl j) := by
  induction is with
  | nil => intro c i _ _; exact ⟨i, by simp [addInters_nil, walkLs_nil]⟩
  | cons it r ih =>
    intro c i hsnap hall
    have h := hall it (by simp)
    simp only [List.map_cons]
    unfold stX
    rw [walkLs_cons_ok _ _ _ _ _ (walk_inter F corr w sname ar hs hv it N h.ready h.plain h.chars pm hpm
      i i0 c bl hsnap)]
    obtain ⟨j, hj⟩ := ih (addInters c [interRec corr sname pm it]) (i + 1) hsnap
      (fun x hx => hall x (by simp [hx]))
    refine ⟨j, ?_⟩
    unfold stX at hj
    rw [hj, addInters_addInters]
    rfl

def pmOf (k : Key) : PMeta :=
  match k.cond with
  | some (d, flag) => some (if flag then "ifdef" else "ifndef", d)
  | none => none

def KeyOk (k : Key) : Prop :=
  match k.cond with
  | some (d, _) => C02.tokS d ∧ ∀ x ∈ d.toList, x ≠ '\x03'
  | none => True

theorem metaOk_pmOf (k : Key) (h : KeyOk k) : MetaOk (pmOf k) := by
  unfold pmOf KeyOk MetaOk at *
  cases hc : k.cond with
  | none => trivial
  | some p =>
    obtain ⟨d, flag⟩ := p
    rw [hc] at h
    exact ⟨by cases flag <;> simp, h.2⟩

def FreeOk (ls : List C02.Line) : Prop := ∀ l ∈ ls, ∃ t, l = .free t ∧ freeLineOk t = true

theorem walk_block (F : TabFacts tab idxTab tbl) (corr : List (Int × Nat)) (w : Nat) (sname : String)
    (ar : Arity) (hs : (sname, ar) ∈ tbl) (hv : (ar = .firstSkip) ↔ (sname = "virtual_sitesn")) (N : Nat)
    (post : List C02.Line) (hpost : FreeOk post) (blk : Key × List Inter) (hk : KeyOk blk.1)
    (hall : ∀ it ∈ blk.2, InterFacts corr N ar it)
    (i0 : Nat) (bl : Blocks) (c : RCtx) (i : Nat) (hsnap : c.base.snapshot = keysUpTo N) :
    ∃ j, walkLs (paramsX idxTab tab) (stX none ["moleculetype", sname] i0 c bl i)
        (C02.blockLines corr w sname post blk)
      = some (stX none ["moleculetype", sname] i0
          (addInters c (blk.2.map (interRec corr sname (pmOf blk.1)))) bl j) := by
  obtain ⟨k, is⟩ := blk
  have hgroup : ∀ l ∈ C02.groupLine k, cls l = [] := by
    intro l hl
    unfold C02.groupLine at hl
    split at hl
    · simp at hl
    · simp only [List.mem_singleton] at hl; subst hl; exact cls_comment _
  unfold C02.blockLines
  simp only [List.append_assoc]
  cases hc : k.cond with
  | none =>
    have hpm : pmOf k = none := by simp [pmOf, hc]
    simp only [C02.guardOpen, C02.guardClose, hc, List.nil_append, hpm]
    rw [walkLs_append_ok _ _ _ _ _ (walk_skip _ _ _ hgroup)]
    obtain ⟨j, hj⟩ := walk_interLines F corr w sname ar hs hv N none trivial i0 bl is c i hsnap hall
    rw [walkLs_append_ok _ _ _ _ _ hj]
    rw [walkLs_append_ok _ _ _ _ _ (walk_frees _ _ _ hpost)]
    exact ⟨j, walk_skip _ _ _ (by intro l hl; simp only [List.mem_singleton] at hl; subst hl; exact cls_blank)⟩
  | some p =>
    obtain ⟨d, flag⟩ := p
    have hpm : pmOf k = some (if flag then "ifdef" else "ifndef", d) := by simp [pmOf, hc]
    have hkd : C02.tokS d ∧ ∀ x ∈ d.toList, x ≠ '\x03' := by
      have := hk; simp only [KeyOk, hc] at this; exact this
    simp only [C02.guardOpen, C02.guardClose, hc, List.cons_append, List.nil_append, hpm]
    unfold stX
    rw [walkLs_cons_ok _ _ _ _ _ (walk_guard_open _ flag d hkd.1 _ i)]
    rw [walkLs_append_ok _ _ _ _ _ (walk_skip _ _ _ hgroup)]
    have hm : MetaOk (some (if flag then "ifdef" else "ifndef", d)) := by
      have := metaOk_pmOf k hk; rw [hpm] at this; exact this
    obtain ⟨j, hj⟩ := walk_interLines F corr w sname ar hs hv N _ hm i0 bl is c i hsnap hall
    unfold stX at hj
    rw [walkLs_append_ok _ _ _ _ _ hj]
    rw [walkLs_cons_ok _ _ _ _ _ (walk_endif _ _ _ j)]
    rw [walkLs_append_ok _ _ _ _ _ (walk_frees _ _ _ hpost)]
    exact ⟨j, walk_skip _ _ _ (by intro l hl; simp only [List.mem_singleton] at hl; subst hl; exact cls_blank)⟩

theorem walk_blocks (F : TabFacts tab idxTab tbl) (corr : List (Int × Nat)) (w : Nat) (sname : String)
    (ar : Arity) (hs : (sname, ar) ∈ tbl) (hv : (ar = .firstSkip) ↔ (sname = "virtual_sitesn")) (N : Nat)
    (post : List C02.Line) (hpost : FreeOk post) (i0 : Nat) (bl : Blocks) (blks : List (Key × List Inter)) :
    ∀ (c : RCtx) (i : Nat), c.base.snapshot = keysUpTo N →
      (∀ blk ∈ blks, KeyOk blk.1 ∧ ∀ it ∈ blk.2, InterFacts corr N ar it) →
      ∃ j, walkLs (paramsX idxTab tab) (stX none ["moleculetype", sname] i0 c bl i)
          ((blks.map (C02.blockLines corr w sname post)).flatten)
        = some (stX none ["moleculetype", sname] i0
            (addInters c (blks.flatMap fun blk => blk.2.map (interRec corr sname (pmOf blk.1)))) bl j) := by
  induction blks with
  | nil => intro c i _ _; exact ⟨i, by simp [addInters_nil, walkLs_nil]⟩
  | cons b t ih =>
    intro c i hsnap hall
    obtain ⟨hk, hi⟩ := hall b (by simp)
    simp only [List.map_cons, List.flatten_cons, List.flatMap_cons]
    obtain ⟨j, hj⟩ := walk_block F corr w sname ar hs hv N post hpost b hk hi i0 bl c i hsnap
    rw [walkLs_append_ok _ _ _ _ _ hj]
    obtain ⟨j', hj'⟩ := ih (addInters c (b.2.map (interRec corr sname (pmOf b.1)))) j hsnap
      (fun blk hb => hall blk (by simp [hb]))
    exact ⟨j', by rw [hj', addInters_addInters]⟩

/-! ### sections -/

/-- the `atoms`-ended hook of `finalize_section`: `current_atom_names = list(block.nodes)` -/
def snap (c : RCtx) : RCtx := { c with base := { c.base with snapshot := c.base.nodes.map (·.1) } }

theorem snap_id (c : RCtx) (h : c.base.snapshot = c.base.nodes.map (·.1)) : snap c = c := by
  obtain ⟨⟨n, nd, it, rm, an, ai, sn⟩, rows, nr⟩ := c
  simp only [snap] at h ⊢
  rw [← h]

/-- the part of a context the final comparison looks at -/
structure ViewEq (c cf : RCtx) (l : List C13.Inter) : Prop where
  rows : cf.rows = c.rows
  nrexcl : cf.nrexcl = c.nrexcl
  name : cf.base.name = c.base.name
  nodes : cf.base.nodes = c.base.nodes
  inters : cf.base.inters = c.base.inters ++ l

theorem ViewEq.refl (c : RCtx) : ViewEq c c [] := ⟨rfl, rfl, rfl, rfl, by simp⟩

theorem ViewEq.trans {a b c : RCtx} {l1 l2 : List C13.Inter} (h1 : ViewEq a b l1) (h2 : ViewEq b c l2) :
    ViewEq a c (l1 ++ l2) :=
  ⟨h2.rows.trans h1.rows, h2.nrexcl.trans h1.nrexcl, h2.name.trans h1.name, h2.nodes.trans h1.nodes,
   by rw [h2.inters, h1.inters, List.append_assoc]⟩

theorem viewEq_snap (c : RCtx) : ViewEq c (snap c) [] := ⟨rfl, rfl, rfl, rfl, by simp [snap]⟩

theorem viewEq_addInters (c : RCtx) (l : List C13.Inter) : ViewEq c (addInters c l) l :=
  ⟨rfl, rfl, rfl, rfl, rfl⟩

/-- the block dict holds nothing, or one entry under the name of the open block -/
def BlocksInv (name : String) (bl : Blocks) : Prop := bl = [] ∨ ∃ b, bl = [(some name, b)]

theorem blocksInv_set (name : String) (bl : Blocks) (h : BlocksInv name bl) (v : Nat × RCtx) :
    dictSet bl (some name) v = [(some name, v)] := by
  rcases h with rfl | ⟨b, rfl⟩
  · rfl
  · simp [dictSet]

/-- invariant between sections: node keys fixed; `current_atom_names` already taken unless the open
section is still `[ atoms ]` -/
def SecInv (N : Nat) (x : String) (c : RCtx) : Prop :=
  c.base.nodes.map (·.1) = keysUpTo N ∧ (x = "atoms" ∨ c.base.snapshot = keysUpTo N)

/-- what the walk needs to know about one written section -/
structure SectFacts (corr : List (Int × Nat)) (N : Nat) (ar : Arity) (s : Nat × String × List Inter) : Prop where
  notAtoms : retag s.2.1 ≠ "atoms"
  inTbl : (retag s.2.1, ar) ∈ tbl
  vsn : (ar = .firstSkip) ↔ (retag s.2.1 = "virtual_sitesn")
  hdr : hdrName (retag s.2.1) = retag s.2.1
  inters : ∀ it ∈ s.2.2, InterFacts corr N ar it ∧ KeyOk (keyOf it)

theorem walk_section (F : TabFacts tab idxTab tbl) (m : Mol) (corr : List (Int × Nat)) (w N : Nat)
    (s : Nat × String × List Inter) (ar : Arity) (hf : SectFacts (tbl := tbl) corr N ar s)
    (hpre : FreeOk (C02.linesOf m.pre (retag s.2.1))) (hpost : FreeOk (C02.linesOf m.post (retag s.2.1)))
    (name : String) (x : String) (i0 : Nat) (bl : Blocks) (c : RCtx) (i : Nat)
    (hname : c.base.name = some name) (hbl : BlocksInv name bl) (hinv : SecInv N x c) :
    ∃ cf bl' j, walkLs (paramsX idxTab tab) (stX none ["moleculetype", x] i0 c bl i)
        (C02.sectionLines m corr w s)
      = some (stX none ["moleculetype", retag s.2.1] i0 cf bl' j)
      ∧ ViewEq c cf ((C02.groupRuns (C02.sortInters s.2.2)).flatMap fun blk =>
            blk.2.map (interRec corr (retag s.2.1) (pmOf blk.1)))
      ∧ BlocksInv name bl' ∧ SecInv N (retag s.2.1) cf := by
  obtain ⟨e, he, _, _⟩ := F.inter _ _ hf.inTbl
  have hT : ["moleculetype", retag s.2.1] ∈ (paramsX idxTab tab).T := findEntry_mem he
  have hn : [retag s.2.1] ∉ (paramsX idxTab tab).T := F.interNotTop _ _ hf.inTbl
  have hd : ["moleculetype", x, retag s.2.1] ∉ (paramsX idxTab tab).T := by
    intro hmem
    have := F.depth _ hmem
    simp at this
  -- the context after the header: the hook applied, whichever section was open
  have hc' : (if x = "atoms" then (paramsX idxTab tab).atomsEnded c else c) = snap c := by
    by_cases hx : x = "atoms"
    · simp only [hx, if_true]; rfl
    · simp only [hx, if_false]
      rcases hinv.2 with h | h
      · exact absurd h hx
      · exact (snap_id c (by rw [h, hinv.1])).symm
  have hsnap : (snap c).base.snapshot = keysUpTo N := by simp [snap, hinv.1]
  unfold C02.sectionLines
  rw [List.append_assoc]
  simp only [List.singleton_append, List.cons_append, List.nil_append]
  unfold stX
  rw [walkLs_cons_ok _ _ _ _ _ (walk_sect _ _ _ _ _)]
  rw [hf.hdr, header_inter (paramsX idxTab tab) x (retag s.2.1) hT hn hd i i0 c bl]
  simp only [hc']
  rw [walkLs_append_ok _ _ _ _ _ (walk_frees _ _ _ hpre)]
  have hnm : (paramsX idxTab tab).nameOf (snap c) = some name := hname
  rw [hnm, blocksInv_set name bl hbl]
  obtain ⟨j, hj⟩ := walk_blocks F corr w (retag s.2.1) ar hf.inTbl hf.vsn N _ hpost i0
    [(some name, (i0, snap c))] (C02.groupRuns (C02.sortInters s.2.2)) (snap c) (i + 1) hsnap
    (by
      intro blk hb
      have hne := C02.groupRuns_nonempty _ blk hb
      have hkeys := C02.groupRuns_keys _ blk hb
      have hmem : ∀ it ∈ blk.2, it ∈ s.2.2 := fun it hi =>
        (C02.sortInters_perm s.2.2).mem_iff.mp (C02.groupRuns_mem _ blk hb it hi)
      refine ⟨?_, fun it hi => (hf.inters it (hmem it hi)).1⟩
      cases hb2 : blk.2 with
      | nil => exact absurd hb2 hne
      | cons i0' rest =>
        have := hkeys i0' (by rw [hb2]; simp)
        rw [← this]
        exact (hf.inters i0' (hmem i0' (by rw [hb2]; simp))).2)
  unfold stX at hj
  refine ⟨_, _, j, hj, ?_, Or.inr ⟨_, rfl⟩, ?_⟩
  · have := (viewEq_snap c).trans (viewEq_addInters (snap c)
      ((C02.groupRuns (C02.sortInters s.2.2)).flatMap fun blk =>
            blk.2.map (interRec corr (retag s.2.1) (pmOf blk.1))))
    simpa using this
  · exact ⟨by simp [addInters, snap, hinv.1], Or.inr (by simp [addInters, snap, hinv.1])⟩

theorem walk_sections (F : TabFacts tab idxTab tbl) (m : Mol) (corr : List (Int × Nat)) (w N : Nat)
    (hpre : ∀ n, FreeOk (C02.linesOf m.pre n)) (hpost : ∀ n, FreeOk (C02.linesOf m.post n))
    (name : String) (i0 : Nat) (secs : List (Nat × String × List Inter)) :
    ∀ (x : String) (bl : Blocks) (c : RCtx) (i : Nat),
      (∀ s ∈ secs, ∃ ar, SectFacts (tbl := tbl) corr N ar s) →
      c.base.name = some name → BlocksInv name bl → SecInv N x c →
      ∃ cf bl' x' j, walkLs (paramsX idxTab tab) (stX none ["moleculetype", x] i0 c bl i)
          ((secs.map (C02.sectionLines m corr w)).flatten)
        = some (stX none ["moleculetype", x'] i0 cf bl' j)
        ∧ ViewEq c cf (secs.flatMap fun s => (C02.groupRuns (C02.sortInters s.2.2)).flatMap fun blk =>
              blk.2.map (interRec corr (retag s.2.1) (pmOf blk.1)))
        ∧ BlocksInv name bl' := by
  induction secs with
  | nil =>
    intro x bl c i _ _ hbl _
    exact ⟨c, bl, x, i, rfl, ViewEq.refl c, hbl⟩
  | cons s t ih =>
    intro x bl c i hall hname hbl hinv
    simp only [List.map_cons, List.flatten_cons, List.flatMap_cons]
    obtain ⟨ar, har⟩ := hall s (by simp)
    obtain ⟨cf, bl', j, hw, hv, hb, hi⟩ := walk_section F m corr w N s ar har (hpre _) (hpost _)
      name x i0 bl c i hname hbl hinv
    rw [walkLs_append_ok _ _ _ _ _ hw]
    obtain ⟨cf2, bl2, x2, j2, hw2, hv2, hb2⟩ := ih (retag s.2.1) bl' cf j (fun s' hs' => hall s' (by simp [hs']))
      (hv.name.trans hname) hb hi
    exact ⟨cf2, bl2, x2, j2, hw2, hv.trans hv2, hb2⟩

/-! ### left-over sections -/

theorem walk_remaining (m : Mol) (hpre : ∀ n, FreeOk (C02.linesOf m.pre n))
    (hpost : ∀ n, FreeOk (C02.linesOf m.post n)) (hm : ["moleculetype"] ∈ (paramsX idxTab tab).T)
    (name : String) (i0 : Nat) (names : List String) :
    ∀ (sec : Path) (bl : Blocks) (c : RCtx) (i : Nat),
      (∀ n ∈ names, [hdrName n] ∉ (paramsX idxTab tab).T) → sec ≠ [] →
      c.base.name = some name → BlocksInv name bl →
      ∃ cf bl' sec' j, walkLs (paramsX idxTab tab) (stX none sec i0 c bl i)
          (names.flatMap fun n =>
            [C02.Line.sect n] ++ C02.linesOf m.pre n ++ C02.linesOf m.post n ++ [C02.Line.blank])
        = some (stX none sec' i0 cf bl' j) ∧ ViewEq c cf [] ∧ BlocksInv name bl' ∧ sec' ≠ [] := by
  induction names with
  | nil =>
    intro sec bl c i _ hs _ hbl
    exact ⟨c, bl, sec, i, rfl, ViewEq.refl c, hbl, hs⟩
  | cons n t ih =>
    intro sec bl c i hall hs hname hbl
    obtain ⟨c', sec', hc', hhdr⟩ := header_other (paramsX idxTab tab) (hdrName n) (hall n (by simp)) hm
      { sec := sec, blk := some (i0, c), blocks := bl } hs i i0 c rfl
    have hv : ViewEq c c' [] := by
      rcases hc' with rfl | rfl
      · exact ViewEq.refl _
      · exact viewEq_snap c
    have hsec' : sec' ≠ [] := by
      have h1 : (itpHeader (paramsX idxTab tab) { sec := sec, blk := some (i0, c), blocks := bl } i (hdrName n)).sec
          = sec' := by rw [hhdr]
      rw [itpHeader_sec] at h1
      rw [← h1]
      exact nextSec_ne_nil _ _ _
    have hnm : (paramsX idxTab tab).nameOf c' = some name := hv.name.trans hname
    rw [List.flatMap_cons]
    have hone : walkLs (paramsX idxTab tab) (stX none sec i0 c bl i)
        ([C02.Line.sect n] ++ C02.linesOf m.pre n ++ C02.linesOf m.post n ++ [C02.Line.blank])
        = some (stX none sec' i0 c' [(some name, (i0, c'))] (i + 1)) := by
      simp only [List.append_assoc, List.singleton_append, List.cons_append, List.nil_append]
      unfold stX
      rw [walkLs_cons_ok _ _ _ _ _ (walk_sect _ _ _ _ _), hhdr]
      simp only
      rw [hnm, blocksInv_set name bl hbl]
      rw [walkLs_append_ok _ _ _ _ _ (walk_frees _ _ _ (hpre n))]
      rw [walkLs_append_ok _ _ _ _ _ (walk_frees _ _ _ (hpost n))]
      exact walk_skip _ _ _ (by intro l hl; simp only [List.mem_singleton] at hl; subst hl; exact cls_blank)
    rw [walkLs_append_ok _ _ _ _ _ hone]
    obtain ⟨cf, bl2, sec2, j, hw, hv2, hb2, hs2⟩ := ih sec' [(some name, (i0, c'))] c' (i + 1)
      (fun n' hn' => hall n' (by simp [hn'])) hsec' (hv.name.trans hname) (Or.inr ⟨_, rfl⟩)
    refine ⟨cf, bl2, sec2, j, hw, ?_, hb2, hs2⟩
    have := hv.trans hv2
    simpa using this

end C02.Repo
